/-
Layer 8: model of SQL generation (`sql/_engine.py::to_executable`, `_select_to_executable`,
`to_payload`, `convert_column_expression`, `convert_predicate`, `convert_sort_term`) into a small
SQL syntax tree, a list semantics of that syntax (MODELLED, NOT VERIFIED: it is validated against
SQLite on every generated query), and a static acceptance judgement for SQLite.
-/
import DafRel.Model.Apply
import DafRel.Model.Sem

namespace DafRel

/-- Scalar SQL expressions.  `col src t` is column `t` of the FROM item named `src`
(`src = ""` refers to an output column of a compound select). -/
inductive SqlExpr where
  | lit (v : Int)
  | col (src : String) (t : Tag)
  | fn (f : Fn) (args : List SqlExpr)
deriving Repr, Inhabited

/-- Boolean SQL expressions as produced by `convert_predicate`. -/
inductive SqlPred where
  | lit (b : Bool)
  | col (src : String) (t : Tag)
  | fn (f : PFn) (args : List SqlExpr)
  | not (p : SqlPred)
  | and (ps : List SqlPred)
  | or (ps : List SqlPred)
  | eqLit (x : SqlExpr) (v : Int)                       -- `item = start`
  | between (x : SqlExpr) (lo hi : Int)                 -- `item BETWEEN lo AND hi`
  | modEq (x : SqlExpr) (step r : Int)                  -- `item % step = r`
  | inList (x : SqlExpr) (xs : List SqlExpr)            -- `item IN (...)`
deriving Repr, Inhabited

mutual
inductive From where
  | table (name : String) (oid : Nat) (rows : Nat)      -- payload table #`rows` (index into the table store)
  | subquery (alias : String) (q : Query)
  | join (l r : From) (on : List SqlPred)
inductive Query where
  | select (items : List (Tag × SqlExpr)) (frm : From) (wh : List SqlPred) (distinct : Bool)
           (orderBy : List (SqlExpr × Bool)) (offset : Nat) (limit : Option Nat)
  | compound (all : Bool) (l r : Query) (cols : Cols)
             (orderBy : List (SqlExpr × Bool)) (offset : Nat) (limit : Option Nat)
end

instance : Inhabited From := ⟨.table "" 0 0⟩
instance : Inhabited Query := ⟨.select [] default [] false [] 0 none⟩

/-- `sql.Payload`: FROM clause, WHERE terms, `columns_available`. -/
structure SqlPayload where
  frm : From
  wh : List SqlPred := []
  avail : List (Tag × SqlExpr) := []
deriving Inhabited

def SqlPayload.lookup (p : List (Tag × SqlExpr)) (t : Tag) : Option SqlExpr :=
  (p.find? (·.1 == t)).map (·.2)

/-- `{**a, **b}` on `columns_available` dictionaries. -/
def availMerge (a b : List (Tag × SqlExpr)) : List (Tag × SqlExpr) :=
  a.filter (fun x => (b.find? (·.1 == x.1)).isNone) ++ b

def availSet (a : List (Tag × SqlExpr)) (t : Tag) (e : SqlExpr) : List (Tag × SqlExpr) :=
  if (a.find? (·.1 == t)).isSome then a.map (fun x => if x.1 == t then (t, e) else x) else a ++ [(t, e)]

/-- SQL-side state: payloads of SQL-engine leaves / processed markers by allocation id, the
rows of every table, and a counter for anonymous subquery aliases. -/
structure SqlState where
  payloads : List (Nat × SqlPayload) := []
  tables : List (List Row) := []
deriving Inhabited

def SqlState.hasPayload (s : SqlState) (oid : Nat) : Bool := (s.payloads.find? (·.1 == oid)).isSome
def SqlState.payload (s : SqlState) (oid : Nat) : Option SqlPayload := (s.payloads.find? (·.1 == oid)).map (·.2)

/-! ### Expression conversion -/

mutual
/-- `convert_column_expression(expression, columns_available)`; `KeyError` for a missing column. -/
def convExpr (avail : List (Tag × SqlExpr)) : Expr → Except Err SqlExpr
  | .lit v => .ok (.lit v)
  | .ref t => match SqlPayload.lookup avail t with
    | some e => .ok e
    | none => .error .key
  | .fn f args _ => match convExprs avail args with
    | .error e => .error e
    | .ok as => .ok (.fn f as)
def convExprs (avail : List (Tag × SqlExpr)) : List Expr → Except Err (List SqlExpr)
  | [] => .ok []
  | e :: es => match convExpr avail e with
    | .error err => .error err
    | .ok x => match convExprs avail es with
      | .error err => .error err
      | .ok xs => .ok (x :: xs)
end

/-- SQL for membership in the ascending range `start, start+step, ... ≤ stopIncl` (`step > 0`). -/
def ascRange (x : SqlExpr) (start stopIncl step : Int) : SqlPred :=
  if start == stopIncl then .eqLit x start
  else if step != 1 then
    if start < 0 then
      .and [.between x start stopIncl, .modEq (.fn .sub [x, .lit start]) step 0]
    else .and [.between x start stopIncl, .modEq x step (start.fmod step)]
  else .between x start stopIncl

/-- The `range` branch of `convert_predicate` for `item in range(start0, stop0, step0)`. -/
def convRange (x : SqlExpr) (start0 stop0 step0 : Int) : SqlPred :=
  -- `if not value: return literal(False)`
  if (step0 > 0 && start0 ≥ stop0) || (step0 < 0 && start0 ≤ stop0) || step0 == 0 then .lit false
  else if step0 < 0 then
    -- `value = value[::-1]`: the same members, ascending
    let n := (start0 - stop0 - 1) / (-step0) + 1
    ascRange x (start0 + (n - 1) * step0) (start0 - step0 - 1) (-step0)
  else ascRange x start0 (stop0 - 1) step0

mutual
/-- `convert_predicate(predicate, columns_available)`. -/
def convPred (avail : List (Tag × SqlExpr)) : Pred → Except Err SqlPred
  | .lit b => .ok (.lit b)
  | .ref t => match SqlPayload.lookup avail t with
    | some (.col s c) => .ok (.col s c)
    | some e => .ok (.fn (.other "truth") [e])
    | none => .error .key
  | .fn f args _ => match convExprs avail args with
    | .error e => .error e
    | .ok as => .ok (.fn f as)
  | .not p => match convPred avail p with
    | .error e => .error e
    | .ok q => .ok (.not q)
  | .and ps =>
    match convPreds avail ps with
    | .error e => .error e
    | .ok [] => .ok (.lit true)
    | .ok [q] => .ok q
    | .ok qs => .ok (.and qs)
  | .or ps =>
    match convPreds avail ps with
    | .error e => .error e
    | .ok [] => .ok (.lit false)
    | .ok [q] => .ok q
    | .ok qs => .ok (.or qs)
  | .inC item c =>
    match convExpr avail item with
    | .error e => .error e
    | .ok x =>
      match c with
      | .range start0 stop0 step0 => .ok (convRange x start0 stop0 step0)
      | .seq items =>
        match convExprs avail items with
        | .error e => .error e
        | .ok xs => .ok (.inList x xs)
def convPreds (avail : List (Tag × SqlExpr)) : List Pred → Except Err (List SqlPred)
  | [] => .ok []
  | p :: ps => match convPred avail p with
    | .error e => .error e
    | .ok q => match convPreds avail ps with
      | .error e => .error e
      | .ok qs => .ok (q :: qs)
end

/-- `convert_flattened_predicate`. -/
def convFlattened (avail : List (Tag × SqlExpr)) (p : Pred) : Except Err (List SqlPred) :=
  match p.flattenAnd with
  | none => .ok [.lit false]
  | some ps => convPreds avail ps

/-! ### Compilation -/

def Rel.payloadSql (s : SqlState) (r : Rel) : Option SqlPayload :=
  match r with
  | .unary .. => none
  | .binary .. => none
  | _ => s.payload r.oid

def subAvail (alias : String) (cols : Cols) : List (Tag × SqlExpr) :=
  cols.foldl (fun acc t => if (acc.find? (·.1 == t)).isSome then acc else acc ++ [(t, SqlExpr.col alias t)]) []

/-- The payload of a database table holding the rows of a relation with the given columns: every column is
available as the table's column of the same name (`Payload(from_clause=table, columns_available=...)`). -/
def tablePayload (name : String) (uid idx : Nat) (cols : Cols) (wh : List SqlPred := []) : SqlPayload :=
  { frm := .table name uid idx, wh := wh, avail := cols.map (fun t => (t, SqlExpr.col name t)) }

/-- The ON term for one common column of a join: `lhs[t] == rhs[t]`. -/
def onCommonTerm (la ra : List (Tag × SqlExpr)) (t : Tag) : Option SqlPred :=
  match SqlPayload.lookup la t, SqlPayload.lookup ra t with
  | some a, some b => some (SqlPred.fn .eq [a, b])
  | _, _ => none

/-- The extra ON terms of a join: the flattened predicate, unless it is trivially true. -/
def joinExtra (avail : List (Tag × SqlExpr)) (pred : Pred) : Except Err (List SqlPred) :=
  if pred.asTrivial == some true then .ok [] else convFlattened avail pred

mutual
/-- `_select_to_executable(select, ())`; the `Nat` threads the anonymous-alias counter. -/
def compileSelect (s : SqlState) : Nat → Rel → Nat → Except Err (Query × Nat)
  | 0, _, _ => .error .fuel
  | fuel+1, sel, ctr =>
    match sel with
    | .select oid sort _ dedup sliceStart sliceStop skipTo _ target =>
      let limit : Option Nat := sliceStop.map (· - sliceStart)
      match s.payload oid with
      | some own =>
        -- a payload attached to the Select itself already represents its rows
        match target.columns.mapM (fun t => (SqlPayload.lookup own.avail t).map (fun e => (t, e))) with
        | none => .error .key
        | some items =>
          let items := items.foldl (fun acc x => if (acc.find? (·.1 == x.1)).isSome then acc else acc ++ [x]) []
          .ok (.select items own.frm own.wh false [] 0 none, ctr)
      | none =>
      match skipTo with
      | .binary .chain l r _ =>
        match l, r with
        | .select .., .select .. =>
          match compileSelect s fuel l ctr with
          | .error e => .error e
          | .ok (ql, c1) =>
            match compileSelect s fuel r c1 with
            | .error e => .error e
            | .ok (qr, c2) =>
              let avail := subAvail "" skipTo.columns
              match sort.mapM (fun t => (convExpr avail t.expr).map (fun e => (e, t.asc))) with
              | .error e => .error e
              | .ok ob => .ok (.compound (!dedup) ql qr skipTo.columns ob sliceStart limit, c2)
        | _, _ => .error .attribute          -- `cast(Select, lhs).skip_to` on a non-Select
      | _ =>
        let pay : Except Err (SqlPayload × Nat) :=
          match skipTo.payloadSql s with
          | some p => .ok (p, ctr)
          | none => toPayload s fuel skipTo ctr
        match pay with
        | .error e => .error e
        | .ok (p, c1) =>
          match target.columns.mapM (fun t => (SqlPayload.lookup p.avail t).map (fun e => (t, e))) with
          | none => .error .key
          | some items =>
            -- de-duplicate the select list (a dict keyed by tag)
            let items := items.foldl (fun acc x => if (acc.find? (·.1 == x.1)).isSome then acc else acc ++ [x]) []
            match sort.mapM (fun t => (convExpr p.avail t.expr).map (fun e => (e, t.asc))) with
            | .error e => .error e
            | .ok ob => .ok (.select items p.frm p.wh dedup ob sliceStart limit, c1)
    | _ => .error .attribute

/-- `to_payload(relation)`. -/
def toPayload (s : SqlState) : Nat → Rel → Nat → Except Err (SqlPayload × Nat)
  | 0, _, _ => .error .fuel
  | fuel+1, r, ctr =>
    match r.payloadSql s with
    | some p => .ok (p, ctr)
    | none =>
      match r with
      | .unary (.calc tag e) t _ =>
        match toPayload s fuel t ctr with
        | .error err => .error err
        | .ok (p, c1) =>
          match convExpr p.avail e with
          | .error err => .error err
          | .ok x => .ok ({ p with avail := availSet p.avail tag x }, c1)
      | .unary (.sel pr) t _ =>
        match toPayload s fuel t ctr with
        | .error err => .error err
        | .ok (p, c1) =>
          match convFlattened p.avail pr with
          | .error err => .error err
          | .ok ws => .ok ({ p with wh := p.wh ++ ws }, c1)
      | .binary (.join j) l rr _ =>
        match toPayload s fuel l ctr with
        | .error err => .error err
        | .ok (pl, c1) =>
          match toPayload s fuel rr c1 with
          | .error err => .error err
          | .ok (pr, c2) =>
            match j.commonColumns with
            | .error err => .error err
            | .ok common =>
              match common.mapM (onCommonTerm pl.avail pr.avail) with
              | none => .error .key
              | some oc =>
                let avail := availMerge pl.avail pr.avail
                match joinExtra avail j.pred with
                | .error err => .error err
                | .ok ex =>
                  .ok ({ frm := .join pl.frm pr.frm (oc ++ ex), wh := pl.wh ++ pr.wh, avail := avail }, c2)
      | .select .. =>
        match compileSelect s fuel r ctr with
        | .error err => .error err
        | .ok (q, c1) =>
          let alias := s!"anon_{c1 + 1}"
          .ok ({ frm := .subquery alias q, avail := subAvail alias r.columns }, c1 + 1)
      | .mat .. => .error .engine
      | .transfer .. => .error .engine
      | _ => .error .notImpl
end

/-! ### List semantics of the generated SQL (modelled; validated against SQLite) -/

/-- Environment of a FROM clause: physical column -> value. -/
abbrev PEnv := String → Tag → Option Int

def PEnv.merge (a b : PEnv) : PEnv := fun s t => match a s t with
  | some v => some v
  | none => b s t

/-- SQLite's `%`: truncating remainder; `NULL` (none) for a zero divisor. -/
def sqliteMod (x m : Int) : Option Int := if m = 0 then none else some (x.tmod m)

mutual
def SqlExpr.eval (env : PEnv) : SqlExpr → Option Int
  | .lit v => some v
  | .col s t => env s t
  | .fn f args => match SqlExpr.evalList env args with
    | none => none
    | some vs => f.apply vs
def SqlExpr.evalList (env : PEnv) : List SqlExpr → Option (List Int)
  | [] => some []
  | e :: es => match SqlExpr.eval env e with
    | none => none
    | some v => match SqlExpr.evalList env es with
      | none => none
      | some vs => some (v :: vs)
end

mutual
/-- Truth value of a boolean SQL expression on NULL-free integer data (missing = false). -/
def SqlPred.eval (env : PEnv) : SqlPred → Bool
  | .lit b => b
  | .col s t => (env s t).getD 0 != 0
  | .fn f args => match SqlExpr.evalList env args with
    | none => false
    | some vs => (f.apply vs).getD false
  | .not p => !(SqlPred.eval env p)
  | .and ps => SqlPred.evalAll env ps
  | .or ps => SqlPred.evalAny env ps
  | .eqLit x v => SqlExpr.eval env x == some v
  | .between x lo hi => match SqlExpr.eval env x with
    | some v => decide (lo ≤ v) && decide (v ≤ hi)
    | none => false
  | .modEq x step r => match SqlExpr.eval env x with
    | some v => sqliteMod v step == some r
    | none => false
  | .inList x xs => match SqlExpr.eval env x, SqlExpr.evalList env xs with
    | some v, some vs => vs.contains v
    | _, _ => false
def SqlPred.evalAll (env : PEnv) : List SqlPred → Bool
  | [] => true
  | p :: ps => SqlPred.eval env p && SqlPred.evalAll env ps
def SqlPred.evalAny (env : PEnv) : List SqlPred → Bool
  | [] => false
  | p :: ps => SqlPred.eval env p || SqlPred.evalAny env ps
end

def rowEnv (src : String) (r : Row) : PEnv := fun s t => if s == src then r t else none

/-- Compare two key tuples under per-term direction (NULL-free). -/
def keysLe : List (Int × Bool) → List (Int × Bool) → Bool
  | [], _ => true
  | _, [] => true
  | (a, asc) :: as, (b, _) :: bs =>
    if a = b then keysLe as bs else if asc then decide (a < b) else decide (a > b)

def keysEq (a b : List (Int × Bool)) : Bool := (a.map (·.1)) == (b.map (·.1))

structure EvalOut where
  rows : List Row
  /-- every OFFSET/LIMIT so far was applied to a totally ordered (or fully included) input -/
  det : Bool
  /-- this level ends with an ORDER BY that is total on its rows -/
  total : Bool
deriving Inhabited

def rowEqOn (cols : Cols) (a b : Row) : Bool := a.proj cols == b.proj cols

/-- DISTINCT on (row, keys) pairs: first occurrence of each distinct row. -/
def distinctPairs (cols : Cols) : List (Row × List (Int × Bool)) → List (List (Option Int)) →
    List (Row × List (Int × Bool))
  | [], _ => []
  | (r, k) :: rest, seen =>
    if seen.contains (r.proj cols) then distinctPairs cols rest seen
    else (r, k) :: distinctPairs cols rest (r.proj cols :: seen)

/-- Is the stable sort result totally ordered: adjacent ties only between equal rows. -/
def orderTotal (cols : Cols) : List (Row × List (Int × Bool)) → Bool
  | [] => true
  | [_] => true
  | (r1, k1) :: (r2, k2) :: rest =>
    (!(keysEq k1 k2) || rowEqOn cols r1 r2) && orderTotal cols ((r2, k2) :: rest)

def finishLevel (cols : Cols) (pairs : List (Row × List (Int × Bool))) (hasOrder : Bool)
    (offset : Nat) (limit : Option Nat) (detIn : Bool) (ambiguous : Bool := false) : EvalOut :=
  let sorted := if hasOrder then isort (fun a b => keysLe a.2 b.2) pairs else pairs
  -- `ambiguous`: DISTINCT merged rows whose ORDER BY keys differ (the keys are not columns of the
  -- select list), so the database may order the surviving row by any of them
  let total := hasOrder && !ambiguous && orderTotal cols sorted
  let allSame := match sorted with
    | [] => true
    | (r0, _) :: rest => rest.all (fun p => rowEqOn cols p.1 r0)
  let n := sorted.length
  let sliced := sliceList offset (limit.map (· + offset)) sorted
  -- a window that is certainly empty, or certainly everything, does not depend on the order
  let sliceDet := limit == some 0 || offset ≥ n ||
    (offset == 0 && (match limit with | none => true | some l => l ≥ n)) || total || allSame
  { rows := sliced.map (·.1), det := detIn && sliceDet, total := total }

/-- The output row of a SELECT list in an environment. -/
def itemRow (items : List (Tag × SqlExpr)) (e : PEnv) : Row := fun t =>
  match items.find? (·.1 == t) with
  | some (_, x) => SqlExpr.eval e x
  | none => none

/-- The ORDER BY key tuple in an environment. -/
def orderKeys (orderBy : List (SqlExpr × Bool)) (e : PEnv) : List (Int × Bool) :=
  orderBy.map (fun (x, asc) => ((SqlExpr.eval e x).getD 0, asc))

mutual
def From.envs (tables : List (List Row)) : From → List PEnv × Bool
  | .table name _ idx => ((tables.getD idx []).map (rowEnv name), true)
  | .subquery alias q =>
    let out := Query.eval tables q
    (out.rows.map (rowEnv alias), out.det)
  | .join l r on =>
    let (le, ld) := From.envs tables l
    let (re, rd) := From.envs tables r
    (le.flatMap (fun a => (re.filter (fun b => SqlPred.evalAll (a.merge b) on)).map (fun b => a.merge b)),
     ld && rd)

def Query.eval (tables : List (List Row)) : Query → EvalOut
  | .select items frm wh distinct orderBy offset limit =>
    let (envs, d0) := From.envs tables frm
    let envs := envs.filter (fun e => SqlPred.evalAll e wh)
    let cols := items.map (·.1)
    let pairs : List (Row × List (Int × Bool)) := envs.map (fun e => (itemRow items e, orderKeys orderBy e))
    let ambiguous := distinct && !orderBy.isEmpty &&
      !(pairs.all (fun p => pairs.all (fun q => !(rowEqOn cols p.1 q.1) || keysEq p.2 q.2)))
    let pairs := if distinct then distinctPairs cols pairs [] else pairs
    finishLevel cols pairs (!orderBy.isEmpty) offset limit d0 ambiguous
  | .compound all l r cols orderBy offset limit =>
    let lo := Query.eval tables l
    let ro := Query.eval tables r
    let rows := lo.rows ++ ro.rows
    let pairs : List (Row × List (Int × Bool)) := rows.map (fun row => (row, orderKeys orderBy (rowEnv "" row)))
    let pairs := if all then pairs else distinctPairs cols pairs []
    finishLevel cols pairs (!orderBy.isEmpty) offset limit (lo.det && ro.det)
end

/-! ### What SQLite rejects (modelled; validated) -/

mutual
def From.names : From → List String
  | .table name _ _ => [name]
  | .subquery alias _ => [alias]
  | .join l r _ => From.names l ++ From.names r
end

def SqlExpr.isPlainCol : SqlExpr → Bool
  | .col _ _ => true
  | _ => false

mutual
def SqlExpr.srcs : SqlExpr → List String
  | .lit _ => []
  | .col s _ => [s]
  | .fn _ args => SqlExpr.srcsList args
def SqlExpr.srcsList : List SqlExpr → List String
  | [] => []
  | e :: es => SqlExpr.srcs e ++ SqlExpr.srcsList es
end

mutual
def SqlPred.srcs : SqlPred → List String
  | .lit _ => []
  | .col s _ => [s]
  | .fn _ args => SqlExpr.srcsList args
  | .not p => SqlPred.srcs p
  | .and ps => SqlPred.srcsList ps
  | .or ps => SqlPred.srcsList ps
  | .eqLit x _ => x.srcs
  | .between x _ _ => x.srcs
  | .modEq x _ _ => x.srcs
  | .inList x xs => x.srcs ++ SqlExpr.srcsList xs
def SqlPred.srcsList : List SqlPred → List String
  | [] => []
  | p :: ps => SqlPred.srcs p ++ SqlPred.srcsList ps
end

mutual
def From.onSrcs : From → List String
  | .table .. => []
  | .subquery .. => []
  | .join l r on => From.onSrcs l ++ From.onSrcs r ++ SqlPred.srcsList on
end

mutual
def From.accepts : From → Bool
  | .table .. => true
  | .subquery _ q => Query.accepts q
  | .join l r _ =>
    From.accepts l && From.accepts r &&
      -- a right-nested join is parenthesised; SQLite expands it as `SELECT *`, which is
      -- ambiguous when two of its items carry the same name
      (match r with
       | .join .. => (From.names r).eraseDups.length == (From.names r).length
       | _ => true)
/-- A column reference whose FROM-item name occurs twice is ambiguous; compound operands are
simple selects (no parenthesised compound, no ORDER BY/LIMIT inside an operand); ORDER BY terms
of a compound are plain result columns. -/
def Query.accepts : Query → Bool
  | .select items frm wh _ orderBy _ _ =>
    let names := From.names frm
    let refs := SqlExpr.srcsList (items.map (·.2)) ++ SqlPred.srcsList wh ++ From.onSrcs frm ++
      SqlExpr.srcsList (orderBy.map (·.1))
    From.accepts frm && refs.all (fun s => (names.filter (· == s)).length ≤ 1)
  | .compound _ l r _ orderBy _ _ =>
    Query.accepts l && Query.accepts r && Query.isSimple l && Query.isSimple r &&
      orderBy.all (fun p => p.1.isPlainCol)
def Query.isSimple : Query → Bool
  | .select _ _ _ _ orderBy offset limit => orderBy.isEmpty && offset == 0 && limit.isNone
  | .compound .. => false
end

mutual
/-- Some FROM clause of the query names the same item twice (a self-join without aliasing):
SQLite's resolution of such references is outside the model. -/
def From.hasDup : From → Bool
  | .table .. => false
  | .subquery _ q => Query.hasDup q
  | .join l r _ => From.hasDup l || From.hasDup r
def Query.hasDup : Query → Bool
  | .select _ frm _ _ _ _ _ =>
    From.hasDup frm || !(decide (From.names frm).Nodup)
  | .compound _ l r _ _ _ _ => Query.hasDup l || Query.hasDup r
end

/-! ### The decidable part of what the compile-correctness theorem asks of a tree -/

/-- Leaves and processed markers hold payloads (a Select may), every function application has
the arity of its function, joins carry their resolved common columns, and a deduplicating Select does not
sort by a column its projection dropped (`Lemmas/SqlCompileSound.lean`: `Rel.SqlReady`). -/
def Rel.structReady (s : SqlState) : Rel → Bool
  | .leaf oid .. => (s.payload oid).isSome
  | .unary op t _ =>
    Rel.structReady s t && (match op with
      | .calc _ e => e.arityOk
      | .sel p => p.arityOk
      | .sort ts => ts.all (fun t => t.expr.arityOk)
      | _ => true)
  | .binary op l r _ => Rel.structReady s l && Rel.structReady s r &&
      (match op with
       | .join j => j.pred.arityOk && j.resolved
       | _ => true)
  | .mat oid .. => (s.payload oid).isSome
  | .transfer oid .. => (s.payload oid).isSome
  | .select oid sort _ dedup _ _ skipTo _ target =>
      (s.payload oid).isSome ||
      (Rel.structReady s skipTo && sort.all (fun t => t.expr.arityOk) &&
        (!dedup || (UOp.sortCols sort).subset target.columns))

/-! ### Driver entry point -/

/-- `engine.to_executable(relation)` followed by evaluation: conform, compile, run. -/
def sqlRun (σtables : SqlState) (st : Store) (r : Rel) : String ⊕ (EvalOut × Bool) :=
  if r.engine.kind != .sql then .inl "bad-sqlexec" else
  match conform st defaultFuel r with
  | .error e => .inl ("err compile " ++ e.name)
  | .ok c =>
    match compileSelect σtables defaultFuel (c.get r) 0 with
    | .error e => .inl ("err compile " ++ e.name)
    | .ok (q, _) =>
      if q.hasDup then .inl "unspecified duplicate-from-names"
      else if !q.accepts then .inl "err database"
      else .inr (Query.eval σtables.tables q, true)

end DafRel
