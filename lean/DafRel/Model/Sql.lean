/-
Layer 8: model of SQL compilation (placeholder; filled in below).
-/
import DafRel.Model.Apply
import DafRel.Model.Sem

namespace DafRel

structure SqlState where
  payloads : List (Nat × List Row) := []
deriving Inhabited

def SqlState.hasPayload (s : SqlState) (oid : Nat) : Bool := (s.payloads.find? (·.1 == oid)).isSome

def sqlRun (_σ : Leaves) (_sq : SqlState) (_st : Store) (_r : Rel) : Except Err (List Row × Bool) :=
  .error .notImpl

end DafRel
