/-
Layer 1 of the model: column expressions, containers, predicates.

Mirrors `python/lsst/daf/relation/_columns/{_expression,_container,_predicate}.py` and the
conversion of expressions into Python callables in `iteration/_engine.py`
(`convert_column_expression`, `convert_column_container`, `convert_predicate`).

Two evaluators are defined for every syntactic class:
  * `val`  : the *specification* ("direct evaluation"): total, mathematical meaning
             (AND = for all operands, OR = exists, IN = membership).
  * `eval` : the *checked* evaluator that reproduces what the iteration engine's callable
             does, including `KeyError` on a missing column, `TypeError` on a wrong arity
             and the short-circuit behaviour of `all(...)`/`any(...)`.  `none` = exception.
-/
import DafRel.Model.Basic

namespace DafRel

/-- Names of column functions.  The portable set is `operator.__neg__/__add__/__sub__/__mul__`;
`other` stands for an engine-specific unary function the harness registers as the identity. -/
inductive Fn where
  | neg | add | sub | mul
  | other (name : String)
deriving DecidableEq, Repr, Inhabited

/-- Names of predicate functions (`ColumnExpression.eq/ne/lt/le/gt/ge` use the dunder methods). -/
inductive PFn where
  | eq | ne | lt | le | gt | ge
  | other (name : String)
deriving DecidableEq, Repr, Inhabited

/-- `function(*args)`; `none` = `TypeError` (wrong number of arguments). -/
def Fn.apply : Fn → List Int → Option Int
  | .neg, [a] => some (-a)
  | .add, [a, b] => some (a + b)
  | .sub, [a, b] => some (a - b)
  | .mul, [a, b] => some (a * b)
  | .other _, [a] => some a
  | _, _ => none

def Fn.arity : Fn → Nat
  | .neg => 1
  | .other _ => 1
  | _ => 2

def PFn.apply : PFn → List Int → Option Bool
  | .eq, [a, b] => some (decide (a = b))
  | .ne, [a, b] => some (decide (a ≠ b))
  | .lt, [a, b] => some (decide (a < b))
  | .le, [a, b] => some (decide (a ≤ b))
  | .gt, [a, b] => some (decide (a > b))
  | .ge, [a, b] => some (decide (a ≥ b))
  | .other _, [a] => some (decide (a ≠ 0))
  | _, _ => none

def PFn.arity : PFn → Nat
  | .other _ => 1
  | _ => 2

/-- `ColumnExpression`: `ColumnLiteral`, `ColumnReference`, `ColumnFunction`.
`sup = none` means `supporting_engine_types is None`; `some k` restricts to engines of kind `k`. -/
inductive Expr where
  | lit (v : Int)
  | ref (t : Tag)
  | fn (f : Fn) (args : List Expr) (sup : Option EngineKind)
deriving Repr, Inhabited

/-- `ColumnContainer`: `ColumnRangeLiteral(range(start, stop, step))`, `ColumnExpressionSequence`. -/
inductive Container where
  | range (start stop step : Int)
  | seq (items : List Expr)
deriving Repr, Inhabited

/-- `Predicate` and its seven concrete subclasses. -/
inductive Pred where
  | lit (b : Bool)
  | ref (t : Tag)
  | fn (f : PFn) (args : List Expr) (sup : Option EngineKind)
  | not (p : Pred)
  | and (ps : List Pred)
  | or (ps : List Pred)
  | inC (item : Expr) (c : Container)
deriving Repr, Inhabited

/-! ### Structural equality (dataclass `__eq__`) -/

mutual
def Expr.beq : Expr → Expr → Bool
  | .lit a, .lit b => a == b
  | .ref a, .ref b => a == b
  | .fn f as _, .fn g bs _ => f == g && Expr.beqList as bs   -- supporting_engine_types: compare=False
  | _, _ => false
def Expr.beqList : List Expr → List Expr → Bool
  | [], [] => true
  | a :: as, b :: bs => Expr.beq a b && Expr.beqList as bs
  | _, _ => false
end

instance : BEq Expr := ⟨Expr.beq⟩

def Container.beq : Container → Container → Bool
  | .range a b c, .range a' b' c' => a == a' && b == b' && c == c'
  | .seq xs, .seq ys => Expr.beqList xs ys
  | _, _ => false

mutual
def Pred.beq : Pred → Pred → Bool
  | .lit a, .lit b => a == b
  | .ref a, .ref b => a == b
  | .fn f as _, .fn g bs _ => f == g && Expr.beqList as bs
  | .not p, .not q => Pred.beq p q
  | .and ps, .and qs => Pred.beqList ps qs
  | .or ps, .or qs => Pred.beqList ps qs
  | .inC i c, .inC j d => Expr.beq i j && Container.beq c d
  | _, _ => false
def Pred.beqList : List Pred → List Pred → Bool
  | [], [] => true
  | a :: as, b :: bs => Pred.beq a b && Pred.beqList as bs
  | _, _ => false
end

instance : BEq Pred := ⟨Pred.beq⟩

/-! ### `columns_required` -/

mutual
def Expr.columnsRequired : Expr → Cols
  | .lit _ => []
  | .ref t => [t]
  | .fn _ args _ => Expr.columnsRequiredList args
def Expr.columnsRequiredList : List Expr → Cols
  | [] => []
  | e :: es => Expr.columnsRequired e ++ Expr.columnsRequiredList es
end

def Container.columnsRequired : Container → Cols
  | .range _ _ _ => []
  | .seq items => Expr.columnsRequiredList items

mutual
def Pred.columnsRequired : Pred → Cols
  | .lit _ => []
  | .ref t => [t]
  | .fn _ args _ => Expr.columnsRequiredList args
  | .not p => Pred.columnsRequired p
  | .and ps => Pred.columnsRequiredList ps
  | .or ps => Pred.columnsRequiredList ps
  | .inC item c => Expr.columnsRequired item ++ Container.columnsRequired c
def Pred.columnsRequiredList : List Pred → Cols
  | [] => []
  | p :: ps => Pred.columnsRequired p ++ Pred.columnsRequiredList ps
end

/-! ### `is_supported_by(engine)` -/

def supOk (sup : Option EngineKind) (k : EngineKind) : Bool :=
  match sup with
  | none => true
  | some k' => k' == k

mutual
def Expr.isSupportedBy (k : EngineKind) : Expr → Bool
  | .lit _ => true
  | .ref _ => true
  | .fn _ args sup => supOk sup k && Expr.isSupportedByList k args
def Expr.isSupportedByList (k : EngineKind) : List Expr → Bool
  | [] => true
  | e :: es => Expr.isSupportedBy k e && Expr.isSupportedByList k es
end

def Container.isSupportedBy (k : EngineKind) : Container → Bool
  | .range _ _ _ => true
  | .seq items => Expr.isSupportedByList k items

mutual
def Pred.isSupportedBy (k : EngineKind) : Pred → Bool
  | .lit _ => true
  | .ref _ => true
  | .fn _ args sup => supOk sup k && Expr.isSupportedByList k args
  | .not p => Pred.isSupportedBy k p
  | .and ps => Pred.isSupportedByList k ps
  | .or ps => Pred.isSupportedByList k ps
  | .inC item c => Expr.isSupportedBy k item && Container.isSupportedBy k c
def Pred.isSupportedByList (k : EngineKind) : List Pred → Bool
  | [] => true
  | p :: ps => Pred.isSupportedBy k p && Pred.isSupportedByList k ps
end

/-! ### Specification semantics (`val`): total, direct evaluation -/

/-- Value of a missing column in the total semantics (never reached for well-formed trees). -/
def Row.getD0 (r : Row) (t : Tag) : Int := (r t).getD 0

mutual
def Expr.val (r : Row) : Expr → Int
  | .lit v => v
  | .ref t => r.getD0 t
  | .fn f args _ => (f.apply (Expr.valList r args)).getD 0
def Expr.valList (r : Row) : List Expr → List Int
  | [] => []
  | e :: es => Expr.val r e :: Expr.valList r es
end

/-- `x in range(start, stop, step)` for Python's `range`. `step = 0` cannot be constructed. -/
def inRange (x start stop step : Int) : Bool :=
  if step > 0 then decide (start ≤ x) && decide (x < stop) && decide ((x - start) % step = 0)
  else if step < 0 then decide (stop < x) && decide (x ≤ start) && decide ((start - x) % (-step) = 0)
  else false

def Container.valContains (r : Row) (x : Int) : Container → Bool
  | .range a b s => inRange x a b s
  | .seq items => (Expr.valList r items).contains x

mutual
def Pred.val (r : Row) : Pred → Bool
  | .lit b => b
  | .ref t => decide (r.getD0 t ≠ 0)
  | .fn f args _ => (f.apply (Expr.valList r args)).getD false
  | .not p => !(Pred.val r p)
  | .and ps => Pred.valAll r ps
  | .or ps => Pred.valAny r ps
  | .inC item c => c.valContains r (Expr.val r item)
def Pred.valAll (r : Row) : List Pred → Bool
  | [] => true
  | p :: ps => Pred.val r p && Pred.valAll r ps
def Pred.valAny (r : Row) : List Pred → Bool
  | [] => false
  | p :: ps => Pred.val r p || Pred.valAny r ps
end

/-! ### Checked semantics (`eval`): what the iteration engine's callables do -/

mutual
/-- `convert_column_expression(e)(row)`; `none` = exception (KeyError / TypeError). -/
def Expr.eval (r : Row) : Expr → Option Int
  | .lit v => some v
  | .ref t => r t                                  -- itemgetter(tag)
  | .fn f args _ =>
    match Expr.evalList r args with               -- [c(row) for c in arg_callables]
    | none => none
    | some vs => f.apply vs
def Expr.evalList (r : Row) : List Expr → Option (List Int)
  | [] => some []
  | e :: es =>
    match Expr.eval r e with
    | none => none
    | some v =>
      match Expr.evalList r es with
      | none => none
      | some vs => some (v :: vs)
end

/-- `item in container_callable(row)`; the sequence is evaluated fully into a Python set first. -/
def Container.evalContains (r : Row) (x : Int) : Container → Option Bool
  | .range a b s => some (inRange x a b s)
  | .seq items =>
    match Expr.evalList r items with
    | none => none
    | some vs => some (vs.contains x)

mutual
/-- `convert_predicate(p)(row)` reduced to its truth value; `none` = exception. -/
def Pred.eval (r : Row) : Pred → Option Bool
  | .lit b => some b
  | .ref t => (r t).map (fun v => decide (v ≠ 0))
  | .fn f args _ =>
    match Expr.evalList r args with
    | none => none
    | some vs => f.apply vs
  | .not p => (Pred.eval r p).map (!·)
  | .and ps => Pred.evalAll r ps
  | .or ps => Pred.evalAny r ps
  | .inC item c =>
    match Expr.eval r item with
    | none => none
    | some x => c.evalContains r x
/-- `all(c(row) for c in operand_callables)`: stops at the first falsy operand. -/
def Pred.evalAll (r : Row) : List Pred → Option Bool
  | [] => some true
  | p :: ps =>
    match Pred.eval r p with
    | none => none
    | some false => some false
    | some true => Pred.evalAll r ps
/-- `any(c(row) for c in operand_callables)`: stops at the first truthy operand. -/
def Pred.evalAny (r : Row) : List Pred → Option Bool
  | [] => some false
  | p :: ps =>
    match Pred.eval r p with
    | none => none
    | some true => some true
    | some false => Pred.evalAny r ps
end

/-! ### Well-formedness of applications (arity) -/

mutual
def Expr.arityOk : Expr → Bool
  | .lit _ => true
  | .ref _ => true
  | .fn f args _ => args.length == f.arity && Expr.arityOkList args
def Expr.arityOkList : List Expr → Bool
  | [] => true
  | e :: es => Expr.arityOk e && Expr.arityOkList es
end

def Container.arityOk : Container → Bool
  | .range _ _ s => s != 0
  | .seq items => Expr.arityOkList items

mutual
def Pred.arityOk : Pred → Bool
  | .lit _ => true
  | .ref _ => true
  | .fn f args _ => args.length == f.arity && Expr.arityOkList args
  | .not p => Pred.arityOk p
  | .and ps => Pred.arityOkList ps
  | .or ps => Pred.arityOkList ps
  | .inC item c => Expr.arityOk item && c.arityOk
def Pred.arityOkList : List Pred → Bool
  | [] => true
  | p :: ps => Pred.arityOk p && Pred.arityOkList ps
end

/-! ### `as_trivial`, `logical_and`, `logical_or`, `flatten_logical_and` -/

mutual
/-- `Predicate.as_trivial()`: `some b` = the Python `bool`, `none` = Python `None`. -/
def Pred.asTrivial : Pred → Option Bool
  | .lit b => some b
  | .ref _ => none
  | .fn _ _ _ => none
  | .not p => (Pred.asTrivial p).map (!·)
  | .and ps => Pred.asTrivialAnd ps (some true)
  | .or ps => Pred.asTrivialOr ps (some false)
  | .inC _ _ => none
/-- The loop of `LogicalAnd.as_trivial`, with the running `result`. -/
def Pred.asTrivialAnd : List Pred → Option Bool → Option Bool
  | [], acc => acc
  | p :: ps, acc =>
    match Pred.asTrivial p with
    | some false => some false
    | none => Pred.asTrivialAnd ps none
    | some true => Pred.asTrivialAnd ps acc
/-- The loop of `LogicalOr.as_trivial`, with the running `result`. -/
def Pred.asTrivialOr : List Pred → Option Bool → Option Bool
  | [], acc => acc
  | p :: ps, acc =>
    match Pred.asTrivial p with
    | some true => some true
    | none => Pred.asTrivialOr ps none
    | some false => Pred.asTrivialOr ps acc
end

/-- `Predicate.logical_and(*operands)`. -/
def Pred.logicalAnd : List Pred → Pred
  | [] => .lit true
  | [p] => p
  | ps => .and ps

/-- `Predicate.logical_or(*operands)`. -/
def Pred.logicalOr : List Pred → Pred
  | [] => .lit false
  | [p] => p
  | ps => .or ps

mutual
/-- `flatten_logical_and(predicate)`: `none` = Python `False`, `some ps` = the list. -/
def Pred.flattenAnd : Pred → Option (List Pred)
  | .and ps => Pred.flattenAndList ps
  | .lit true => some []
  | .lit false => none
  | .ref t => some [.ref t]
  | .fn f a s => some [.fn f a s]
  | .not p => some [.not p]
  | .or ps => some [.or ps]
  | .inC i c => some [.inC i c]
def Pred.flattenAndList : List Pred → Option (List Pred)
  | [] => some []
  | p :: ps =>
    match Pred.flattenAnd p with
    | none => none
    | some xs =>
      match Pred.flattenAndList ps with
      | none => none
      | some ys => some (xs ++ ys)
end

/-- The predicate stored by `Selection.__post_init__`. -/
def Pred.normalise (p : Pred) : Pred :=
  match Pred.flattenAnd p with
  | some ps => Pred.logicalAnd ps
  | none => p

end DafRel
