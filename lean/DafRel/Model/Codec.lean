/-
Decoding of protocol S-expressions into model values, and canonical printing of model values.
The canonical forms are reproduced byte for byte by `harness/proto.py` from the real objects.
-/
import DafRel.Model.Sexp
import DafRel.Model.Apply

namespace DafRel

open Sexp

/-! ### Printing -/

def insertSortedStr (x : String) : List String → List String
  | [] => [x]
  | y :: ys => if x < y then x :: y :: ys else if x == y then y :: ys else y :: insertSortedStr x ys

/-- Canonical form of a Python set of tags: sorted, duplicate-free, `[a,b,c]`. -/
def showCols (c : Cols) : String :=
  "[" ++ ",".intercalate (c.foldl (fun acc t => insertSortedStr t.name acc) []) ++ "]"

def showOptNat : Option Nat → String
  | none => "-"
  | some n => toString n

def showBool (b : Bool) : String := if b then "T" else "F"

def showSup : Option EngineKind → String
  | none => "*"
  | some .iter => "iter"
  | some .sql => "sql"

def Fn.show : Fn → String
  | .neg => "neg" | .add => "add" | .sub => "sub" | .mul => "mul"
  | .other n => "o:" ++ n

def PFn.show : PFn → String
  | .eq => "eq" | .ne => "ne" | .lt => "lt" | .le => "le" | .gt => "gt" | .ge => "ge"
  | .other n => "o:" ++ n

mutual
def Expr.show : Expr → String
  | .lit v => s!"(lit {v})"
  | .ref t => s!"(ref {t.name})"
  | .fn f args sup => s!"(fn {f.show} {showSup sup}{Expr.showList args})"
def Expr.showList : List Expr → String
  | [] => ""
  | e :: es => " " ++ Expr.show e ++ Expr.showList es
end

def Container.show : Container → String
  | .range a b c => s!"(range {a} {b} {c})"
  | .seq items => s!"(seq{Expr.showList items})"

mutual
def Pred.show : Pred → String
  | .lit b => s!"(plit {showBool b})"
  | .ref t => s!"(pref {t.name})"
  | .fn f args sup => s!"(pfn {f.show} {showSup sup}{Expr.showList args})"
  | .not p => s!"(not {Pred.show p})"
  | .and ps => s!"(and{Pred.showList ps})"
  | .or ps => s!"(or{Pred.showList ps})"
  | .inC item c => s!"(in {item.show} {c.show})"
def Pred.showList : List Pred → String
  | [] => ""
  | p :: ps => " " ++ Pred.show p ++ Pred.showList ps
end

def SortTerm.show (t : SortTerm) : String := s!"(term {t.expr.show} {if t.asc then "asc" else "desc"})"

def showTerms (ts : List SortTerm) : String := " ".intercalate (ts.map SortTerm.show)

def UOp.show : UOp → String
  | .calc tag e => s!"(calc {tag.name} {e.show})"
  | .dedup => "(dedup)"
  | .identity => "(identity)"
  | .proj c => s!"(proj {showCols c})"
  | .sel p => s!"(sel {p.show})"
  | .slice s e => s!"(slice {s} {showOptNat e})"
  | .sort ts => s!"(sort {showTerms ts})"

def JoinOp.show (j : JoinOp) : String :=
  s!"(join {j.pred.show} {showCols j.minCols} {match j.maxCols with | none => "-" | some m => showCols m})"

def BOp.show : BOp → String
  | .chain => "(chain)"
  | .join j => j.show
  | .ignoreOne il => s!"(ignore {showBool il})"

/-- Canonical tree form.  `ser` maps the allocation id of a materialization or transfer to its
printed serial number (identity of locked / payload-holding nodes); `pay` tells whether a marker
currently holds a payload. -/
def Rel.show (pay : Nat → Bool) : Rel → String
  | .leaf _ e _ name _ _ _ _ => s!"(leaf {name} e{e.id})"
  | .unary op t c => s!"(u {op.show} {showCols c} {Rel.show pay t})"
  | .binary op l r c => s!"(b {op.show} {showCols c} {Rel.show pay l} {Rel.show pay r})"
  | .mat oid name t => s!"(mat #{oid}{if pay oid then "+" else ""} {name} {Rel.show pay t})"
  | .transfer oid d t => s!"(xfer #{oid}{if pay oid then "+" else ""} e{d.id} {Rel.show pay t})"
  | .select oid s p d a b k c t =>
    s!"(select{if pay oid then "+" else ""} (sort {showTerms s}) {match p with | none => "-" | some c => showCols c} {showBool d} {a} {showOptNat b} {showBool c} {Rel.show pay k} {Rel.show pay t})"

/-- The metadata line printed with every relation. -/
def Rel.showMeta (r : Rel) : String :=
  s!"cols={showCols r.columns} min={r.minRows} max={showOptNat r.maxRows} eng=e{r.engine.id} ji={showBool r.isJoinIdentity} triv={showBool r.isTrivial}"

def showRow (univ : Cols) (r : Row) : String :=
  let items := univ.filterMap (fun t => (r t).map (fun v => s!"{t.name}={v}"))
  "{" ++ ",".intercalate (items.foldl (fun acc s => insertSortedStr s acc) []) ++ "}"

def showRows (univ : Cols) (rs : List Row) : String :=
  "[" ++ ";".intercalate (rs.map (showRow univ)) ++ "]"

/-! ### Decoding -/

structure Env where
  tags : List Tag := []
deriving Inhabited

def Env.tag? (env : Env) (n : String) : Option Tag := env.tags.find? (·.name == n)

def decSup : String → Option (Option EngineKind)
  | "*" => some none
  | "iter" => some (some .iter)
  | "sql" => some (some .sql)
  | _ => none

def decFn (s : String) : Fn :=
  match s with
  | "neg" => .neg | "add" => .add | "sub" => .sub | "mul" => .mul
  | _ => .other (s.drop 2).toString

def decPFn (s : String) : PFn :=
  match s with
  | "eq" => .eq | "ne" => .ne | "lt" => .lt | "le" => .le | "gt" => .gt | "ge" => .ge
  | _ => .other (s.drop 2).toString

def decBool : String → Option Bool
  | "T" => some true
  | "F" => some false
  | _ => none

def decOptInt : String → Option (Option Int)
  | "-" => some none
  | s => s.toInt?.map some

def decOptNat : String → Option (Option Nat)
  | "-" => some none
  | s => s.toNat?.map some

mutual
partial def decExpr (env : Env) : Sexp → Option Expr
  | list [atom "lit", atom v] => v.toInt?.map Expr.lit
  | list [atom "ref", atom t] => (env.tag? t).map Expr.ref
  | list (atom "fn" :: atom f :: atom sup :: args) => do
    let s ← decSup sup
    let as ← decExprs env args
    pure (.fn (decFn f) as s)
  | _ => none
partial def decExprs (env : Env) : List Sexp → Option (List Expr)
  | [] => some []
  | x :: xs => do
    let e ← decExpr env x
    let es ← decExprs env xs
    pure (e :: es)
end

def decContainer (env : Env) : Sexp → Option Container
  | list [atom "range", atom a, atom b, atom c] => do
    pure (.range (← a.toInt?) (← b.toInt?) (← c.toInt?))
  | list (atom "seq" :: items) => (decExprs env items).map Container.seq
  | _ => none

mutual
partial def decPred (env : Env) : Sexp → Option Pred
  | list [atom "plit", atom b] => (decBool b).map Pred.lit
  | list [atom "pref", atom t] => (env.tag? t).map Pred.ref
  | list (atom "pfn" :: atom f :: atom sup :: args) => do
    let s ← decSup sup
    let as ← decExprs env args
    pure (.fn (decPFn f) as s)
  | list [atom "not", p] => (decPred env p).map Pred.not
  | list (atom "and" :: ps) => (decPreds env ps).map Pred.and
  | list (atom "or" :: ps) => (decPreds env ps).map Pred.or
  | list [atom "in", item, c] => do
    pure (.inC (← decExpr env item) (← decContainer env c))
  | _ => none
partial def decPreds (env : Env) : List Sexp → Option (List Pred)
  | [] => some []
  | x :: xs => do
    let p ← decPred env x
    let ps ← decPreds env xs
    pure (p :: ps)
end

def decCols (env : Env) (xs : List Sexp) : Option Cols :=
  xs.mapM (fun x => match x with
    | atom t => env.tag? t
    | _ => none)

def decTerm (env : Env) : Sexp → Option SortTerm
  | list [atom "term", e, atom d] => do
    let e ← decExpr env e
    pure ⟨e, d == "asc"⟩
  | _ => none

/-- A unary operation request as issued by a factory method; construction errors are reported
when the request is executed, so slices keep their raw integers here. -/
inductive OpReq where
  | calc (tag : Tag) (e : Expr)
  | dedup
  | identity
  | proj (c : Cols)
  | sel (p : Pred)
  | slice (start stop step : Option Int)
  | sort (ts : List SortTerm)
deriving Inhabited

def decOpReq (env : Env) : Sexp → Option OpReq
  | list [atom "calc", atom t, e] => do pure (.calc (← env.tag? t) (← decExpr env e))
  | list [atom "dedup"] => some .dedup
  | list [atom "identity"] => some .identity
  | list (atom "proj" :: cs) => (decCols env cs).map OpReq.proj
  | list [atom "sel", p] => (decPred env p).map OpReq.sel
  | list [atom "slice", atom a, atom b, atom c] => do
    pure (.slice (← decOptInt a) (← decOptInt b) (← decOptInt c))
  | list (atom "sort" :: ts) => (ts.mapM (decTerm env)).map OpReq.sort
  | _ => none

/-- Build the operation object (the dataclass constructor call with its `__post_init__`). -/
def OpReq.toUOp : OpReq → Except Err UOp
  | .calc tag e => UOp.mkCalc tag e
  | .dedup => .ok .dedup
  | .identity => .ok .identity
  | .proj c => .ok (.proj c)
  | .sel p => .ok (UOp.mkSel p)
  | .slice a b c =>
    -- raw `Slice(start, stop)` construction as used by the `commute`/`simplify` probes
    match c with
    | some k => if k != 1 then .error .type else UOp.mkSlice (a.getD 0) b
    | none => UOp.mkSlice (a.getD 0) b
  | .sort ts => .ok (.sort ts)

end DafRel
