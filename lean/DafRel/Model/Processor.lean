/-
Layer 7b: model of `_processor.py::Processor` (placeholder; filled in below).
-/
import DafRel.Model.Apply
import DafRel.Model.IterExec
import DafRel.Model.Sql

namespace DafRel

def processTop (_σ : Leaves) (st : ExecState) (sq : SqlState) (_t : Rel) :
    Except Err (Res × ExecState × SqlState × List String) :=
  .ok (.same, st, sq, [])

end DafRel
