/-
Layer 7b: model of `_processor.py::Processor.process`, with the two abstract hooks instantiated
the way the harness's real processor instantiates them: a hook evaluates its source relation in
the source's own engine only (iteration: `execute` + iterate; SQL: compile + run) and wraps the
rows as a payload of the destination engine.
-/
import DafRel.Model.Apply
import DafRel.Model.IterExec
import DafRel.Model.Sql
import DafRel.Model.Codec

namespace DafRel

/-- A payload of either engine family. -/
inductive AnyPayload where
  | iter (it : Iterable)
  | sql (p : SqlPayload)
deriving Inhabited

structure ProcState where
  st : ExecState
  sq : SqlState
  hooks : List String := []
  /-- temporary allocation ids for marker relations created during processing -/
  nextTemp : Nat := 9000000
  /-- every SQL evaluation inside a hook was determinate -/
  det : Bool := true
deriving Inhabited

abbrev ProcM := ExceptT Err (StateM ProcState)

def tempBase : Nat := 9000000

namespace ProcState

def store (s : ProcState) : Store := s.st.store ++ s.sq.payloads.map (fun p => (p.1, p.1))

def payloadOf (s : ProcState) (r : Rel) : Option AnyPayload :=
  match r with
  | .leaf oid _ _ _ _ _ p _ =>
    if !p then none
    else match s.sq.payload oid with
      | some q => some (.sql q)
      | none => some (.iter (.leafRef oid))
  | .unary .. => none
  | .binary .. => none
  | _ =>
    match s.st.payload r.oid with
    | some it => some (.iter it)
    | none => (s.sq.payload r.oid).map AnyPayload.sql

def attach (s : ProcState) (oid : Nat) (p : AnyPayload) : ProcState :=
  match p with
  | .iter it => { s with st := { s.st with payloads := (oid, it) :: s.st.payloads } }
  | .sql q => { s with sq := { s.sq with payloads := (oid, q) :: s.sq.payloads } }

end ProcState

def showPay (s : ProcState) : Nat → Bool := fun oid =>
  (s.st.payload oid).isSome || s.sq.hasPayload oid

/-- `engine.get_join_identity_payload()` / `get_doomed_payload(columns)`. -/
def trivialPayload (e : Engine) (joinIdentity : Bool) (cols : Cols) : ProcM AnyPayload := do
  match e.kind with
  | .iter => return .iter (.mapping [] (if joinIdentity then [Row.empty] else []))
  | .sql =>
    let s ← get
    let idx := s.sq.tables.length
    let name := s!"trivial_{idx}"
    set { s with sq := { s.sq with tables := s.sq.tables ++ [if joinIdentity then [Row.empty] else []] } }
    return .sql { frm := .table name 0 idx, wh := if joinIdentity then [] else [.lit false],
                  avail := if joinIdentity then [] else cols.map (fun t => (t, SqlExpr.col name t)) }

/-- The rows an iteration-engine evaluation returns do not depend on the order in which a database delivered rows:
no positional slice sits above a transfer out of a SQL engine, and no key-based deduplication of rows that are not
key-determined does (it keeps the LAST row of each key). -/
def iterOrderFree (σ : Leaves) : Rel → Bool
  | .leaf .. => true
  | .unary op t cols =>
    iterOrderFree σ t && (match op with
      | .slice _ _ => !(fromSql t)
      | .dedup => !(fromSql t) || rowsKeyDetermined cols (sem σ t)
      | _ => true)
  | .binary _ l r _ => iterOrderFree σ l && iterOrderFree σ r
  | .mat _ _ t => iterOrderFree σ t
  | .transfer _ _ t => iterOrderFree σ t
  | .select _ _ _ _ _ _ _ _ t => iterOrderFree σ t
where
  fromSql : Rel → Bool
    | .leaf .. => false
    | .unary _ t _ => fromSql t
    | .binary _ l r _ => fromSql l || fromSql r
    | .mat _ _ t => fromSql t
    | .transfer _ _ t => t.engine.kind == .sql || fromSql t
    | .select _ _ _ _ _ _ _ _ t => fromSql t

/-- Evaluate a relation in its own engine only (what a hook is allowed to do). -/
def evalSingle (σ : Leaves) (r : Rel) : ProcM (List Row) := do
  let s ← get
  match r.engine.kind with
  | .iter =>
    match exec σ r.engine r { s.st with log := [] } with
    | .error e => throw e
    | .ok (it, st') =>
      match it.rows σ with
      | .error e => throw e
      | .ok rows =>
        -- rows cut or deduplicated in an order the database chose are not determinate (model-only flag)
        set { s with st := { st' with log := [] }, det := s.det && iterOrderFree σ r }
        return rows
  | .sql =>
    match conform s.store defaultFuel r with
    | .error e => throw e
    | .ok c =>
      match compileSelect s.sq defaultFuel (c.get r) 0 with
      | .error e => throw e
      | .ok (q, _) =>
        if q.hasDup then throw .unspecified
        else if !q.accepts then throw .sqlError            -- the database would reject the query
        else
          let out := Query.eval s.sq.tables q
          set { s with det := s.det && out.det }
          return out.rows

/-- Wrap rows as a payload of the engine `e` (a row sequence, or a new table). -/
def wrapRows (e : Engine) (cols : Cols) (rows : List Row) (tag : String) : ProcM AnyPayload := do
  match e.kind with
  | .iter => return .iter (.seq rows)
  | .sql =>
    let s ← get
    let idx := s.sq.tables.length
    let name := s!"{tag}{idx}"
    set { s with sq := { s.sq with tables := s.sq.tables ++ [rows] } }
    return .sql (tablePayload name 0 idx cols)

def hookTransfer (σ : Leaves) (source : Rel) (dest : Engine) (matAs : Option String) : ProcM AnyPayload := do
  modify (fun s => { s with hooks := s.hooks ++
    [s!"<transfer {source.show (showPay s)} e{dest.id} {matAs.getD "-"} triv={showBool source.isTrivial}>"] })
  let rows ← evalSingle σ source
  wrapRows dest source.columns rows "xfer"

def hookMaterialize (σ : Leaves) (target : Rel) (name : String) : ProcM AnyPayload := do
  modify (fun s => { s with hooks := s.hooks ++ [s!"<materialize {target.show (showPay s)} {name} triv={showBool target.isTrivial}>"] })
  let rows ← evalSingle σ target
  wrapRows target.engine target.columns rows "mat"

def freshTemp : ProcM Nat := do
  let s ← get
  set { s with nextTemp := s.nextTemp + 1 }
  return s.nextTemp

/-- Give the root a temporary id if a pure model function just created it (oid = 0). -/
def tempRoot (r : Rel) : ProcM Rel := do
  match r with
  | .mat 0 n t => return .mat (← freshTemp) n t
  | .transfer 0 d t => return .transfer (← freshTemp) d t
  | .select 0 a b c d e f g h => return .select (← freshTemp) a b c d e f g h
  | _ => return r

/-- Give the (unique) freshly created `Materialization` named `name` the allocation id `id`,
wherever the value occurs in the result (a `Select` holds its skip target twice). -/
def setMatOid (name : String) (id : Nat) : Rel → Rel
  | .leaf a b c d e f g h => .leaf a b c d e f g h
  | .unary op t c => .unary op (setMatOid name id t) c
  | .binary op l r c => .binary op (setMatOid name id l) (setMatOid name id r) c
  | .mat oid n t => if oid == 0 && n == name then .mat id n t else .mat oid n (setMatOid name id t)
  | .transfer oid d t => .transfer oid d (setMatOid name id t)
  | .select oid a b c d e k g t => .select oid a b c d e (setMatOid name id k) g (setMatOid name id t)

/-- `Select.reapply(target)`. -/
def reapplySelect (target : Res) (_orig : Rel) : ProcM Res := do
  match target with
  | .same => return .same
  | .new t =>
    let s ← get
    match conformIn s.store defaultFuel t.engine.kind t with
    | .error e => throw e
    | .ok c =>
      let r := c.get t
      if r.isSelect then return .new r else throw .assertion

/-- `while payload_holder.payload is None and isinstance(payload_holder, MarkerRelation): ...` -/
def payloadThrough (s : ProcState) : Rel → Option AnyPayload
  | .mat oid n t =>
    match s.payloadOf (.mat oid n t) with
    | some p => some p
    | none => payloadThrough s t
  | .transfer oid d t =>
    match s.payloadOf (.transfer oid d t) with
    | some p => some p
    | none => payloadThrough s t
  | .select oid a b c d e f g t =>
    match s.payloadOf (.select oid a b c d e f g t) with
    | some p => some p
    | none => payloadThrough s t
  | r => s.payloadOf r

/-- `while inner.payload is None and isinstance(inner, MarkerRelation) and not isinstance(inner, Materialization)` -/
def lookThrough (s : ProcState) : Rel → Rel
  | .transfer oid d t =>
    if (s.payloadOf (.transfer oid d t)).isSome then .transfer oid d t else lookThrough s t
  | .select oid a b c d e f g t =>
    if (s.payloadOf (.select oid a b c d e f g t)).isSome then .select oid a b c d e f g t else lookThrough s t
  | r => r

/-- The `Materialization` found by looking through non-materialization marker wrappers
(`attach_payload` on anything else raises `TypeError`). -/
def newMatOid : Rel → Option Nat
  | .mat oid _ _ => some oid
  | .transfer _ _ t => newMatOid t
  | .select _ _ _ _ _ _ _ _ t => newMatOid t
  | _ => none

/-- The payload of a Materialization being processed: the processed target's own one when that was materialized on
the way (looked up through payload-less wrappers; may still be `None`), the engine's trivial payload for a statically
trivial relation, otherwise whatever the `materialize` hook returns. -/
def matPayload (σ : Leaves) (orig target newTarget : Rel) (name : String) (persisted : Bool) :
    ProcM (Option AnyPayload) := do
  if persisted then pure (payloadThrough (← get) newTarget)
  else if orig.isJoinIdentity then do pure (some (← trivialPayload target.engine true orig.columns))
  else if orig.maxRows == some 0 then do pure (some (← trivialPayload target.engine false orig.columns))
  else do pure (some (← hookMaterialize σ newTarget name))

/-- `Processor._process_recursive(original, materialize_as)`. -/
def processRec (σ : Leaves) : Nat → Rel → Option String → ProcM (Res × Bool)
  | 0, _, _ => throw .fuel
  | fuel+1, orig, matAs => do
    if ((← get).payloadOf orig).isSome then return (.same, true)
    match orig with
    | .transfer _ dest target =>
      let (newTarget, payload) ←
        if orig.isJoinIdentity then do
          pure (Res.same, ← trivialPayload dest true orig.columns)
        else if orig.maxRows == some 0 then do
          pure (Res.same, ← trivialPayload dest false orig.columns)
        else do
          let (nt, _) ← processRec σ fuel target none
          let p ← hookTransfer σ (nt.get target) dest matAs
          pure (nt, p)
      let oid ← freshTemp
      modify (fun s => s.attach oid payload)
      return (.new (.transfer oid dest (newTarget.get target)), matAs.isSome)
    | .mat oid name target =>
      let (nt, persisted) ← processRec σ fuel target (some name)
      let newTarget := nt.get target
      let result : Res ←
        match nt with
        | .same => pure Res.same
        | .new _ => do
          match materialize (← get).store defaultFuel newTarget name with
          | .error e => throw e
          | .ok r =>
            let f ← freshTemp
            -- only a freshly created Materialization (`r` is new) has to be given its allocation id
            let res ← tempRoot (match r with
              | .same => newTarget
              | .new y => setMatOid name f y)
            pure (Res.new res)
      -- look through engine-specific wrappers for the relation that holds / should receive the payload
      let sNow ← get
      let inner : Option Rel := match result with
        | .new res => some (lookThrough sNow res)
        | .same => none
      if let (.new res, some i) := (result, inner) then
        if let some p := (← get).payloadOf i then
          -- simplified away (perhaps a materialization of a leaf now)
          modify (fun s => s.attach oid p)
          return (.new res, true)
      -- `payload = new_target.payload` looked up through wrappers; may still be `None`
      let payload : Option AnyPayload ← matPayload σ orig target newTarget name persisted
      if let some p := payload then
        modify (fun s => s.attach oid p)
      match result, inner with
      | .new res, some (.mat o _ _) =>
        if let some p := payload then
          modify (fun s => s.attach o p)
        return (.new res, true)
      | .new res, _ => return (.new res, true)
      | .same, _ => return (.same, true)
    | .select .. =>
      let target := match orig with
        | .select _ _ _ _ _ _ _ _ t => t
        | r => r
      let (nt, persisted) ← processRec σ fuel target matAs
      let r ← reapplySelect nt orig
      return (r, persisted)
    | .unary op target _ =>
      let (nt, _) ← processRec σ fuel target none
      match nt with
      | .same => return (.same, false)
      | .new t' =>
        match applyOp (← get).store defaultFuel (.u op) t' {} with
        | .error e => throw e
        | .ok r => return (.new (r.get t'), false)
    | .binary op l r _ =>
      let (nl, lp) ← processRec σ fuel l none
      let (nr, rp) ← processRec σ fuel r none
      let l' := nl.get l
      let r' := nr.get r
      let isChain := match op with
        | .chain => true
        | _ => false
      if isChain && l'.maxRows == some 0 then return (.new r', rp)
      else if isChain && r'.maxRows == some 0 then return (.new l', lp)
      else
        match nl, nr with
        | .same, .same => return (.same, false)
        | _, _ =>
          match binaryApply (← get).store defaultFuel op l' r' with
          | .error e => throw e
          | .ok b => return (.new (b.get l' r'), false)
    | .leaf .. => throw .assertion        -- a leaf without payload: the match is not exhaustive

/-- `Processor.process(relation)`; the state is returned also when processing raises (payloads
attached before the exception stay attached). -/
def processTop (σ : Leaves) (st : ExecState) (sq : SqlState) (t : Rel) :
    Except Err Res × ProcState :=
  let (r, s) := (processRec σ defaultFuel t none).run.run { st := st, sq := sq }
  (r.map (·.1), s)

end DafRel
