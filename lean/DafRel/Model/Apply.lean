/-
Layer 4 of the model: the factory protocol.

Mirrors
  * `UnaryOperation.apply`, `_begin_apply`, `_finish_apply` (all operation classes),
  * `BinaryOperation.apply`, `Join/Chain._begin_apply/_finish_apply`, `IgnoreOne`,
  * `Engine.append_unary/append_binary/transfer/materialize/conform` of the base engine,
    of `iteration.Engine` (incl. `backtrack_unary`) and of `sql.Engine`
    (incl. `_append_unary_to_select`, `_append_binary_to_select`),
  * `Transfer.simplify`, `Materialization.simplify`, `MarkerRelation.reapply`,
  * `Select.apply_skip/reapply_skip/strip/reapply`.

All mutually recursive entry points take a `fuel` argument (the Python code recurses over
tree structure that is produced on the fly by `conform`); `Err.fuel` is never expected and
would show up as a correspondence failure.
-/
import DafRel.Model.Rel

namespace DafRel

/-- Result of a tree-building call relative to its designated target argument:
`same` = the target object itself was returned (`result is target`). -/
inductive Res where
  | same
  | new (r : Rel)
deriving Repr, Inhabited

def Res.get (x : Res) (orig : Rel) : Rel :=
  match x with
  | .same => orig
  | .new r => r

def Res.isSame : Res → Bool
  | .same => true
  | .new _ => false

/-- Options of `UnaryOperation.apply`. -/
structure Opts where
  pref : Option Engine := none
  backtrack : Bool := true
  transfer : Bool := false
  require : Bool := false
deriving Repr, Inhabited

namespace UOp

/-- The early `return target` tests at the top of the overridden `_finish_apply` methods. -/
def noopOn (op : UOp) (tcols : Cols) : Bool :=
  match op with
  | .identity => true
  | .slice s e => s == 0 && e.isNone
  | .sort ts => ts.isEmpty
  | .sel p => p.asTrivial == some true
  | .proj c => c.seteq tcols
  | _ => false

/-- The final construction step of the default `_finish_apply`. -/
def construct (op : UOp) (t : Rel) : Except Err Res :=
  if !(op.isSupportedBy t.engine.kind) then .error .engine
  else .ok (.new (.unary op t (op.appliedColumns t.columns)))

/-- `UnaryOperation._finish_apply(target)` for every `UOp`. -/
def finishApply : UOp → Rel → Except Err Res
  | op, .unary up t' c =>
    if op.noopOn c then .ok .same else
    match op.simplify up with
    | .error e => .error e
    | .ok .keepUpstream => .ok .same
    | .ok (.replace s) =>
      match finishApply s t' with
      | .error e => .error e
      | .ok r => .ok (.new (r.get t'))
    | .ok .no => construct op (.unary up t' c)
  | op, t =>
    if op.noopOn t.columns then .ok .same else construct op t

/-- `UOp._begin_apply(target, preferred_engine)`. -/
def beginApply (op : UOp) (t : Rel) (pref : Option Engine) : Except Err (UOp × Engine) :=
  let dflt : Engine := pref.getD t.engine
  match op with
  | .slice s e => if s == 0 && e.isNone then .ok (.identity, t.engine) else .ok (op, dflt)
  | .sort ts =>
    if ts.isEmpty then .ok (.identity, t.engine)
    else if ts.all (fun tm => tm.expr.columnsRequired.subset t.columns) then .ok (op, dflt)
    else .error .column
  | .sel p =>
    if p.asTrivial == some true then .ok (.identity, t.engine)
    else if !(p.columnsRequired.subset t.columns) then .error .column
    else .ok (op, dflt)
  | .proj c =>
    if c.seteq t.columns then .ok (.identity, t.engine)
    else if !(c.subset t.columns) then .error .column
    else .ok (op, dflt)
  | .calc tag e =>
    if !(e.columnsRequired.subset t.columns) then .error .column
    else if tag ∈ t.columns then .error .column
    else .ok (op, dflt)
  | _ => .ok (op, dflt)

end UOp

/-- `PartialJoin._begin_apply`. -/
def PJoin.beginApply (p : PJoin) (t : Rel) (pref : Option Engine) : Except Err (PJoin × Engine) :=
  let resolve : Except Err PJoin :=
    if !p.join.resolved then
      match p.join.appliedCommonColumns p.fixed.columns t.columns with
      | .error e => .error e
      | .ok common => .ok { p with join := { p.join with minCols := common, maxCols := some common } }
    else .ok p
  match resolve with
  | .error e => .error e
  | .ok p' =>
    let pref' := pref.getD p'.fixed.engine
    if !(p'.columnsRequired.subset t.columns) then .error .column
    else .ok (p', pref')

def AnyOp.beginApply (op : AnyOp) (t : Rel) (pref : Option Engine) : Except Err (AnyOp × Engine) :=
  match op with
  | .u o => (o.beginApply t pref).map (fun (o', e) => (.u o', e))
  | .pj p => (p.beginApply t pref).map (fun (p', e) => (.pj p', e))

/-! ### Marker simplification -/

/-- `Transfer.simplify(target, destination)`: `none` = Python `None`. -/
def transferSimplify (dest : Engine) : Rel → Option Rel
  | .transfer _ _ t => if dest == t.engine then some t else transferSimplify dest t
  | .select _ _ _ _ _ _ _ _ t => transferSimplify dest t
  | _ => none       -- leaf / materialization are locked; operation nodes do not match

/-- `Materialization.simplify(target)`. -/
def matSimplify : Rel → Bool
  | .mat .. => true
  | .leaf .. => true
  | .transfer _ d t => if d == t.engine then matSimplify t else false
  | .select _ _ _ _ _ _ _ _ t => matSimplify t    -- engine of a Select is its target's
  | _ => false

/-! ### `Select` helpers -/

structure Slots where
  sort : List SortTerm := []
  proj : Option Cols := none
  dedup : Bool := false
  sliceStart : Nat := 0
  sliceStop : Option Nat := none
deriving Repr, Inhabited

def Rel.slots : Rel → Slots
  | .select _ s p d a b _ _ _ => ⟨s, p, d, a, b⟩
  | _ => {}

def Rel.skipTo : Rel → Rel
  | .select _ _ _ _ _ _ k _ _ => k
  | r => r

def Rel.isCompound : Rel → Bool
  | .select _ _ _ _ _ _ _ c _ => c
  | _ => false

def Slots.hasSort (s : Slots) : Bool := !s.sort.isEmpty
def Slots.hasProj (s : Slots) : Bool := s.proj.isSome
def Slots.hasSlice (s : Slots) : Bool := s.sliceStart != 0 || s.sliceStop.isSome

def isChain : Rel → Bool
  | .binary .chain _ _ _ => true
  | _ => false

/-- The shape `_select_to_executable` / `to_payload` can compile without an unsupported-node error: below a
Select, the skip target is a payload holder, a Calculation or Selection over such a tree, a join of such trees,
another Select, or - only directly as a skip target (`asSkip`) - a chain of two Selects. -/
def Rel.compOK : Bool → Rel → Bool
  | _, .leaf .. => true
  | _, .mat .. => true
  | _, .transfer .. => true
  | _, .unary (.calc _ _) t _ => Rel.compOK false t
  | _, .unary (.sel _) t _ => Rel.compOK false t
  | _, .unary _ _ _ => false
  | _, .binary (.join _) l r _ => Rel.compOK false l && Rel.compOK false r
  | true, .binary .chain l r _ => l.isSelect && r.isSelect && Rel.compOK false l && Rel.compOK false r
  | false, .binary .chain _ _ _ => false
  | _, .binary (.ignoreOne _) _ _ _ => false
  | _, .select _ _ _ _ _ _ skipTo _ _ => Rel.compOK true skipTo

/-- The operations `_append_unary_to_select` applies BELOW the recorded slots (to the skip target). -/
def UOp.belowSlots : UOp → Bool
  | .calc _ _ => true
  | .sel _ => true
  | _ => false

/-- `Select.apply_skip(skip_to, sort, projection, deduplication, slice)`. -/
def applySkip (skipTo : Rel) (sl : Slots) : Except Err Rel := do
  let mut target := skipTo
  if !sl.sort.isEmpty then
    target := (← (UOp.sort sl.sort).finishApply target).get target
  if let some c := sl.proj then
    target := (← (UOp.proj c).finishApply target).get target
  if sl.dedup then
    target := (← UOp.dedup.finishApply target).get target
  if sl.sliceStart != 0 || sl.sliceStop.isSome then
    target := (← (UOp.slice sl.sliceStart sl.sliceStop).finishApply target).get target
  return .select 0 sl.sort sl.proj sl.dedup sl.sliceStart sl.sliceStop skipTo (isChain skipTo) target

/-- `Select.reapply_skip(skip_to=None, after=..., **kwargs)`; `kw = some slots` when keyword
overrides were passed (the slots are then the effective ones), `none` otherwise. -/
def reapplySkip (sel : Rel) (newSkip : Option Rel) (after : Option UOp) (kw : Option Slots) :
    Except Err Res := do
  let base : Res := match newSkip with
    | some k => .new k
    | none => .same
  let skip : Res ← match after with
    | none => pure base
    | some op =>
      match ← op.finishApply (base.get sel.skipTo) with
      | .same => pure base
      | .new k => pure (.new k)
  match kw, skip with
  | none, .same => return .same
  | _, _ => return .new (← applySkip (skip.get sel.skipTo) (kw.getD sel.slots))

/-- `sql.Engine._nest_unary_over_select(operation, select)`: the operation applied in a new outer query
level; a Sort without a Slice moves to the outer level when its columns are still available. -/
def nestOverSelect (op : UOp) (sel : Rel) : Except Err Res := do
  let s := sel.slots
  if s.hasSort && !s.hasSlice && (UOp.sortCols s.sort).subset sel.columns then
    let sub ← reapplySkip sel none none (some { s with sort := [] })
    let inner ← op.finishApply (sub.get sel)
    return .new (← applySkip (inner.get (sub.get sel)) { sort := s.sort })
  else
    let inner ← op.finishApply sel
    return .new (← applySkip (inner.get sel) {})

/-- `Select.strip()`. -/
def strip (sel : Rel) : Rel × Bool :=
  let s := sel.slots
  if !s.dedup && !s.hasSort && !s.hasSlice && !sel.isCompound then (sel.skipTo, s.hasProj) else (sel, false)

/-- `MarkerRelation.reapply(target, payload=None)` for transfers. -/
def reapplyTransfer (st : Store) (oid : Nat) (dest : Engine) (newTarget : Res) (orig : Rel) : Res :=
  match newTarget with
  | .same => if (st.get oid).isNone then .same else .new (.transfer 0 dest orig)
  | .new t => .new (.transfer 0 dest t)

/-- Two model values denote the same Python object (decidable only for nodes with an allocation id). -/
def sameObj (a b : Rel) : Bool := a.oid != 0 && a.oid == b.oid

/-- Which argument a binary application handed back. -/
inductive BRes where
  | lhs
  | rhs
  | new (r : Rel)
deriving Repr, Inhabited

def BRes.get (x : BRes) (l r : Rel) : Rel :=
  match x with
  | .lhs => l
  | .rhs => r
  | .new t => t

/-- `Join._begin_apply(lhs, rhs)`. -/
def joinBeginApply (j : JoinOp) (lhs rhs : Rel) : Except Err BOp := do
  if !(j.pred.columnsRequired.subset (lhs.columns.union rhs.columns)) then throw .column
  let op ←
    if !j.resolved then do
      let common ← j.appliedCommonColumns lhs.columns rhs.columns
      pure { j with minCols := common, maxCols := some common }
    else do
      let common ← j.commonColumns
      if !(common.subset lhs.columns) then throw .column
      if !(common.subset rhs.columns) then throw .column
      pure j
  if j.pred.asTrivial == some true then
    if lhs.engine != rhs.engine && (lhs.isJoinIdentity || rhs.isJoinIdentity) then throw .engine
    if lhs.isJoinIdentity then return .ignoreOne true
    if rhs.isJoinIdentity then return .ignoreOne false
  return .join op

/-- `Chain._begin_apply(lhs, rhs)`. -/
def chainBeginApply (lhs rhs : Rel) : Except Err BOp :=
  if lhs.engine != rhs.engine then .error .engine
  else if !(lhs.columns.seteq rhs.columns) then .error .column
  else .ok .chain

/-- `BinaryOperation._finish_apply(lhs, rhs)` (base/iteration `append_binary`). -/
def binaryFinishApply (op : BOp) (lhs rhs : Rel) : Except Err BRes :=
  match op with
  | .ignoreOne il => .ok (if il then .rhs else .lhs)
  | .chain => .ok (.new (.binary .chain lhs rhs lhs.columns))
  | .join j =>
    if j.pred.asTrivial == some true && lhs.isJoinIdentity then .ok .rhs
    else if j.pred.asTrivial == some true && rhs.isJoinIdentity then .ok .lhs
    else if lhs.engine != rhs.engine then .error .engine
    else if !(j.pred.isSupportedBy lhs.engine.kind) then .error .engine
    else .ok (.new (.binary (.join j) lhs rhs (lhs.columns.union rhs.columns)))

mutual

/-- `sql.Engine.conform(relation)`. -/
def conform (st : Store) : Nat → Rel → Except Err Res
  | 0, _ => .error .fuel
  | fuel+1, r =>
    match r with
    | .select .. => .ok .same
    | .unary op t _ => do
      let ct ← conform st fuel t
      let sel := ct.get t
      let res ← appendUnarySel st fuel (.u op) sel
      return .new (res.get sel)
    | .binary op l rr _ => do
      let cl ← conform st fuel l
      let cr ← conform st fuel rr
      let res ← appendBinarySel st fuel op (cl.get l) (cr.get rr)
      return .new (res.get (cl.get l) (cr.get rr))
    | .transfer .. | .mat .. | .leaf .. => do
      return .new (← applySkip r {})

/-- `engine.conform(relation)` for any engine kind (identity outside the SQL engine). -/
def conformIn (st : Store) (fuel : Nat) (k : EngineKind) (r : Rel) : Except Err Res :=
  match fuel with
  | 0 => .error .fuel
  | fuel+1 =>
    match k with
    | .sql => conform st fuel r
    | .iter => .ok .same

/-- `sql.Engine._append_unary_to_select(operation, select)`. -/
def appendUnarySel (st : Store) : Nat → AnyOp → Rel → Except Err Res
  | 0, _, _ => .error .fuel
  | fuel+1, op, sel =>
    let s := sel.slots
    match op with
    | .u (.calc tag e) =>
      if sel.isCompound || decide (tag ∈ sel.skipTo.columns) then
        nestOverSelect (.calc tag e) sel
      else if s.hasProj then
        reapplySkip sel none (some (.calc tag e)) (some { s with proj := some (sel.columns.insert tag) })
      else
        reapplySkip sel none (some (.calc tag e)) none
    | .u .dedup =>
      if !s.dedup then
        if s.hasSlice then do
          return .new (← applySkip sel { dedup := true })
        else
          reapplySkip sel none none (some { s with dedup := true })
      else .ok .same
    | .u (.proj c) =>
      if s.dedup then do
        if !((UOp.sortCols s.sort).subset sel.columns) then
          -- the Sort uses a column an earlier Projection already dropped
          if s.hasSlice then
            return .new (← applySkip sel { proj := some c })
          else throw .relAlg
        let sub ← reapplySkip sel none none (some { s with sort := [], sliceStart := 0, sliceStop := none })
        return .new (← applySkip (sub.get sel)
          { sort := s.sort, proj := some c, sliceStart := s.sliceStart, sliceStop := s.sliceStop })
      else
        match sel.skipTo with
        | .binary .chain l r _ =>
          if !((UOp.sortCols s.sort).subset c) then do
            -- the Sort needs a column this Projection drops: nest the UNION
            let sub ← reapplySkip sel none none (some { s with sort := [], sliceStart := 0, sliceStop := none })
            return .new (← applySkip (sub.get sel)
              { sort := s.sort, proj := some c, sliceStart := s.sliceStart, sliceStop := s.sliceStop })
          else do
          let nl ← applyOp st fuel (.u (.proj c)) l {}
          let nr ← applyOp st fuel (.u (.proj c)) r {}
          let nl := nl.get l
          let nr := nr.get r
          let newSkip := Rel.binary .chain nl nr nl.columns
          reapplySkip sel (some newSkip) none (some { s with proj := none })
        | _ => reapplySkip sel none none (some { s with proj := some c })
    | .u (.sel p) =>
      if s.hasSlice || sel.isCompound then
        nestOverSelect (.sel p) sel
      else
        reapplySkip sel none (some (.sel p)) none
    | .u (.slice a b) => do
      match UOp.sliceThen s.sliceStart s.sliceStop a b with
      | .error e => throw e
      | .ok (.slice a' b') => reapplySkip sel none none (some { s with sliceStart := a', sliceStop := b' })
      | .ok _ => throw .assertion
    | .u (.sort ts) =>
      if s.hasSlice then do
        return .new (← applySkip sel { sort := ts })
      else
        let newSort := UOp.sortThen s.sort ts
        let plain := newSort.all (fun t => match t.expr with
          | .ref _ => true
          | _ => false)
        if sel.isCompound && !plain then do
          -- ORDER BY terms of a UNION must be plain columns: sort a subquery wrapping the UNION
          let sub ← reapplySkip sel none none (some { s with sort := [] })
          return .new (← applySkip (sub.get sel) { sort := newSort })
        else
          reapplySkip sel none none (some { s with sort := newSort })
    | .pj p => do
      let res ← if p.fixedIsLhs then appendBinarySql st fuel (.join p.join) p.fixed sel
                else appendBinarySql st fuel (.join p.join) sel p.fixed
      -- the result is `select` itself only via `IgnoreOne`
      match res, p.fixedIsLhs with
      | .rhs, true => return .same
      | .lhs, false => return .same
      | x, _ => return .new (x.get (if p.fixedIsLhs then p.fixed else sel) (if p.fixedIsLhs then sel else p.fixed))
    | .u .identity => .ok .same

/-- `sql.Engine.append_binary(operation, lhs, rhs)`; result relative to the *given* operands. -/
def appendBinarySql (st : Store) : Nat → BOp → Rel → Rel → Except Err BRes
  | 0, _, _, _ => .error .fuel
  | fuel+1, op, l, r => do
    -- `if lhs.engine != self or rhs.engine != self: raise EngineError` (self is a SQL engine:
    -- the dispatch is on an operand of this engine, so both must have that same engine)
    if l.engine != r.engine || l.engine.kind != .sql then throw .engine
    let cl ← conform st fuel l
    let cr ← conform st fuel r
    let res ← appendBinarySel st fuel op (cl.get l) (cr.get r)
    match res, cl, cr with
    | .lhs, .same, _ => return .lhs
    | .rhs, _, .same => return .rhs
    | x, _, _ => return .new (x.get (cl.get l) (cr.get r))

/-- `sql.Engine._append_binary_to_select(operation, lhs, rhs)`. -/
def appendBinarySel (_st : Store) : Nat → BOp → Rel → Rel → Except Err BRes
  | 0, _, _, _ => .error .fuel
  | _fuel+1, op, l, r =>
    let ls := l.slots
    let rs := r.slots
    if ls.hasSort && !ls.hasSlice then .error .relAlg
    else if rs.hasSort && !rs.hasSlice then .error .relAlg
    else
      match op with
      | .chain => do
        let l' ← if ls.hasSlice then applySkip l {} else pure l
        let r' ← if rs.hasSlice then applySkip r {} else pure r
        return .new (← applySkip (.binary .chain l' r' l'.columns) {})
      | .join j => do
        let (nl0, lp0) := strip l
        let (nr0, rp0) := strip r
        -- hidden columns of a stripped operand must not shadow the other operand's columns
        let (nl, lp) := if lp0 && !((nl0.columns.diff l.columns).inter r.columns).isEmpty then (l, false) else (nl0, lp0)
        let (nr, rp) := if rp0 && !((nr0.columns.diff r.columns).inter l.columns).isEmpty then (r, false) else (nr0, rp0)
        let proj : Option Cols := if lp || rp then some (l.columns.union r.columns) else none
        let joined ← binaryFinishApply (.join j) nl nr
        return .new (← applySkip (joined.get nl nr) { proj := proj })
      | .ignoreOne il => .ok (if il then .rhs else .lhs)

/-- `engine.append_unary(operation, target)` dispatched on the engine kind. -/
def appendUnary (st : Store) : Nat → AnyOp → Rel → Except Err Res
  | 0, _, _ => .error .fuel
  | fuel+1, op, t =>
    match t.engine.kind with
    | .iter =>
      match op with
      | .u o => o.finishApply t
      | .pj p => pjFinishApply st fuel p t
    | .sql => do
      let ct ← conform st fuel t
      let res ← appendUnarySel st fuel op (ct.get t)
      match res, ct with
      | .same, .same => return .same
      | x, _ => return .new (x.get (ct.get t))

/-- `PartialJoin._finish_apply(target)` = `self.binary.apply(...)`. -/
def pjFinishApply (st : Store) : Nat → PJoin → Rel → Except Err Res
  | 0, _, _ => .error .fuel
  | fuel+1, p, t => do
    let res ← if p.fixedIsLhs then binaryApply st fuel (.join p.join) p.fixed t
              else binaryApply st fuel (.join p.join) t p.fixed
    match res, p.fixedIsLhs with
    | .rhs, true => return .same
    | .lhs, false => return .same
    | .rhs, false => return (if sameObj p.fixed t then .same else .new p.fixed)
    | .lhs, true => return (if sameObj p.fixed t then .same else .new p.fixed)
    | x, _ => return .new (x.get (if p.fixedIsLhs then p.fixed else t) (if p.fixedIsLhs then t else p.fixed))

/-- `BinaryOperation.apply(lhs, rhs)`. -/
def binaryApply (st : Store) : Nat → BOp → Rel → Rel → Except Err BRes
  | 0, _, _, _ => .error .fuel
  | fuel+1, op, l, r => do
    let op' ← match op with
      | .chain => chainBeginApply l r
      | .join j => joinBeginApply j l r
      | .ignoreOne il => pure (.ignoreOne il)
    match l.engine.kind with
    | .iter => binaryFinishApply op' l r
    | .sql => appendBinarySql st fuel op' l r

/-- `Engine.transfer(target)` of the destination engine `dest` (payload `None`). -/
def transferTo (st : Store) : Nat → Engine → Rel → Except Err Res
  | 0, _, _ => .error .fuel
  | fuel+1, dest, t => do
    let base : Res ← (do
      let (t1, r1) : Rel × Res := match transferSimplify dest t with
        | some s => (s, .new s)
        | none => (t, .same)
      if t1.engine == dest then return r1
      let ct ← conformIn st fuel t1.engine.kind t1
      return Res.new (.transfer 0 dest (ct.get t1)))
    match dest.kind with
    | .iter => return base
    | .sql =>
      -- `self.conform(super().transfer(target, payload))`
      let b := base.get t
      match ← conform st fuel b with
      | .same => return base
      | .new c => return .new c

/-- `Engine.transfer(target, payload)` with an explicit payload (base class, i.e. an iteration engine as destination):
`EngineError` when the target - after a there-and-back pair has been simplified away - already lives in the
destination ("Cannot attach payload to transfer that will be simplified away"); otherwise as `transferTo`. -/
def transferWithPayload (st : Store) (fuel : Nat) (dest : Engine) (t : Rel) : Except Err Res :=
  if ((transferSimplify dest t).getD t).engine == dest then .error .engine else transferTo st fuel dest t

/-- `relation.materialized(name)` = `relation.engine.materialize(relation, name)`. -/
def materialize (st : Store) : Nat → Rel → String → Except Err Res
  | 0, _, _ => .error .fuel
  | fuel+1, t, name =>
    match t.engine.kind with
    | .iter => if matSimplify t then .ok .same else .ok (.new (.mat 0 name t))
    | .sql => do
      let ct ← conform st fuel t
      let c := ct.get t
      if c.slots.hasSort && !c.slots.hasSlice then throw .relAlg
      -- `self.conform(super().materialize(conformed_target, name, name_prefix))`
      if matSimplify c then return ct
      else return .new (← applySkip (.mat 0 name c) {})

/-- `Engine.backtrack_unary(operation, tree, preferred)` dispatched on `tree.engine`'s kind. -/
def backtrack (st : Store) : Nat → AnyOp → Rel → Engine → Except Err (Res × Bool)
  | 0, _, _, _ => .error .fuel
  | fuel+1, op, tree, pref =>
    match tree.engine.kind with
    | .sql => .ok (.same, false)       -- base-class implementation: no backtracking
    | .iter =>
      if tree.isLocked then .ok (.same, false) else
      match tree with
      | .unary cur target ccols => do
        let (first, second, cdone) := op.commute cur target.columns ccols
        match first with
        | none => return (.same, cdone)
        | some f =>
          let (up, done) ← backtrack st fuel f target pref
          match up with
          | .same =>
            -- `upstream is target`: keep the tree unless the commutation replaced this operation
            if !done || second == cur then return (.same, done && cdone)
            else
              let res ← second.finishApply target
              return (.new (res.get target), done && cdone)
          | .new u =>
            -- the commuted replacement may rely on a column only `first` would have provided
            let repl := if !done && !(second.columnsRequired.subset u.columns) then cur else second
            let res ← repl.finishApply u
            let r := res.get u
            -- `first` only partly inserted: columns this operation had removed must not leak
            if !done && !(r.columns.subset ccols) then
              let res2 ← (UOp.proj (r.columns.inter ccols)).finishApply r
              return (.new (res2.get r), done && cdone)
            return (.new r, done && cdone)
      | .binary .. => .ok (.same, false)
      | .transfer oid dest target =>
        if target.engine == pref then do
          let r ← applyOp st fuel op target {}
          return (reapplyTransfer st oid dest r target, true)
        else do
          let (up, done) ← backtrack st fuel op target pref
          return (reapplyTransfer st oid dest up target, done)
      | _ => .error .notImpl

/-- `UnaryOperation.apply(target, preferred_engine=…, backtrack=…, transfer=…, require_preferred_engine=…)`. -/
def applyOp (st : Store) : Nat → AnyOp → Rel → Opts → Except Err Res
  | 0, _, _, _ => .error .fuel
  | fuel+1, op, t, o => do
    let (op', pref) ← op.beginApply t o.pref
    let mut done := false
    let mut result : Res := .same
    if pref != t.engine then
      if o.backtrack then
        let (r, d) ← backtrack st fuel op' t pref
        result := r
        done := d
      if !done then
        if o.transfer then
          let cur := result.get t
          match ← transferTo st fuel pref cur with
          | .same => pure ()
          | .new x => result := .new x
        else if o.require then
          throw .engine
    if !done then
      let cur := result.get t
      match ← appendUnary st fuel op' cur with
      | .same => pure ()
      | .new x => result := .new x
    return result

end

/-- Default recursion budget used by the driver and in examples. -/
def defaultFuel : Nat := 100000

/-! ### Public factory methods of `Relation` -/

namespace Rel

def applyU (st : Store) (op : UOp) (t : Rel) (o : Opts := {}) : Except Err Res :=
  applyOp st defaultFuel (.u op) t o

/-- `relation[start:stop:step]` (`BaseRelation.__getitem__`). -/
def getItem (st : Store) (t : Rel) (start stop step : Option Int) : Except Err Res :=
  match step with
  | some k => if k != 1 then .error .type else
    match UOp.mkSlice (start.getD 0) stop with
    | .error e => .error e
    | .ok op => applyOp st defaultFuel (.u op) t {}
  | none =>
    match UOp.mkSlice (start.getD 0) stop with
    | .error e => .error e
    | .ok op => applyOp st defaultFuel (.u op) t {}

/-- `relation.join(rhs, predicate, backtrack=…, transfer=…)`. -/
def joinWith (st : Store) (t rhs : Rel) (pred : Pred) (backtrack transfer : Bool) : Except Err Res :=
  match JoinOp.make pred [] none with
  | .error e => .error e
  | .ok j =>
    -- Join.partial: min_columns <= fix.columns (min_columns is empty here)
    applyOp st defaultFuel (.pj ⟨j, rhs, false⟩) t { backtrack := backtrack, transfer := transfer }

/-- `Join(pred).partial(rhs).apply(t, preferred_engine=…, backtrack=…, transfer=…,
require_preferred_engine=…)`: a join with automatic common columns and every `apply` option. -/
def joinOpts (st : Store) (t rhs : Rel) (pred : Pred) (o : Opts) : Except Err Res :=
  match JoinOp.make pred [] none with
  | .error e => .error e
  | .ok j => applyOp st defaultFuel (.pj ⟨j, rhs, false⟩) t o

/-- `Join(pred).partial(fixed, is_lhs=True).apply(t, <every option>)`: the fixed relation is the LEFT operand. -/
def joinOptsL (st : Store) (t fixed : Rel) (pred : Pred) (o : Opts) : Except Err Res :=
  match JoinOp.make pred [] none with
  | .error e => .error e
  | .ok j => applyOp st defaultFuel (.pj ⟨j, fixed, true⟩) t o

/-- `Join(pred, max_columns=S).partial(rhs).apply(t, <every option>)`: automatic common columns,
capped by `S`. -/
def joinMax (st : Store) (t rhs : Rel) (pred : Pred) (cap : Cols) (o : Opts) : Except Err Res :=
  match JoinOp.make pred [] (some cap) with
  | .error e => .error e
  | .ok j => applyOp st defaultFuel (.pj ⟨j, rhs, false⟩) t o

/-- `Join(pred, min_columns=S, max_columns=S).partial(rhs).apply(t, backtrack=…, transfer=…)`:
a join with explicitly given common columns. -/
def joinOn (st : Store) (t rhs : Rel) (pred : Pred) (common : Cols) (backtrack transfer : Bool) :
    Except Err Res :=
  match JoinOp.make pred common (some common) with
  | .error e => .error e
  | .ok j =>
    -- `Join.partial`: `ColumnError` unless `min_columns <= fix.columns`
    if !(common.subset rhs.columns) then .error .column
    else applyOp st defaultFuel (.pj ⟨j, rhs, false⟩) t { backtrack := backtrack, transfer := transfer }

/-- `Join(pred, min_columns=S, max_columns=S).apply(lhs, rhs)`: the binary operation applied directly (no
`PartialJoin`, no options). -/
def joinDirect (st : Store) (lhs rhs : Rel) (pred : Pred) (common : Cols) : Except Err BRes :=
  match JoinOp.make pred common (some common) with
  | .error e => .error e
  | .ok j => binaryApply st defaultFuel (.join j) lhs rhs

/-- `relation.chain(rhs)`. -/
def chainWith (st : Store) (t rhs : Rel) : Except Err BRes :=
  binaryApply st defaultFuel .chain t rhs

def transferredTo (st : Store) (t : Rel) (dest : Engine) : Except Err Res :=
  transferTo st defaultFuel dest t

def materialized (st : Store) (t : Rel) (name : String) : Except Err Res :=
  materialize st defaultFuel t name

end Rel

end DafRel
