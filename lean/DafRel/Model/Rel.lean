/-
Layer 3 of the model: relation trees.

Mirrors `_leaf_relation.py`, `_operation_relations.py`, `_marker_relation.py`,
`_materialization.py`, `_transfer.py`, `sql/_select.py` (data only) and the attribute
properties of `_relation.py` (`is_join_identity`, `is_trivial`).

Object identity.  The library uses `is` only in the form "did the callee hand back its
argument?".  Tree-building functions of the model therefore return `Option Rel`-like results
(`none`/`same` = the very same object).  Nodes that can hold a mutable payload (leaves and
marker relations) additionally carry an allocation id `oid`; pure model functions create new
markers with `oid = 0` and the driver numbers them afterwards, so "same oid" in the model
corresponds to "same object" in Python.
-/
import DafRel.Model.Op

namespace DafRel

inductive Rel where
  /-- `LeafRelation`.  `payload` says whether the leaf has a non-`None` payload. -/
  | leaf (oid : Nat) (eng : Engine) (cols : Cols) (name : String)
         (minRows : Nat) (maxRows : Option Nat) (payload : Bool) (msgs : Nat)
  /-- `UnaryOperationRelation(operation, target, columns)`. -/
  | unary (op : UOp) (target : Rel) (cols : Cols)
  /-- `BinaryOperationRelation(operation, lhs, rhs, columns)`. -/
  | binary (op : BOp) (lhs rhs : Rel) (cols : Cols)
  /-- `Materialization(target, name)`; the payload lives in the store under `oid`. -/
  | mat (oid : Nat) (name : String) (target : Rel)
  /-- `Transfer(target, destination)`; the payload lives in the store under `oid`. -/
  | transfer (oid : Nat) (dest : Engine) (target : Rel)
  /-- `sql.Select(target, sort, projection, deduplication, slice, skip_to, is_compound)`. -/
  | select (oid : Nat) (sort : List SortTerm) (proj : Option Cols) (dedup : Bool)
           (sliceStart : Nat) (sliceStop : Option Nat) (skipTo : Rel) (isCompound : Bool)
           (target : Rel)
deriving Repr, Inhabited

/-- Payload store: which payload-capable objects (by `oid`) currently hold a payload, and an
opaque identifier of that payload.  Leaves have their payload from construction. -/
abbrev Store := List (Nat × Nat)

def Store.get (s : Store) (oid : Nat) : Option Nat := (s.find? (·.1 == oid)).map (·.2)

namespace Rel

def columns : Rel → Cols
  | leaf _ _ c _ _ _ _ _ => c
  | unary _ _ c => c
  | binary _ _ _ c => c
  | mat _ _ t => t.columns
  | transfer _ _ t => t.columns
  | select _ _ _ _ _ _ _ _ t => t.columns

def engine : Rel → Engine
  | leaf _ e _ _ _ _ _ _ => e
  | unary _ t _ => t.engine
  | binary _ l _ _ => l.engine
  | mat _ _ t => t.engine
  | transfer _ d _ => d
  | select _ _ _ _ _ _ _ _ t => t.engine

def isLocked : Rel → Bool
  | leaf .. => true
  | mat .. => true
  | _ => false

mutual
def minRows : Rel → Nat
  | leaf _ _ _ _ mn _ _ _ => mn
  | unary op t _ => op.appliedMinRows t.minRows
  | binary op l r _ =>
    match op with
    | .chain => BOp.chainMinRows l.minRows r.minRows
    | .join _ => 0
    | .ignoreOne il => if il then r.minRows else l.minRows
  | mat _ _ t => t.minRows
  | transfer _ _ t => t.minRows
  | select _ _ _ _ _ _ _ _ t => t.minRows
end

def maxRows : Rel → Option Nat
  | leaf _ _ _ _ _ mx _ _ => mx
  | unary op t _ => op.appliedMaxRows t.columns t.maxRows
  | binary op l r _ =>
    match op with
    | .chain => BOp.chainMaxRows l.maxRows r.maxRows
    | .join _ => JoinOp.appliedMaxRows l.maxRows r.maxRows
    | .ignoreOne il => if il then r.maxRows else l.maxRows
  | mat _ _ t => t.maxRows
  | transfer _ _ t => t.maxRows
  | select _ _ _ _ _ _ _ _ t => t.maxRows

/-- `BaseRelation.is_join_identity`. -/
def isJoinIdentity (r : Rel) : Bool :=
  r.columns.isEmpty && r.maxRows == some 1 && r.minRows == 1

/-- `BaseRelation.is_trivial`. -/
def isTrivial (r : Rel) : Bool := r.isJoinIdentity || r.maxRows == some 0

/-- The allocation id of a payload-capable node (0 for operation nodes). -/
def oid : Rel → Nat
  | leaf o .. => o
  | mat o .. => o
  | transfer o .. => o
  | select o .. => o
  | _ => 0

/-- `relation.payload is not None`. -/
def hasPayload (s : Store) : Rel → Bool
  | leaf _ _ _ _ _ _ p _ => p
  | unary .. => false
  | binary .. => false
  | r => (s.get r.oid).isSome

def size : Rel → Nat
  | leaf .. => 1
  | unary _ t _ => t.size + 1
  | binary _ l r _ => l.size + r.size + 1
  | mat _ _ t => t.size + 1
  | transfer _ _ t => t.size + 1
  | select _ _ _ _ _ _ s _ t => s.size + t.size + 1

/-! ### `Select` slots -/

def isSelect : Rel → Bool
  | select .. => true
  | _ => false

end Rel

/-- `PartialJoin(binary, fixed, fixed_is_lhs)`. -/
structure PJoin where
  join : JoinOp
  fixed : Rel
  fixedIsLhs : Bool
deriving Repr, Inhabited

/-- Any unary operation that can be passed to `apply`: a `UOp` or a `PartialJoin`. -/
inductive AnyOp where
  | u (op : UOp)
  | pj (j : PJoin)
deriving Repr, Inhabited

namespace PJoin

/-- `PartialJoin.columns_required`. -/
def columnsRequired (p : PJoin) : Cols :=
  (p.join.pred.columnsRequired.diff p.fixed.columns).union p.join.minCols

/-- `PartialJoin.applied_columns(target)` = `lhs.columns | rhs.columns`. -/
def appliedColumns (p : PJoin) (tcols : Cols) : Cols :=
  if p.fixedIsLhs then p.fixed.columns.union tcols else tcols.union p.fixed.columns

/-- `PartialJoin.commute(current)`: `first` is the partial join itself when it moves. -/
def commute (p : PJoin) (cur : UOp) (tcols ccols : Cols) : Option PJoin × UOp × Bool :=
  -- a target column, or a column `cur` adds, with the name of a non-common column of the fixed relation would be
  -- shadowed
  if !((p.fixed.columns.inter (tcols.union ccols)).subset p.join.minCols) then (none, cur, false) else
  match cur with
  | .dedup => (none, cur, false)
  | .proj _ => (some p, .proj (p.appliedColumns ccols), true)
  | _ =>
    if !(p.columnsRequired.subset tcols) then (none, cur, false)
    else if cur.isCountDependent then (none, cur, false)
    else (some p, cur, true)

end PJoin

namespace AnyOp

def columnsRequired : AnyOp → Cols
  | u op => op.columnsRequired
  | pj p => p.columnsRequired

/-- `operation.commute(tree)` for `tree = UnaryOperationRelation(cur, target, ccols)`. -/
def commute (self : AnyOp) (cur : UOp) (tcols ccols : Cols) : Option AnyOp × UOp × Bool :=
  match self with
  | u op =>
    let c := op.commute cur tcols ccols
    (c.first.map AnyOp.u, c.second, c.done)
  | pj p =>
    let (f, s, d) := p.commute cur tcols ccols
    (f.map AnyOp.pj, s, d)

end AnyOp

end DafRel
