/-
Layer 0 of the model: column tags, column sets, rows, engines, errors.

Hand-written, import-free (core Lean only) so that `Driver.lean` can be
compiled to a native executable.  Mirrors:
  * `ColumnTag` (qualified_name, is_key)               -> `Tag`
  * Python `Set[ColumnTag]` / `frozenset`                -> `Cols` (a list used as a set)
  * Python row mappings `Mapping[ColumnTag, Any]`        -> `Row` (finite map as a function)
  * `Engine` identity (`GenericConcreteEngine.__eq__` is `is`) -> `Engine` (id + kind)
  * exception classes                                    -> `Err`
-/
namespace DafRel

/-- `ColumnTag`: a hashable identifier with a `qualified_name` and the `is_key` flag. -/
structure Tag where
  name : String
  isKey : Bool
deriving DecidableEq, Repr, Inhabited

/-- A Python set of column tags.  Represented as a list; every operation below is a *set*
operation (membership based), so duplicates and order are irrelevant.  The driver prints
column sets sorted and de-duplicated. -/
abbrev Cols := List Tag

namespace Cols

/-- `a <= b` on Python sets. -/
def subset (a b : Cols) : Bool := a.all (fun t => decide (t ∈ b))

/-- `a == b` on Python sets. -/
def seteq (a b : Cols) : Bool := subset a b && subset b a

/-- `a | b`. -/
def union (a b : Cols) : Cols := a ++ b.filter (fun t => decide (t ∉ a))

/-- `a & b`. -/
def inter (a b : Cols) : Cols := a.filter (fun t => decide (t ∈ b))

/-- `a - b`. -/
def diff (a b : Cols) : Cols := a.filter (fun t => decide (t ∉ b))

/-- `a | {t}` (used by `Calculation.applied_columns`: `set(target.columns).add(tag)`). -/
def insert (a : Cols) (t : Tag) : Cols := if t ∈ a then a else a ++ [t]

/-- `not a` (truthiness of a Python set: empty is falsy). -/
def isEmpty (a : Cols) : Bool := List.isEmpty a

/-- The key columns, as selected by `tuple(tag for tag in columns if tag.is_key)`. -/
def keys (a : Cols) : Cols := a.filter (·.isKey)

end Cols

/-- A row: a finite mapping from tags to (NULL-free) integers. `none` = key absent. -/
abbrev Row := Tag → Option Int

namespace Row

def empty : Row := fun _ => none

/-- `{**row, t: v}` -/
def set (r : Row) (t : Tag) (v : Int) : Row := fun u => if u = t then some v else r u

/-- `{k: row[k] for k in c}` for `c ⊆ keys row`. -/
def restrict (r : Row) (c : Cols) : Row := fun u => if u ∈ c then r u else none

/-- `{**l, **r}`: the right operand wins on shared keys. -/
def merge (l r : Row) : Row := fun u => match r u with
  | some v => some v
  | none => l u

/-- The tuple `tuple(row[k] for k in key)` used as a dictionary key by `to_mapping`,
    and more generally the observable content of a row on a column list. -/
def proj (r : Row) (key : Cols) : List (Option Int) := key.map r

/-- Two rows agree on every column of `c`. -/
def agree (a b : Row) (c : Cols) : Bool := c.all (fun t => a t == b t)

/-- `keys row == c` as sets, relative to a finite universe of tags known to the program
    (the driver uses it only for printing and for the well-formedness observation). -/
def hasExactly (r : Row) (c : Cols) (univ : Cols) : Bool :=
  univ.all (fun t => (r t).isSome == decide (t ∈ c))

end Row

inductive EngineKind where
  | iter
  | sql
deriving DecidableEq, Repr, Inhabited

/-- A concrete engine instance.  `GenericConcreteEngine.__eq__` is identity, so two engines are
equal iff they are the same object; the harness gives each engine a distinct `id`. -/
structure Engine where
  id : Nat
  kind : EngineKind
deriving DecidableEq, Repr, Inhabited

/-- Exception classes that can escape the library.  `RelationalAlgebraError` proper (not one of
its two subclasses) is raised for row-order loss and for argument-less functions. -/
inductive Err where
  | column      -- ColumnError
  | engine      -- EngineError
  | relAlg      -- RelationalAlgebraError (row order would be lost / no function arguments)
  | value       -- ValueError
  | type        -- TypeError
  | key         -- KeyError (missing column lookup: an *internal* error)
  | notImpl     -- NotImplementedError (unsupported node: an *internal* error)
  | assertion   -- AssertionError
  | attribute   -- AttributeError (unknown method name)
  | sqlError    -- the database rejects the generated SQL
  | unspecified -- outside the model (ambiguous self-join names): the comparison stops here
  | fuel        -- model artefact: recursion budget exhausted (never expected)
deriving DecidableEq, Repr, Inhabited

def Err.name : Err → String
  | .column => "ColumnError"
  | .engine => "EngineError"
  | .relAlg => "RelationalAlgebraError"
  | .value => "ValueError"
  | .type => "TypeError"
  | .key => "KeyError"
  | .notImpl => "NotImplementedError"
  | .assertion => "AssertionError"
  | .attribute => "AttributeError"
  | .sqlError => "SQLError"
  | .unspecified => "Unspecified"
  | .fuel => "ModelFuel"

end DafRel
