/-
Layer 7a: model of `_diagnostics.py::Diagnostics.run` (messages are counted, not spelled out).
-/
import DafRel.Model.Sem

namespace DafRel

structure Diag where
  isDoomed : Bool
  messages : Nat
deriving Repr, Inhabited, DecidableEq

namespace Diagnostics

/-- `Diagnostics.run(relation, executor)`; `ex = none` is `executor=None`. -/
def run (ex : Option (Rel → Bool)) : Rel → Diag
  | .leaf oid e c n mn mx p msgs =>
    let self := Rel.leaf oid e c n mn mx p msgs
    if mx == some 0 then ⟨true, if msgs == 0 then 1 else msgs⟩
    else
      match ex with
      | some f => if !(f self) then ⟨true, if msgs == 0 then 1 else msgs⟩ else ⟨false, msgs⟩
      | none => ⟨false, msgs⟩
  | .mat _ _ t => run ex t
  | .transfer _ _ t => run ex t
  | .select _ _ _ _ _ _ _ _ t => run ex t
  | .unary op t c =>
    let self := Rel.unary op t c
    let res := run ex t
    if res.isDoomed then res
    else if self.maxRows == some 0 && op.appliedMaxRows t.columns t.maxRows != some 0 then
      ⟨true, res.messages + 1⟩
    else
      let special : Bool :=
        match op with
        | .slice s e => UOp.sliceLimit s e == some 0
        | .sel p => p.asTrivial == some false
        | _ => false
      if special then ⟨true, res.messages + 1⟩
      else
        match ex with
        | some f =>
          if !op.isEmptyInvariant && !(f self) then ⟨true, res.messages + 1⟩ else res
        | none => res
  | .binary op l r c =>
    let self := Rel.binary op l r c
    let lres := run ex l
    let rres := run ex r
    let msgs := lres.messages + rres.messages
    let tail : Diag :=
      match ex with
      | some f => if !(f self) then ⟨true, msgs + 1⟩ else ⟨false, msgs⟩
      | none => ⟨false, msgs⟩
    match op with
    | .chain => ⟨lres.isDoomed && rres.isDoomed, msgs⟩
    | .join j =>
      if lres.isDoomed || rres.isDoomed then ⟨true, msgs⟩
      else if j.pred.asTrivial == some false then ⟨true, msgs + 1⟩
      else tail
    | .ignoreOne _ => tail

end Diagnostics

end DafRel
