/-
S-expression syntax of the line protocol: one reader and one printer shared by every command.
The Python harness (`harness/proto.py`) implements exactly the same syntax.
-/
import DafRel.Model.IterExec

namespace DafRel

inductive Sexp where
  | atom (s : String)
  | list (xs : List Sexp)
deriving Repr, Inhabited

namespace Sexp

partial def toString : Sexp → String
  | atom s => s
  | list xs => "(" ++ " ".intercalate (xs.map toString) ++ ")"

instance : ToString Sexp := ⟨toString⟩

/-- Tokenise: parentheses are tokens, everything else is split on whitespace. -/
def tokenize (s : String) : List String :=
  let flush (cur : String) (acc : List String) : List String := if cur.isEmpty then acc else cur :: acc
  let (cur, acc) := s.foldl (fun (st : String × List String) c =>
    let (cur, acc) := st
    if c == '(' then ("", "(" :: flush cur acc)
    else if c == ')' then ("", ")" :: flush cur acc)
    else if c.isWhitespace then ("", flush cur acc)
    else (cur.push c, acc)) ("", [])
  (flush cur acc).reverse

/-- Parse a token list into a sequence of S-expressions (stack machine, no recursion). -/
def parseTokens (toks : List String) : Option (List Sexp) :=
  let step (st : Option (List (List Sexp))) (t : String) : Option (List (List Sexp)) :=
    match st with
    | none => none
    | some stack =>
      if t == "(" then some ([] :: stack)
      else if t == ")" then
        match stack with
        | top :: parent :: rest => some ((list top.reverse :: parent) :: rest)
        | _ => none
      else
        match stack with
        | top :: rest => some ((atom t :: top) :: rest)
        | [] => none
  match toks.foldl step (some [[]]) with
  | some [top] => some top.reverse
  | _ => none

def parseLine (s : String) : Option (List Sexp) := parseTokens (tokenize s)

end Sexp

end DafRel
