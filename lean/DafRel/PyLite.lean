/-
PyLite: the dynamic value semantics the translator (`harness/extract.py`) targets.

Python code restricted to integers, `None`, booleans, `min`/`max`, comparisons, `is None`,
`and`/`or`/`not`, conditional statements, `return` and `raise` is translated *mechanically* into
terms over `PyV` in the `Except PyExc` monad, so that Python's own dynamic behaviour
(`None + 1` raises `TypeError`, `bool` is an `int`) is preserved and no type inference is needed.
This file is part of the trusted base (it states what those Python primitives mean).
-/
namespace DafRel.PyLite

inductive PyV where
  | none
  | int (i : Int)
  | bool (b : Bool)
  | obj (cls : String) (a b : PyV)             -- a freshly constructed two-field (dataclass) object
deriving Repr, Inhabited, DecidableEq

inductive PyExc where
  | typeError
  | valueError
  | columnError
  | other (name : String)
deriving Repr, Inhabited, DecidableEq

abbrev PyM := Except PyExc

/-- Numeric view (`bool` is a subclass of `int`). -/
def asInt : PyV → Option Int
  | .int i => some i
  | .bool b => some (if b then 1 else 0)
  | _ => Option.none

def arith (f : Int → Int → Int) (a b : PyV) : PyM PyV :=
  match asInt a, asInt b with
  | some x, some y => .ok (.int (f x y))
  | _, _ => .error .typeError

def add := arith (· + ·)
def sub := arith (· - ·)
def mul := arith (· * ·)
def min2 := arith (fun x y => if y < x then y else x)     -- min(a, b)
def max2 := arith (fun x y => if y > x then y else x)     -- max(a, b)

def cmp (f : Int → Int → Bool) (a b : PyV) : PyM PyV :=
  match asInt a, asInt b with
  | some x, some y => .ok (.bool (f x y))
  | _, _ => .error .typeError

def lt := cmp (fun x y => decide (x < y))
def le := cmp (fun x y => decide (x ≤ y))
def gt := cmp (fun x y => decide (x > y))
def ge := cmp (fun x y => decide (x ≥ y))

/-- `a == b` (never raises). -/
def eq (a b : PyV) : PyM PyV :=
  match asInt a, asInt b with
  | some x, some y => .ok (.bool (decide (x = y)))
  | _, _ => .ok (.bool (decide (a = b)))

def ne (a b : PyV) : PyM PyV := (eq a b).map (fun v => match v with
  | .bool b => .bool (!b)
  | v => v)

def isNone (a : PyV) : PyM PyV := .ok (.bool (match a with | .none => true | _ => false))
def isNotNone (a : PyV) : PyM PyV := .ok (.bool (match a with | .none => false | _ => true))

/-- Truthiness (`bool(x)`): `None`, `0`, `False` are falsy. -/
def truthy : PyV → Bool
  | .none => false
  | .int i => i != 0
  | .bool b => b
  | .obj _ _ _ => true

def pyNot (a : PyV) : PyM PyV := .ok (.bool (!(truthy a)))

end DafRel.PyLite
