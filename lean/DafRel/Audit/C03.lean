import DafRel.Props.C03
#print axioms DafRel.Props.C03.backtracking_sound
#print axioms DafRel.Props.C03.backtracking_sound_any_preferred_engine
#print axioms DafRel.Props.C03.apply_with_sql_preferred_engine_sound
#print axioms DafRel.Props.C03.apply_with_transfer_to_preferred_engine_sound
#print axioms DafRel.Props.C03.apply_on_sql_target_sound
#print axioms DafRel.Props.C03.apply_with_options_sound
#print axioms DafRel.Props.C03.same_as_plain_application
#print axioms DafRel.Props.C03.valid_operation_never_column_error
#print axioms DafRel.Props.C03.join_backtracking_sound
#print axioms DafRel.Props.C03.join_with_backtracking_sound
#print axioms DafRel.Props.C03.join_with_backtracking_and_transfer_sound
#print axioms DafRel.Props.C03.join_with_every_option_sound
#print axioms DafRel.Props.C03.bridge_commute_used_by_backtracking
#print axioms DafRel.Props.C03.bridge_partial_join_begin_apply
