import DafRel.Props.C12
#print axioms DafRel.Props.C12.iteration_expression_agrees
#print axioms DafRel.Props.C12.iteration_predicate_agrees
#print axioms DafRel.Props.C12.sql_expression_agrees
#print axioms DafRel.Props.C12.sql_predicate_agrees
#print axioms DafRel.Props.C12.three_way_agreement
#print axioms DafRel.Props.C12.sql_range_membership
#print axioms DafRel.Props.C12.sql_expression_translates
