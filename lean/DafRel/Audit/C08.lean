import DafRel.Props.C08
#print axioms DafRel.Props.C08.accepted_history_executes
#print axioms DafRel.Props.C08.accepted_history_iterates
#print axioms DafRel.Props.C08.finish_apply_raises_only_engine_error
#print axioms DafRel.Props.C08.sql_compile_never_fails
#print axioms DafRel.Props.C08.sql_payload_never_fails
#print axioms DafRel.Props.C08.conformed_tree_compiles
#print axioms DafRel.Props.C08.conformed_tree_compiles_of_ready_input
#print axioms DafRel.Props.C08.accepted_sql_history_compiles
