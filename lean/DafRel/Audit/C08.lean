import DafRel.Props.C08
#print axioms DafRel.Props.C08.accepted_history_executes
#print axioms DafRel.Props.C08.accepted_history_iterates
#print axioms DafRel.Props.C08.finish_apply_raises_only_engine_error
