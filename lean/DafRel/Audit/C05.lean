import DafRel.Props.C05
#print axioms DafRel.Props.C05.slice_then_total
#print axioms DafRel.Props.C05.slice_then_sound
#print axioms DafRel.Props.C05.sort_then_sound
#print axioms DafRel.Props.C05.selection_merge_sound
#print axioms DafRel.Props.C05.simplify_sound
#print axioms DafRel.Props.C05.simplify_total
#print axioms DafRel.Props.C05.finishApply_sound
#print axioms DafRel.Props.C05.finishApply_rejects_only_unsupported
#print axioms DafRel.Props.C05.bridge_Slice_then
#print axioms DafRel.Props.C05.bridge_Slice_new
#print axioms DafRel.Props.C05.bridge_simplify_methods
