import DafRel.Props.C09
#print axioms DafRel.Props.C09.all_node_classes_hashable
#print axioms DafRel.Props.C09.sortTerm_and_sequence_hashable
