import DafRel.Props.C17
#print axioms DafRel.Props.C17.conform_select_is_same
#print axioms DafRel.Props.C17.apply_skip_records_slots
#print axioms DafRel.Props.C17.apply_skip_content
#print axioms DafRel.Props.C17.conform_marker_wraps
#print axioms DafRel.Props.C17.conform_preserves_rows
#print axioms DafRel.Props.C17.conform_idempotent
#print axioms DafRel.Props.C17.append_unary_to_select_sound
#print axioms DafRel.Props.C17.sql_apply_sound
#print axioms DafRel.Props.C17.sql_join_factory_sound
#print axioms DafRel.Props.C17.factory_results_are_conformed
#print axioms DafRel.Props.C17.bridge_select_apply_skip
