import DafRel.Props.C06
#print axioms DafRel.Props.C06.metadata_truthful
#print axioms DafRel.Props.C06.unary_metadata_step
#print axioms DafRel.Props.C06.join_identity_sound
#print axioms DafRel.Props.C06.empty_sound
#print axioms DafRel.Props.C06.trivial_sound
#print axioms DafRel.Props.C06.chain_prune_sound
#print axioms DafRel.Props.C06.bridge_slice_bounds
#print axioms DafRel.Props.C06.bridge_dedup_bounds
#print axioms DafRel.Props.C06.bridge_binary_bounds
#print axioms DafRel.Props.C06.bridge_passthrough_bounds
#print axioms DafRel.Props.C06.bridge_triviality_flags
