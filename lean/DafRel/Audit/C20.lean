import DafRel.Props.C20
#print axioms DafRel.Props.C20.begin_apply_error_propagates
#print axioms DafRel.Props.C20.begin_apply_rejects_illformed
#print axioms DafRel.Props.C20.unary_rejected
#print axioms DafRel.Props.C20.chain_rejected_engines
#print axioms DafRel.Props.C20.chain_rejected_columns
#print axioms DafRel.Props.C20.join_rejected_missing_predicate_column
#print axioms DafRel.Props.C20.slice_rejected_negative
#print axioms DafRel.Props.C20.slice_rejected_reversed
#print axioms DafRel.Props.C20.slice_rejected_step
#print axioms DafRel.Props.C20.getitem_rejected_bounds
#print axioms DafRel.Props.C20.bridge_Slice_new
#print axioms DafRel.Props.C20.unsupported_construct
#print axioms DafRel.Props.C20.unsupported_calculation
#print axioms DafRel.Props.C20.bridge_begin_apply_methods
#print axioms DafRel.Props.C20.bridge_chain_begin_apply
