import DafRel.Props.C02
#print axioms DafRel.Props.C02.sql_tree_building_preserves_rows
#print axioms DafRel.Props.C02.conformed_tree_has_same_rows
#print axioms DafRel.Props.C02.join_of_selects_is_the_join
#print axioms DafRel.Props.C02.join_factory_is_the_join
#print axioms DafRel.Props.C02.sql_history_tree_sem
