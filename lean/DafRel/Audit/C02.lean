import DafRel.Props.C02
#print axioms DafRel.Props.C02.sql_tree_building_preserves_rows
#print axioms DafRel.Props.C02.conformed_tree_has_same_rows
#print axioms DafRel.Props.C02.join_of_selects_is_the_join
#print axioms DafRel.Props.C02.join_factory_is_the_join
#print axioms DafRel.Props.C02.sql_history_tree_sem
#print axioms DafRel.Props.C02.emitted_select_returns_reference_rows
#print axioms DafRel.Props.C02.emitted_payload_stands_for_reference_rows
#print axioms DafRel.Props.C02.to_executable_returns_reference_rows
#print axioms DafRel.Props.C02.to_executable_returns_reference_rows_of_faithful_input
#print axioms DafRel.Props.C02.sql_history_executes_to_direct_rows
#print axioms DafRel.Props.C02.sql_history_executes_to_direct_rows_of_faithful_leaves
#print axioms DafRel.Props.C02.table_payload_is_faithful
