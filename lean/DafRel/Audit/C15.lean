import DafRel.Props.C15
#print axioms DafRel.Props.C15.ThroughUnlocked.sem_eq
#print axioms DafRel.Props.C15.transferSimplify_sound
#print axioms DafRel.Props.C15.transfer_between_iteration_engines
#print axioms DafRel.Props.C15.transfer_to_own_engine_is_same
#print axioms DafRel.Props.C15.materialize_locked_adds_nothing_iter
#print axioms DafRel.Props.C15.materialize_locked_adds_nothing_sql
#print axioms DafRel.Props.C15.backtrack_stops_at_locked
#print axioms DafRel.Props.C15.bridge_locked
#print axioms DafRel.Props.C15.bridge_simplify_methods
#print axioms DafRel.Props.C15.finishApply_keeps_locked_nodes
#print axioms DafRel.Props.C15.transfer_through_sql_keeps_content
#print axioms DafRel.Props.C15.materialize_sql_keeps_content
#print axioms DafRel.Props.C15.sql_engine_never_backtracks
#print axioms DafRel.Props.C15.bridge_engine_dispatch
