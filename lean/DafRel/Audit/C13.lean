import DafRel.Props.C13
#print axioms DafRel.Props.C13.asTrivial_sound
#print axioms DafRel.Props.C13.asTrivial_sound_callable
#print axioms DafRel.Props.C13.flatten_sound
#print axioms DafRel.Props.C13.flatten_false_sound
#print axioms DafRel.Props.C13.selection_normalise_equiv
#print axioms DafRel.Props.C13.mkSel_equiv
#print axioms DafRel.Props.C13.expr_columnsRequired_sufficient
#print axioms DafRel.Props.C13.expr_columnsRequired_sufficient_callable
#print axioms DafRel.Props.C13.pred_columnsRequired_sufficient
#print axioms DafRel.Props.C13.pred_columnsRequired_sufficient_callable
#print axioms DafRel.Props.C13.pred_depends_only_on_required
