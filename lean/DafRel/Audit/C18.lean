import DafRel.Props.C18
#print axioms DafRel.Props.C18.lazy_execute_touches_nothing
#print axioms DafRel.Props.C18.lazy_iteration_single_pass
#print axioms DafRel.Props.C18.sort_consumes_once_at_execute
#print axioms DafRel.Props.C18.dedup_consumes_at_most_once_at_execute
#print axioms DafRel.Props.C18.materialize_consumes_at_most_once_at_execute
#print axioms DafRel.Props.C18.iteration_repeatable
