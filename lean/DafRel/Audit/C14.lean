import DafRel.Props.C14
#print axioms DafRel.Props.C14.simplify_notIdentity
#print axioms DafRel.Props.C14.finishApply_engineOK
#print axioms DafRel.Props.C14.finishApply_identity_same
#print axioms DafRel.Props.C14.history_engineOK
#print axioms DafRel.Props.C14.history_trees_wellformed
#print axioms DafRel.Props.C14.join_common_columns_resolved
#print axioms DafRel.Props.C14.transfer_never_to_same_engine
#print axioms DafRel.Props.C14.transfer_with_payload_never_to_same_engine
#print axioms DafRel.Props.C14.transfer_with_payload_to_own_engine_raises
#print axioms DafRel.Props.C14.noop_calls_return_self
#print axioms DafRel.Props.C14.sql_apply_wellformed
#print axioms DafRel.Props.C14.sql_conform_wellformed
#print axioms DafRel.Props.C14.sql_history_trees_wellformed
#print axioms DafRel.Props.C14.apply_with_options_wellformed
#print axioms DafRel.Props.C14.join_with_backtracking_wellformed
#print axioms DafRel.Props.C14.processed_trees_wellformed
#print axioms DafRel.Props.C14.bridge_join_begin_apply
