import DafRel.Props.C07
#print axioms DafRel.Props.C07.processed_relation_is_left_alone
#print axioms DafRel.Props.C07.reprocessing_calls_no_hook
#print axioms DafRel.Props.C07.fully_processed_tree_is_returned_unchanged
#print axioms DafRel.Props.C07.single_engine_tree_is_only_annotated
#print axioms DafRel.Props.C07.process_then_execute_yields_direct_rows
#print axioms DafRel.Props.C07.multi_engine_processing_invariant
#print axioms DafRel.Props.C07.only_input_materializations_gain_payloads
#print axioms DafRel.Props.C07.multi_engine_process_then_execute_yields_direct_rows
#print axioms DafRel.Props.C07.repeated_processing_yields_direct_rows
#print axioms DafRel.Props.C07.trivial_transfer_calls_no_hook
#print axioms DafRel.Props.C07.materialize_hook_only_when_needed
