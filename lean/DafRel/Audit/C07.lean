import DafRel.Props.C07
#print axioms DafRel.Props.C07.processed_relation_is_left_alone
#print axioms DafRel.Props.C07.reprocessing_calls_no_hook
#print axioms DafRel.Props.C07.fully_processed_tree_is_returned_unchanged
#print axioms DafRel.Props.C07.trivial_transfer_calls_no_hook
