import DafRel.Props.C04
#print axioms DafRel.Props.C04.commute_sound_partial
#print axioms DafRel.Props.C04.commute_none_keeps
#print axioms DafRel.Props.C04.commute_proj_dedup_unsound
#print axioms DafRel.Props.C04.partial_join_commute_sound
#print axioms DafRel.Props.C04.partial_join_past_sort_is_not_order_exact
#print axioms DafRel.Props.C04.bridge_flags
#print axioms DafRel.Props.C04.bridge_commute_methods
#print axioms DafRel.Props.C04.bridge_partial_join
