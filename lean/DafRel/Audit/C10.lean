import DafRel.Props.C10
#print axioms DafRel.Props.C10.attach_only_on_empty_markers
#print axioms DafRel.Props.C10.execute_respects_store
#print axioms DafRel.Props.C10.cached_materialization_is_reused
#print axioms DafRel.Props.C10.shortcut_touches_nothing
#print axioms DafRel.Props.C10.step_mono
#print axioms DafRel.Props.C10.history_write_once_evaluate_once
#print axioms DafRel.Props.C10.processing_is_write_once
#print axioms DafRel.Props.C10.repeated_processing_is_write_once
#print axioms DafRel.Props.C10.evalsOK_empty
