import DafRel.Props.C19
#print axioms DafRel.Props.C19.name_has_prefix
#print axioms DafRel.Props.C19.names_differ_of_uuids_differ
#print axioms DafRel.Props.C19.names_distinct
#print axioms DafRel.Props.C19.counter_alone_not_unique
#print axioms DafRel.Props.C19.bridge_name_format
