import DafRel.Props.C01
#print axioms DafRel.Props.C01.exec_tree_correct
#print axioms DafRel.Props.C01.built_tree_sem
#print axioms DafRel.Props.C01.history_exec_correct
#print axioms DafRel.Props.C01.history_exec_correct_again
#print axioms DafRel.Props.C01.multipass_sort_is_lexicographic_stable_sort
#print axioms DafRel.Props.C01.dict_dedup_is_first_occurrence
#print axioms DafRel.Props.C01.slice_iterable_is_positional
