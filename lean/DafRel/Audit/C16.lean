import DafRel.Props.C16
#print axioms DafRel.Props.C16.diag_sound
#print axioms DafRel.Props.C16.diag_sound_no_executor
#print axioms DafRel.Props.C16.doomed_has_message
#print axioms DafRel.Props.C16.emptyInvariant_sound
#print axioms DafRel.Props.C16.diag_exact
#print axioms DafRel.Props.C16.bridge_flags
