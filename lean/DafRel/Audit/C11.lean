import DafRel.Props.C11
#print axioms DafRel.Props.C11.slice_returns_the_window
#print axioms DafRel.Props.C11.sort_is_applied_on_top
#print axioms DafRel.Props.C11.binary_refuses_unsliced_sort
#print axioms DafRel.Props.C11.materialize_refuses_unsliced_sort
#print axioms DafRel.Props.C11.emitted_select_honours_sort_and_slice
#print axioms DafRel.Props.C11.sorted_slice_executes_in_order
#print axioms DafRel.Props.C11.sorted_slice_executes_in_order_of_faithful_input
