/-
Property C03 — preferred-engine (back-tracking) insertion never changes relation content.

Proved (proof, partial) for the unary operation classes between ITERATION engines:
  * `backtracking_sound`: whatever `backtrack_unary(op, tree, preferred)` returns is well-formed
    and either already has the content of `op` applied at the root (`done`), or applying `op` on
    top of it gives that content (not `done`) - by induction over the tree, using the soundness of
    every commutation report (C04), the soundness of `_finish_apply` (C05) and a locality argument
    for partly inserted (widened) projections;
  * `apply_with_options_sound`: `op.apply(target, preferred_engine=…, backtrack=…, transfer=…,
    require_preferred_engine=…)` - for EVERY combination of the options - returns a well-formed
    relation with the columns and the rows (values, multiplicity, order) of `op` applied to the
    target's rows; it lives in the target's engine or, only if `transfer=True`, in the preferred one;
  * `same_as_plain_application`: hence the same content as the call without any option.
  * `apply_on_sql_target_sound`: the same for a target that lives in a SQL engine (any raw SQL tree incl.
    chains and joins), for EVERY combination of the options and a preferred engine of either family: the
    SQL engine does not back-track, a transfer goes through `conform`, and `append_unary` in either
    engine does the rest (by the tree-building induction of C17).
  * `backtracking_sound_any_preferred_engine`, `apply_with_sql_preferred_engine_sound`: back-tracking from an
    iteration-engine target INTO a SQL engine - the operation is handed to the SQL engine's own `apply`
    below the transfer that leads there (`Rel.prefTargetsGood`: that subtree is one the SQL tree-building
    theorems cover, e.g. anything the SQL factories built) - and `apply` with such a preferred engine,
    `backtrack` and `require_preferred_engine` in any combination, `transfer=False` (the default).
  * `join_backtracking_sound`: back-tracking of a JOIN (`PartialJoin` with resolved common columns, fixed relation
    in a SQL preferred engine) from an iteration-engine tree: `backtrack_unary` either leaves the tree alone or
    returns a well-formed relation in the tree's engine with the columns and - as a multiset, a join defines no
    order - the rows of joining at the root (induction over the tree: every commutation report of
    `PartialJoin.commute` (C04), `_finish_apply` (C05), the SQL engine's join factory below the transfer (C17)).
  * `join_with_backtracking_sound`: the same end to end for `relation.join(fixed)` with its default options
    (`_begin_apply` resolves the common columns; a join that cannot be moved all the way into the database is refused
    with `EngineError` because its operands live in different engines); `join_with_backtracking_and_transfer_sound`:
    the same for either value of `transfer` (not finished + `transfer=True`: the target is transferred into the database
    and joined there); `join_with_every_option_sound`: every combination of `backtrack` / `transfer` /
    `require_preferred_engine`.
Excluded by hypothesis, not proved: a Projection back-tracked past a Deduplication (`spineNoDedup`;
this is the unsound pair of C04, finding F04); for joins, an explicit preferred engine other than the fixed relation's,
a there-and-back pair that `transfer=True` would strip, and payload-holding Transfers on the way
(`spineNoPayload`); and `transfer=True` towards a SQL preferred engine from an iteration-engine
target combined with back-tracking: those are validated by correspondence + oracle.

Working out this induction is what exposed three genuine defects of the implementation (now
repaired in /repo, see DESIGN.md section 12, #19, #21, #22): the statements below could not be
proved of the code as it was.
-/
import DafRel.Lemmas.Backtrack
import DafRel.Lemmas.SqlApply
import DafRel.Lemmas.BacktrackJoin
import DafRel.Bridge.Ops
import DafRel.Bridge.RelOps
import DafRel.Bridge.JoinOps

namespace DafRel.Props.C03


open DafRel

/-- **Back-tracking is sound.** -/
theorem backtracking_sound (σ : Leaves) (st : Store) (pref : Engine) (hpk : pref.kind = .iter)
    (fuel : Nat) (o : UOp) (tree : Rel) (res : Res) (done : Bool)
    (hwf : tree.WF) (htr : tree.Truthful σ) (hop : o.wfOn tree.columns = true)
    (hnd : o.isProj = true → tree.spineNoDedup)
    (h : backtrack st fuel (.u o) tree pref = .ok (res, done)) : BTok σ o tree (res.get tree) done :=
  backtrack_sound σ st pref fuel o tree res done hwf htr hop hnd (prefTargetsGood_of_iter σ pref hpk tree) h

/-- **Back-tracking is sound for a preferred engine of either family.** -/
theorem backtracking_sound_any_preferred_engine (σ : Leaves) (st : Store) (pref : Engine)
    (fuel : Nat) (o : UOp) (tree : Rel) (res : Res) (done : Bool)
    (hwf : tree.WF) (htr : tree.Truthful σ) (hop : o.wfOn tree.columns = true)
    (hnd : o.isProj = true → tree.spineNoDedup) (hpo : tree.prefTargetsGood NodeInv.triv σ pref)
    (h : backtrack st fuel (.u o) tree pref = .ok (res, done)) : BTok σ o tree (res.get tree) done :=
  backtrack_sound σ st pref fuel o tree res done hwf htr hop hnd hpo h

/-- **`apply` on an iteration-engine target with a preferred engine of either family** (`transfer=False`). -/
theorem apply_with_sql_preferred_engine_sound (σ : Leaves) (st : Store) (fuel : Nat) (o : UOp) (t : Rel)
    (opts : Opts) (res : Res) (hkt : t.engine.kind = .iter) (hwf : t.WF) (htr : t.Truthful σ)
    (hnd : o.isProj = true → t.spineNoDedup) (hpo : ∀ p, opts.pref = some p → t.prefTargetsGood NodeInv.triv σ p)
    (htf : opts.transfer = false)
    (h : applyOp st (fuel+1) (.u o) t opts = .ok res) : ApplyOK σ o t (res.get t) opts :=
  applyOp_iter_target_anypref_sound σ st fuel o t opts res hkt hwf htr hnd hpo htf h

/-- **`apply` with `transfer=True` (no back-tracking) towards a preferred engine of either family, from an
iteration-engine target**: the target is transferred - into a database the SQL engine conforms the new Transfer - and
the operation is applied there by the preferred engine's own `apply`; the result has the rows and columns of the plain
application and lives in the preferred engine.  (With `transfer=False` this is
`apply_with_sql_preferred_engine_sound`.) -/
theorem apply_with_transfer_to_preferred_engine_sound (σ : Leaves) (st : Store) (fuel : Nat) (o : UOp) (t : Rel)
    (opts : Opts) (res : Res) (hkt : t.engine.kind = .iter) (hwf : t.WF) (htr : t.Truthful σ)
    (hnd : o.isProj = true → t.spineNoDedup) (hpo : ∀ p, opts.pref = some p → t.prefTargetsGood NodeInv.triv σ p)
    (htf : opts.transfer = true → opts.backtrack = false ∧ ∀ p, opts.pref = some p → transferSimplify p t = none)
    (h : applyOp st (fuel+1) (.u o) t opts = .ok res) : ApplyOK σ o t (res.get t) opts :=
  applyOp_iter_target_transfer_sound σ st fuel o t opts res hkt hwf htr hnd hpo htf h

/-- **`apply` on a target in a SQL engine, any options, preferred engine of either family.** -/
theorem apply_on_sql_target_sound (σ : Leaves) (st : Store) (fuel : Nat) (o : UOp) (t : Rel) (opts : Opts)
    (res : Res) (hwf : t.WF) (htr : t.Truthful σ) (hraw : t.RawSql)
    (hs : ∀ p, opts.pref = some p → transferSimplify p t = none)
    (h : applyOp st (fuel+1) (.u o) t opts = .ok res) : ApplyOK σ o t (res.get t) opts :=
  applyOp_sql_target_sound σ st fuel o t opts res hwf htr hraw hs h

/-- **`apply` with any combination of preferred-engine options is sound.** -/
theorem apply_with_options_sound (σ : Leaves) (st : Store) (fuel : Nat) (o : UOp) (t : Rel) (opts : Opts)
    (res : Res) (hkt : t.engine.kind = .iter) (hpk : ∀ p, opts.pref = some p → p.kind = .iter)
    (hwf : t.WF) (htr : t.Truthful σ) (hnd : o.isProj = true → t.spineNoDedup)
    (h : applyOp st (fuel+1) (.u o) t opts = .ok res) : ApplyOK σ o t (res.get t) opts :=
  applyOp_sound σ st fuel o t opts res hkt hpk hwf htr hnd h

/-- The result has the same columns and rows as the same request issued with no option at all. -/
theorem same_as_plain_application (σ : Leaves) (st : Store) (fuel : Nat) (o : UOp) (t : Rel) (opts : Opts)
    (res plain : Res) (hkt : t.engine.kind = .iter) (hpk : ∀ p, opts.pref = some p → p.kind = .iter)
    (hwf : t.WF) (htr : t.Truthful σ) (hnd : o.isProj = true → t.spineNoDedup)
    (h : applyOp st (fuel+1) (.u o) t opts = .ok res) (hp : applyOp st (fuel+1) (.u o) t {} = .ok plain) :
    sem σ (res.get t) = sem σ (plain.get t) ∧ (∀ x, x ∈ (res.get t).columns ↔ x ∈ (plain.get t).columns) := by
  have a := applyOp_sound σ st fuel o t opts res hkt hpk hwf htr hnd h
  have b := applyOp_sound σ st fuel o t {} plain hkt (fun p hp => by cases hp) hwf htr hnd hp
  exact ⟨by rw [a.sem_eq, b.sem_eq], fun x => (a.cols x).trans (b.cols x).symm⟩

/-- **A valid operation is never rejected with a column error because of where back-tracking tried
to put it.**  For an operation that is well-formed for the target, `apply` with ANY combination of
options raises nothing but the documented `EngineError` (an expression the engine does not support,
or `require_preferred_engine` that cannot be honoured) - `fuel` / `notImpl` are artefacts of the model
(recursion budget; a `sql.Select` inside an iteration-engine tree). -/
theorem valid_operation_never_column_error (σ : Leaves) (st : Store) (fuel : Nat) (o : UOp) (t : Rel)
    (opts : Opts) (e : Err) (hkt : t.engine.kind = .iter) (hpk : ∀ p, opts.pref = some p → p.kind = .iter)
    (hwf : t.WF) (htr : t.Truthful σ) (hop : o.wfOn t.columns = true)
    (hnd : o.isProj = true → t.spineNoDedup)
    (h : applyOp st (fuel+1) (.u o) t opts = .error e) : e = .engine ∨ e = .fuel ∨ e = .notImpl :=
  applyOp_error σ st fuel o t opts e hkt hpk hwf htr hop hnd h

/-- **Back-tracking a join into a SQL preferred engine is sound.**  `p` is the partial join after `_begin_apply`
(common columns resolved, within the fixed relation's columns); its fixed relation is any relation the SQL
tree-building theorems cover, living in the preferred engine; `tree` is any well-formed, truthful tree on whose
columns the join is applicable, whose transfers out of the preferred engine lead to such SQL relations and hold no
payload yet.  Then `backtrack_unary` hands back the tree itself when it reports "not done", and when it reports
"done" the returned relation is well-formed, lives in the tree's engine and has exactly the columns and - as a
multiset - the rows of the join applied at the root. -/
theorem join_backtracking_sound (σ : Leaves) (st : Store) (pref : Engine) (hpk : pref.kind = .sql) (p : PJoin)
    (gF : Good NodeInv.triv σ p.fixed) (hfe : p.fixed.engine = pref)
    (hres : p.join.resolved = true) (hfix : p.join.minCols.subset p.fixed.columns = true)
    (fuel : Nat) (tree : Rel) (res : Res) (done : Bool)
    (hwf : tree.WF) (htr : tree.Truthful σ) (hop : p.columnsRequired.subset tree.columns = true)
    (hpo : tree.prefTargetsGood NodeInv.triv σ pref) (hnp : tree.spineNoPayload st)
    (h : backtrack st fuel (.pj p) tree pref = .ok (res, done)) :
    (done = false → res = .same) ∧
    (done = true →
      (res.get tree).WF ∧ (res.get tree).Truthful σ ∧ (res.get tree).engine = tree.engine ∧
      List.Perm (sem σ (res.get tree)) (p.semRows (sem σ p.fixed) (sem σ tree)) ∧
      (∀ x, x ∈ (res.get tree).columns ↔ x ∈ p.appliedColumns tree.columns)) := by
  obtain ⟨h1, h2⟩ := backtrack_pj_sound σ st pref hpk p gF hfe hres hfix fuel tree res done hwf htr hop hpo hnp h
  exact ⟨h1, fun hd => ⟨(h2 hd).wf, (h2 hd).truthful, (h2 hd).engine, (h2 hd).rows, (h2 hd).cols⟩⟩

/-- **`relation.join(fixed)` with back-tracking, end to end** (`PartialJoin.apply` with its default options: the
preferred engine is the fixed relation's, `backtrack=True`, `transfer=False`; any `require_preferred_engine`): for a
target in an iteration engine and a fixed relation in a database, WHENEVER THE CALL SUCCEEDS the join was back-tracked
into the database (`_begin_apply` resolved the common columns into `p'`; a join that cannot be moved all the way is
refused with `EngineError` by `Join.apply`, because its operands live in different engines), and the result is
well-formed, lives in the target's engine and has the columns and - as a multiset - the rows of the join applied at the
root. -/
theorem join_with_backtracking_sound (σ : Leaves) (st : Store) (fuel : Nat) (p : PJoin) (t : Rel) (o : Opts)
    (hpref : o.pref = none ∨ o.pref = some p.fixed.engine) (hbt : o.backtrack = true) (htr : o.transfer = false)
    (hkt : t.engine.kind = .iter) (hks : p.fixed.engine.kind = .sql)
    (gF : Good NodeInv.triv σ p.fixed)
    (hfix0 : p.join.resolved = true → p.join.minCols.subset p.fixed.columns = true)
    (hwf : t.WF) (htrt : t.Truthful σ) (hpo : t.prefTargetsGood NodeInv.triv σ p.fixed.engine)
    (hnp : t.spineNoPayload st)
    (res : Res) (h : applyOp st fuel (.pj p) t o = .ok res) :
    ∃ p', p.beginApply t o.pref = .ok (p', p.fixed.engine) ∧
      (res.get t).WF ∧ (res.get t).Truthful σ ∧ (res.get t).engine = t.engine ∧
      List.Perm (sem σ (res.get t)) (p'.semRows (sem σ p'.fixed) (sem σ t)) ∧
      (∀ x, x ∈ (res.get t).columns ↔ x ∈ p'.appliedColumns t.columns) := by
  obtain ⟨p', hb, B⟩ := applyOp_pj_backtracked σ st fuel p t o hpref hbt htr hkt hks gF hfix0 hwf htrt hpo hnp res h
  exact ⟨p', hb, B.wf, B.truthful, B.engine, B.rows, B.cols⟩

/-- **`relation.join(fixed, transfer=...)`, either value of `transfer`** (preferred engine = the fixed relation's
database, back-tracking on): whenever the call succeeds, EITHER the join was back-tracked into the database and the
result lives in the target's engine, OR - only with `transfer=True` - back-tracking did not finish, the target was
transferred into the database (`conform(Transfer(target))`) and joined there, and the result lives in the preferred
engine; in both cases it is well-formed and has the columns and - as a multiset - the rows of the join at the root. -/
theorem join_with_backtracking_and_transfer_sound (σ : Leaves) (st : Store) (fuel : Nat) (p : PJoin) (t : Rel)
    (o : Opts) (hpref : o.pref = none ∨ o.pref = some p.fixed.engine) (hbt : o.backtrack = true)
    (hkt : t.engine.kind = .iter) (hks : p.fixed.engine.kind = .sql)
    (gF : Good NodeInv.triv σ p.fixed)
    (hfix0 : p.join.resolved = true → p.join.minCols.subset p.fixed.columns = true)
    (hwf : t.WF) (htrt : t.Truthful σ) (hpo : t.prefTargetsGood NodeInv.triv σ p.fixed.engine)
    (hnp : t.spineNoPayload st) (hts : o.transfer = true → transferSimplify p.fixed.engine t = none)
    (res : Res) (h : applyOp st fuel (.pj p) t o = .ok res) :
    ∃ p', p.beginApply t o.pref = .ok (p', p.fixed.engine) ∧
      (res.get t).WF ∧ (res.get t).Truthful σ ∧
      ((res.get t).engine = t.engine ∨ (o.transfer = true ∧ (res.get t).engine = p.fixed.engine)) ∧
      List.Perm (sem σ (res.get t)) (p'.semRows (sem σ p'.fixed) (sem σ t)) ∧
      (∀ x, x ∈ (res.get t).columns ↔ x ∈ p'.appliedColumns t.columns) := by
  obtain ⟨p', hb, B | ⟨ht, J⟩⟩ :=
    applyOp_pj_any_transfer σ st fuel p t o hpref hbt hkt hks gF hfix0 hwf htrt hpo hnp hts res h
  · exact ⟨p', hb, B.wf, B.truthful, Or.inl B.engine, B.rows, B.cols⟩
  · obtain ⟨f1, _⟩ := pjBeginApply_ok p t o.pref p' _ hfix0 hb
    exact ⟨p', hb, J.wf, J.truthful, Or.inr ⟨ht, by rw [J.engine, f1]⟩, J.rows, J.cols⟩

/-- **A join applied with EVERY combination of `backtrack` / `transfer` / `require_preferred_engine`** (the preferred
engine is the fixed relation's database - the default of `PartialJoin._begin_apply` -, the target lives in an
iteration engine): whenever the call succeeds the result is well-formed and has the columns and - as a multiset - the
rows of the join applied at the root; it lives in the target's engine (only possible with `backtrack=True`: the join
was moved into the database below a transfer) or in the preferred engine (only possible with `transfer=True`: the target
was transferred into the database and joined there).  With neither option the call raises. -/
theorem join_with_every_option_sound (σ : Leaves) (st : Store) (fuel : Nat) (p : PJoin) (t : Rel)
    (o : Opts) (hpref : o.pref = none ∨ o.pref = some p.fixed.engine)
    (hkt : t.engine.kind = .iter) (hks : p.fixed.engine.kind = .sql)
    (gF : Good NodeInv.triv σ p.fixed)
    (hfix0 : p.join.resolved = true → p.join.minCols.subset p.fixed.columns = true)
    (hwf : t.WF) (htrt : t.Truthful σ) (hpo : t.prefTargetsGood NodeInv.triv σ p.fixed.engine)
    (hnp : t.spineNoPayload st) (hts : o.transfer = true → transferSimplify p.fixed.engine t = none)
    (res : Res) (h : applyOp st fuel (.pj p) t o = .ok res) :
    ∃ p', p.beginApply t o.pref = .ok (p', p.fixed.engine) ∧
      (res.get t).WF ∧ (res.get t).Truthful σ ∧
      ((o.backtrack = true ∧ (res.get t).engine = t.engine) ∨
        (o.transfer = true ∧ (res.get t).engine = p.fixed.engine)) ∧
      List.Perm (sem σ (res.get t)) (p'.semRows (sem σ p'.fixed) (sem σ t)) ∧
      (∀ x, x ∈ (res.get t).columns ↔ x ∈ p'.appliedColumns t.columns) := by
  obtain ⟨p', hb, ⟨hbt, B⟩ | ⟨ht, J⟩⟩ :=
    applyOp_pj_all_options σ st fuel p t o hpref hkt hks gF hfix0 hwf htrt hpo hnp hts res h
  · exact ⟨p', hb, B.wf, B.truthful, Or.inl ⟨hbt, B.engine⟩, B.rows, B.cols⟩
  · obtain ⟨f1, _⟩ := pjBeginApply_ok p t o.pref p' _ hfix0 hb
    exact ⟨p', hb, J.wf, J.truthful, Or.inr ⟨ht, by rw [J.engine, f1]⟩, J.rows, J.cols⟩

/-- Tie to the source: the `commute` methods that `backtrack_unary` consults - including
`PartialJoin.commute` (sound by C04's `partial_join_commute_sound`) - are the current source's
(translators T-e / T-f). -/
theorem bridge_commute_used_by_backtracking (p : PJoin) (cur : UOp) (tcols ccols : Cols) :
    Gen.PartialJoin_commute p cur tcols ccols = p.commute cur tcols ccols ∧
    Gen.PartialJoin_columns_required p = p.columnsRequired ∧
    (∀ c, Gen.Projection_commute c cur tcols ccols = (UOp.proj c).commute cur tcols ccols) ∧
    (∀ tag e, Gen.Calculation_commute tag e cur tcols ccols = (UOp.calc tag e).commute cur tcols ccols) :=
  ⟨Bridge.PartialJoin_commute_eq p cur tcols ccols, Bridge.PartialJoin_columns_required_eq p,
   fun c => Bridge.Projection_commute_eq c cur tcols ccols,
   fun tag e => Bridge.Calculation_commute_eq tag e cur tcols ccols⟩

/-- Tie to the source: `PartialJoin._begin_apply` - the function the join theorems above are stated with
(`p.beginApply t o.pref`) - is, as translated from the current Python source on this run (translator T-f), the model's
(for every recursion budget of at least two: one level to resolve the common columns, one for the replacement). -/
theorem bridge_partial_join_begin_apply (fuel : Nat) (p : PJoin) (t : Rel) (pref : Option Engine) :
    Gen.PartialJoin_begin_apply (fuel+2) p t pref = p.beginApply t pref :=
  Bridge.PartialJoin_begin_apply_eq fuel p t pref

/-! ### Non-vacuity -/

private def ta : Tag := ⟨"a", true⟩
private def tb : Tag := ⟨"b", true⟩
private def tx : Tag := ⟨"x", false⟩
private def e0 : Engine := ⟨0, .iter⟩
private def e1 : Engine := ⟨1, .iter⟩
private def leaf0 : Rel := .leaf 1 e0 [ta, tb] "L" 0 none true 0
/-- `σ[b](→[e1](L))`, then `+[x = a]` preferred in `e0` -/
private def tree0 : Rel := .unary (.sel (.ref tb)) (.transfer 2 e1 leaf0) [ta, tb]
private def opts0 : Opts := { pref := some e0, backtrack := true, transfer := false, require := false }

example : tree0.WF := ⟨trivial, rfl, by decide⟩
/-- the calculation is inserted upstream of the transfer, in the preferred engine -/
example : (applyOp [] defaultFuel (.u (.calc tx (.ref ta))) tree0 opts0).toOption.map
    (fun r => match r.get tree0 with
      | .unary (.sel _) (.transfer _ _ (.unary (.calc _ _) (.leaf ..) _)) _ => true
      | _ => false) = some true := by decide


private def es : Engine := ⟨2, .sql⟩
private def leafS : Rel := .leaf 3 es [ta, tb] "S" 0 none true 0
/-- a sorted SQL relation; a slice preferred in the iteration engine `e0`, with transfer -/
private def treeS : Rel := .unary (.sort [⟨.ref tb, false⟩]) leafS [ta, tb]
private def optsS : Opts := { pref := some e0, backtrack := true, transfer := true, require := false }
example : treeS.WF ∧ treeS.RawSql ∧ transferSimplify e0 treeS = none := ⟨⟨trivial, rfl, by decide⟩, rfl, rfl⟩
/-- the SQL tree is conformed, transferred, and the slice applied in the preferred engine -/
example : (applyOp [] defaultFuel (.u (.slice 1 (some 3))) treeS optsS).toOption.map
    (fun r => match r.get treeS with
      | .unary (.slice 1 (some 3)) (.transfer _ d (.select ..)) _ => d == e0
      | _ => false) = some true := by decide


/-- an iteration-engine selection over a relation transferred out of the SQL engine `es`;
a calculation preferred in `es` is handed to the SQL engine below the transfer -/
private def treeI : Rel := .unary (.sel (.ref tb)) (.transfer 4 e0 leafS) [ta, tb]
private def optsI : Opts := { pref := some es, backtrack := true, transfer := false, require := true }
example (σ : Leaves) (hσ : leafS.Truthful σ) : treeI.WF ∧ treeI.prefTargetsGood NodeInv.triv σ es :=
  ⟨⟨trivial, rfl, by decide⟩, ⟨fun _ _ => Good.atom _ rfl trivial hσ rfl trivial, trivial⟩⟩
example : (applyOp [] defaultFuel (.u (.calc tx (.ref ta))) treeI optsI).toOption.map
    (fun r => match r.get treeI with
      | .unary (.sel _) (.transfer _ _ (.select ..)) _ => true
      | _ => false) = some true := by decide +kernel

/-- an iteration-engine leaf; a selection preferred in the SQL engine `es` with `transfer=True`, no back-tracking:
the leaf is transferred into the database (a Select around the Transfer) and the selection applied there -/
private def optsT : Opts := { pref := some es, backtrack := false, transfer := true, require := false }
example : leaf0.WF ∧ transferSimplify es leaf0 = none ∧ leaf0.prefTargetsGood NodeInv.triv (fun _ => []) es :=
  ⟨trivial, rfl, trivial⟩
example : (applyOp [] defaultFuel (.u (.sel (.ref tb))) leaf0 optsT).toOption.map
    (fun r => (r.get leaf0).engine == es) = some true := by decide +kernel

/-- non-vacuity of `join_backtracking_sound`: the iteration-engine selection `treeI` over a relation transferred out
of the SQL engine `es`; a join on `a` with the SQL table `leafF` is moved upstream of the selection, into the
database below the transfer; the hypotheses hold -/
private def leafF : Rel := .leaf 5 es [ta, tx] "F" 0 none true 0
private def pjI : PJoin := ⟨⟨.lit true, [ta], some [ta]⟩, leafF, false⟩
example (σ : Leaves) (hσ : leafS.Truthful σ) (hF : leafF.Truthful σ) :
    Good NodeInv.triv σ pjI.fixed ∧ pjI.fixed.engine = es ∧ pjI.join.resolved = true ∧
      pjI.join.minCols.subset pjI.fixed.columns = true ∧ pjI.columnsRequired.subset treeI.columns = true ∧
      treeI.prefTargetsGood NodeInv.triv σ es ∧ treeI.spineNoPayload [] :=
  ⟨Good.atom _ rfl trivial hF rfl trivial, rfl, by decide, by decide, by decide,
   ⟨fun _ _ => Good.atom _ rfl trivial hσ rfl trivial, trivial⟩, ⟨rfl, trivial⟩⟩
/-- ... and the whole call `treeI.join(leafF)` (automatic common columns, default options) succeeds with that shape -/
example : (applyOp [] defaultFuel (.pj ⟨⟨.lit true, [], none⟩, leafF, false⟩) treeI {}).toOption.map
    (fun r => match r.get treeI with
      | .unary (.sel _) (.transfer _ _ (.select ..)) _ => true
      | _ => false) = some true := by decide +kernel
example : (backtrack [] defaultFuel (.pj pjI) treeI es).toOption.map
    (fun r => r.2 && (match r.1.get treeI with
      | .unary (.sel _) (.transfer _ _ (.select ..)) _ => true
      | _ => false)) = some true := by decide +kernel

/-- non-vacuity of `join_with_every_option_sound`, the other two cases: without back-tracking but with `transfer=True`
the join lands in the database (the target is transferred there); with neither option the call raises -/
example : (applyOp [] defaultFuel (.pj ⟨⟨.lit true, [], none⟩, leafF, false⟩) treeI
      { backtrack := false, transfer := true }).toOption.map (fun r => (r.get treeI).engine == es) = some true ∧
    (applyOp [] defaultFuel (.pj ⟨⟨.lit true, [], none⟩, leafF, false⟩) treeI
      { backtrack := false, transfer := false }).toOption.isNone = true ∧
    transferSimplify es treeI = none := by decide +kernel

end DafRel.Props.C03
