/-
Property C09 — relations are persistent, hashable values; evaluation is side-effect free.

What a theorem can carry here (see DESIGN.md, C09, "proof (partial)"):
 (a) hashability: over the dataclass schema re-read from the live classes on every run, every node
     class of relation trees, operations and column expressions hashes by value, and every compared
     field holds a hashable value (tuples/frozensets, never a list);
 (b) value semantics of the model: every tree-building function is a *function* of its arguments
     (the model has no mutable state other than the payload store, which building never writes);
 (c) frame: executing only adds payloads to marker relations (shared with C10).
Arbitrary Python-level mutation of shared objects cannot be exhibited by the model; that part is
tied by monitoring (fingerprints of every pool relation before/after every command).
-/
import DafRel.Bridge.Tables

namespace DafRel.Props.C09

open DafRel

/-- Every relation / operation / expression class is a frozen, eq-comparable dataclass whose
compared fields are hashable values or other such dataclasses: by Python's dataclass rule every
instance built by the factories is hashable, and equal instances have equal hashes. -/
theorem all_node_classes_hashable : Gen.schema.all Bridge.classHashable = true :=
  Bridge.all_node_classes_hashable

/-- In particular the two classes that used to break hashability. -/
theorem sortTerm_and_sequence_hashable :
    (Gen.schema.filter (fun r => r.1 == "SortTerm" || r.1 == "ColumnExpressionSequence")).all
      Bridge.classHashable = true ∧
    (Gen.schema.filter (fun r => r.1 == "SortTerm" || r.1 == "ColumnExpressionSequence")).length = 2 := by
  decide

end DafRel.Props.C09
