/-
Property C01 — the iteration engine executes the applied operation sequence exactly.

Quantifiers: every construction history (`Build`: leaves, any number of unary operations of any
kind applied through `apply` with default options, `chain`, `materialized`) inside ONE iteration
engine, every leaf content, every starting payload store whose cached payloads are right
(in particular the empty one, and every store left behind by earlier executions).

Statement shape.  `Build.direct` is the specification named in the property text (calculation =
map, projection = map, selection = filter, deduplication = first occurrence, sort = stable sort by
the per-direction lexicographic comparator, slice positional, chain = concatenation); it never
looks at the tree the library built.  `Build.tree` is the model of the factory calls
(`UnaryOperation.apply`/`_finish_apply` with all merging and elision, `Chain`, `materialized`);
`exec` is the model of `iteration.Engine.execute` (dict-based deduplication, multi-pass sort,
`enumerate`-based slicing, payload cache, metadata short-cuts).  Both models are tied to the code
by the correspondence run.

Hypotheses (each is a documented precondition, none is vacuous — see the examples at the end):
  * leaves are truthful (rows have exactly the declared columns; declared bounds hold),
  * function applications have the arity of their function,
  * the input of every deduplication is key-determined (the documented `is_key` contract that
    makes key-based deduplication a row deduplication),
  * marker allocation ids are used consistently (same object ⇒ same content).
-/
import DafRel.Lemmas.Build

namespace DafRel.Props.C01

open DafRel

/-- **Tree level.**  Executing any well-formed iteration-engine tree yields exactly the rows of
the reference semantics — values, multiplicity and order — never fails, and keeps the payload
store right (so the statement applies again to the next execution). -/
theorem exec_tree_correct (σ : Leaves) (reg : Nat → Option (List Row)) (r : Rel) (s : ExecState)
    (hio : r.IterOK) (hwf : r.WF) (htr : r.Truthful σ) (hkd : keyDetermined σ r = true)
    (hreg : r.RegOK σ reg) (hs : StoreOK σ reg s) :
    ∃ it s', exec σ r.engine r s = .ok (it, s') ∧ it.rows σ = .ok (sem σ r) ∧ StoreOK σ reg s' := by
  obtain ⟨it, s', h1, h2, _, h4⟩ := exec_correct σ reg r r.engine s hio hwf htr hkd hreg hs rfl
  exact ⟨it, s', h1, h2, h4⟩

/-- **Factory level.**  The tree built for a history has the rows of the direct evaluation of the
history, whatever merging or elision happened while it was built; it is well-formed, executable
by the iteration engine, and has (as a set) the promised columns. -/
theorem built_tree_sem (σ : Leaves) (st : Store) (eng : Engine) (hk : eng.kind = .iter)
    (b : Build) (r : Rel) (hok : b.ok σ) (hb : b.tree st eng = .ok r) :
    sem σ r = b.direct σ ∧ r.WF ∧ r.IterOK ∧ (∀ c, c ∈ r.columns ↔ c ∈ b.cols) := by
  have h := build_invariant σ st eng hk b r hok hb
  exact ⟨h.sem_eq, h.wf, h.iterOK, h.cols⟩

/-- **C01 (end to end).**  For every construction history inside an iteration engine that the
factories accept, executing the built tree from an empty payload store succeeds and yields exactly
the rows — values, multiplicity, order — of the direct evaluation of the operation sequence. -/
theorem history_exec_correct (σ : Leaves) (st : Store) (eng : Engine) (hk : eng.kind = .iter)
    (b : Build) (r : Rel) (hok : b.ok σ) (hb : b.tree st eng = .ok r)
    (hcons : r.MarkersConsistent σ) :
    ∃ it s', exec σ eng r {} = .ok (it, s') ∧ it.rows σ = .ok (b.direct σ) := by
  have h := build_invariant σ st eng hk b r hok hb
  obtain ⟨it, s', h1, h2, _, _⟩ := exec_correct σ _ r eng {} h.iterOK h.wf h.truthful h.kd
    (RegOK_of_consistent σ r hcons) (StoreOK_empty σ _) h.engine
  exact ⟨it, s', h1, by rw [h2, h.sem_eq]⟩

/-- ... and from every store left behind by earlier executions (cached materializations are
reused; the answer is the same). -/
theorem history_exec_correct_again (σ : Leaves) (st : Store) (eng : Engine) (hk : eng.kind = .iter)
    (b : Build) (r : Rel) (hok : b.ok σ) (hb : b.tree st eng = .ok r)
    (reg : Nat → Option (List Row)) (hreg : r.RegOK σ reg) (s : ExecState) (hs : StoreOK σ reg s) :
    ∃ it s', exec σ eng r s = .ok (it, s') ∧ it.rows σ = .ok (b.direct σ) ∧ StoreOK σ reg s' := by
  have h := build_invariant σ st eng hk b r hok hb
  obtain ⟨it, s', h1, h2, _, h4⟩ := exec_correct σ reg r eng s h.iterOK h.wf h.truthful h.kd hreg hs h.engine
  exact ⟨it, s', h1, by rw [h2, h.sem_eq], h4⟩

/-- The engine's multi-pass sort (one stable pass per direction group, last group first) is the
stable sort by the per-direction lexicographic comparator, for all term lists and row lists. -/
theorem multipass_sort_is_lexicographic_stable_sort (ts : List SortTerm) (l : List Row) :
    multipassSort ts l = isort (lexLe ts) l := multipassSort_eq ts l

/-- Dict-based deduplication (`to_mapping`: position of the first insertion, value of the last)
is first-occurrence deduplication on key-determined rows. -/
theorem dict_dedup_is_first_occurrence (cols : Cols) (rows : List Row) (hc : RowsHaveCols rows cols)
    (hkd : rowsKeyDetermined cols rows = true) :
    dictDedup cols.keys rows = .ok (firstOcc cols rows) := dictDedup_eq_firstOcc cols rows hc hkd

/-- The `enumerate`-based generator of `SliceRowIterable` is positional slicing. -/
theorem slice_iterable_is_positional {α : Type} (s : Nat) (e : Option Nat) (l : List α) :
    sliceEnum s e 0 l = sliceList s e l := sliceEnum_zero s e l

/-! ### Non-vacuity: a concrete history meeting every hypothesis -/

def tA : Tag := ⟨"a", true⟩
def tB : Tag := ⟨"b", false⟩
def mkRow (a b : Int) : Row := fun t => if t = tA then some a else if t = tB then some b else none
def exLeaves : Leaves := fun _ => [mkRow 1 2, mkRow 0 5, mkRow 1 2]
def exEng : Engine := ⟨1, .iter⟩
/-- leaf → deduplicate → sort by `a` ascending → `[0:1]`, chained with itself, materialized. -/
def exBuild : Build :=
  .mat 7 "m" (.chain
    (.op (.slice 0 (some 1)) (.op (.sort [⟨.ref tA, true⟩]) (.op .dedup (.leaf 1 [tA, tB] "t" 3 (some 3) 0))))
    (.leaf 1 [tA, tB] "t" 3 (some 3) 0))

theorem mkRow_cols (a b : Int) : RowHasCols (mkRow a b) [tA, tB] := by
  intro t
  unfold mkRow
  by_cases h1 : t = tA
  · simp [h1]
  · by_cases h2 : t = tB
    · subst h2; simp [tA, tB]
    · simp [h1, h2]

example : exBuild.ok exLeaves := by
  have hl : RowsHaveCols (exLeaves 1) [tA, tB] := by
    intro r hr
    simp only [exLeaves, List.mem_cons, List.not_mem_nil, or_false] at hr
    rcases hr with rfl | rfl | rfl <;> exact mkRow_cols _ _
  refine ⟨⟨⟨⟨⟨hl, by decide, by intro m hm; cases hm; decide⟩, rfl, fun _ => by decide⟩, rfl, fun h => by cases h⟩, rfl, fun h => by cases h⟩, hl, by decide, by intro m hm; cases hm; decide⟩

/-- the factories accept the history, -/
example : (exBuild.tree [] exEng).toBool = true := by decide

/-- the built tree has exactly one marker node (so marker ids are trivially consistent), -/
example : ((exBuild.tree [] exEng).toOption.map (fun r => (r.markers exLeaves).length)) = some 1 := by
  decide

/-- and the direct evaluation is the expected non-trivial row list. -/
example : (exBuild.direct exLeaves).map (fun r => r.proj [tA, tB]) =
    [[some 0, some 5], [some 1, some 2], [some 0, some 5], [some 1, some 2]] := by decide

end DafRel.Props.C01
