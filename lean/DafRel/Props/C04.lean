/-
Property C04 — commutation reports are sound for every operation pair and target.

Quantifiers: all pairs (new operation `self`, existing operation `cur`) of the seven unary
operation classes with arbitrary parameters, all target column sets, all row lists whose rows
have exactly the target's columns.

`commuteSoundAt self cur tcols l` (Lemmas/Commute.lean) says, for the report
`self.commute(cur applied to a target with columns tcols)`:
  * when a first operation is reported: it is well-formed on the target, the reported second
    operation is well-formed on its result, and
      - done:     second(first(l))        = self(cur(l))   (same rows, same order, same columns)
      - partial:  self(second(first(l)))  = self(cur(l))   and `self` is well-formed there;
  * when no move is reported the existing operation is handed back unchanged
    (`commute_none_keeps`).

THE FULL STATEMENT IS FALSE OF THE CURRENT CODE for exactly one pair: a Projection is reported as
movable upstream of a Deduplication (known finding F04; `commute_proj_dedup_unsound` is the
machine-checked witness, replayed against the implementation by the check).  The theorem proved
is therefore `commute_sound_partial`, which excludes that pair and nothing else.
`PartialJoin.commute` (a join with one operand held fixed, moved upstream of an existing unary operation) is
covered by `partial_join_commute_sound`: for every existing operation, every fixed relation and every target,
a reported move is complete, both operations are well-formed where they land, and the rows are those of
joining at the root - as a multiset always, and as a list (order included) unless the existing operation is
a Sort AND the fixed relation is the left operand (with the target as the left, outer operand a stable sort
commutes with the expansion of each target row: `Lemmas/SortFlatMap.lean`).  A join defines no row order;
`partial_join_past_sort_is_not_order_exact` shows that in the nested-loop reading of the reference semantics
list equality really fails in the one remaining case, so the multiset statement is the strongest true one there.
-/
import DafRel.Lemmas.Commute
import DafRel.Lemmas.JoinCommute
import DafRel.Bridge.Tables
import DafRel.Bridge.Ops
import DafRel.Bridge.RelOps

namespace DafRel.Props.C04

open DafRel

/-- **C04 (all pairs but projection-over-deduplication).** -/
theorem commute_sound_partial (self cur : UOp) (tcols : Cols) (l : List Row)
    (hl : RowsHaveCols l tcols) (hcur : cur.wfOn tcols = true)
    (hself : self.wfOn (cur.appliedColumns tcols) = true)
    (hex : ∀ c, self = .proj c → cur.isDedup = false) :
    commuteSoundAt self cur tcols l := by
  cases self with
  | identity => exact commute_identity cur tcols l hcur
  | slice a b => exact commute_slice a b cur tcols l hcur
  | «calc» tag e => exact commute_calc tag e cur tcols l hl hcur hself
  | dedup => exact commute_dedup cur tcols l hl hcur
  | sel p => exact commute_sel p cur tcols l hl hcur hself
  | sort ts => exact commute_sort ts cur tcols l hl hcur hself
  | proj c => exact commute_proj c cur tcols l hcur hself (hex c rfl)

/-- When no move is reported, the existing operation is handed back unchanged. -/
theorem commute_none_keeps (self cur : UOp) (tcols ccols : Cols)
    (h : (self.commute cur tcols ccols).first = none) : (self.commute cur tcols ccols).second = cur := by
  unfold UOp.commute at h ⊢
  cases self <;> cases cur <;> simp only [UOp.commuteFail] at h ⊢ <;>
    (repeat' split) <;> first | rfl | (simp_all)

/-- **The excluded pair really is unsound** (finding F04): deduplicate-then-project keeps two
rows that differ only in a dropped column, project-then-deduplicate keeps one. -/
theorem commute_proj_dedup_unsound :
    ∃ (cols tcols : Cols) (l : List Row), RowsHaveCols l tcols ∧
      (UOp.dedup).wfOn tcols = true ∧ (UOp.proj cols).wfOn tcols = true ∧
      ¬ commuteSoundAt (.proj cols) .dedup tcols l := by
  let a : Tag := ⟨"a", true⟩
  let b : Tag := ⟨"b", true⟩
  let mk : Int → Row := fun v t => if t = a then some 1 else if t = b then some v else none
  refine ⟨[a], [a, b], [mk 1, mk 2], ?_, rfl, by decide, ?_⟩
  · intro r hr t
    simp only [List.mem_cons, List.not_mem_nil, or_false] at hr
    rcases hr with rfl | rfl <;>
    · by_cases h1 : t = a
      · subst h1; simp [mk]
      · by_cases h2 : t = b
        · subst h2; simp [mk, a, b]
        · simp [mk, h1, h2]
  · intro h
    simp only [commuteSoundAt, UOp.commute, UOp.columnsRequired, Cols.subset, List.all_nil, Bool.not_true,
      Bool.false_eq_true, if_false, if_true] at h
    have := congrArg (fun rows => (rows.map (fun r : Row => r.proj [a, b])).length) h.2.2.1
    revert this
    decide

/-- **C04 for joins.**  `PartialJoin.commute`, for every existing operation `cur` (well-formed on the target),
every partial join that is well-formed at the root (`columns_required` within the columns of `cur`'s
result), every fixed relation (rows `F` with exactly its columns) and every target (rows `l`). -/
theorem partial_join_commute_sound (p : PJoin) (cur : UOp) (tcols : Cols) (F l : List Row)
    (hl : RowsHaveCols l tcols) (hF : RowsHaveCols F p.fixed.columns)
    (hcur : cur.wfOn tcols = true)
    (hp : p.columnsRequired.subset (cur.appliedColumns tcols) = true) :
    pjoinCommuteSoundAt p cur tcols F l :=
  pjoin_commute_sound p cur tcols F l hl hF hcur hp

private def tf : Tag := ⟨"f", true⟩
private def tA : Tag := ⟨"a", true⟩
private def fixedLeaf : Rel := .leaf 1 ⟨0, .sql⟩ [tf] "F" 0 none true 0
private def pjF : PJoin := ⟨⟨.lit true, [], some []⟩, fixedLeaf, true⟩
private def rowF (v : Int) : Row := fun t => if t = tf then some v else none
private def rowA (v : Int) : Row := fun t => if t = tA then some v else none

private theorem rowF_cols (v : Int) : RowHasCols (rowF v) [tf] := by
  intro t
  by_cases h : t = tf
  · subst h; simp [rowF]
  · simp [rowF, h]

private theorem rowA_cols (v : Int) : RowHasCols (rowA v) [tA] := by
  intro t
  by_cases h : t = tA
  · subst h; simp [rowA]
  · simp [rowA, h]

/-- **Why the join statement is a multiset statement for a Sort.**  With the fixed relation on the left the
nested-loop join of the reference semantics groups its result by the fixed row: joining the sorted target is
not the sorted join, although `PartialJoin.commute` (rightly - a join promises no order) reports the move. -/
theorem partial_join_past_sort_is_not_order_exact :
    ∃ (p : PJoin) (ts : List SortTerm) (tcols : Cols) (F l : List Row),
      RowsHaveCols l tcols ∧ RowsHaveCols F p.fixed.columns ∧ (UOp.sort ts).wfOn tcols = true ∧
      p.columnsRequired.subset tcols = true ∧
      (p.commute (.sort ts) tcols tcols).1.isSome = true ∧
      (UOp.sort ts).sem (p.appliedColumns tcols) (p.semRows F l) ≠ p.semRows F ((UOp.sort ts).sem tcols l) := by
  refine ⟨pjF, [⟨.ref tA, true⟩], [tA], [rowF 1, rowF 2], [rowA 2, rowA 1], ?_, ?_, by decide, by decide, by decide, ?_⟩
  · intro r hr
    simp only [List.mem_cons, List.not_mem_nil, or_false] at hr
    rcases hr with rfl | rfl <;> exact rowA_cols _
  · intro r hr
    simp only [List.mem_cons, List.not_mem_nil, or_false] at hr
    rcases hr with rfl | rfl <;> exact rowF_cols _
  · intro h
    have := congrArg (fun rows => rows.map (fun r : Row => r.proj [tf, tA])) h
    revert this
    decide

/-- non-vacuity of `partial_join_commute_sound`: a join on a common column `a` with a fixed relation `{a, f}`
moves upstream of a Selection on `a`, and the hypotheses hold -/
example :
    let p : PJoin := ⟨⟨.lit true, [tA], some [tA]⟩, .leaf 1 ⟨0, .sql⟩ [tA, tf] "F" 0 none true 0, false⟩
    (p.commute (.sel (.ref tA)) [tA] [tA]).1.isSome = true ∧ (UOp.sel (.ref tA)).wfOn [tA] = true ∧
      p.columnsRequired.subset [tA] = true := by decide

/-! ### Tie to the source: the flags consulted by `commute` are the regenerated ones -/

/-- `is_count_dependent` / `is_order_dependent` of every operation class, as re-read from the
source on this run, are the model's. -/
theorem bridge_flags : Gen.flags = Bridge.modelFlags := Bridge.flags_eq

/-- **Tie to the source.**  The six `commute` methods, as translated from the current Python source
on this run (Gen/Ops.lean, translator T-e), are the model's `UOp.commute`: the theorems above are
therefore statements about what the code says now. -/
theorem bridge_commute_methods (cur : UOp) (tcols ccols : Cols) :
    (∀ tag e, Gen.Calculation_commute tag e cur tcols ccols = (UOp.calc tag e).commute cur tcols ccols) ∧
    (Gen.Deduplication_commute cur tcols ccols = UOp.dedup.commute cur tcols ccols) ∧
    (∀ c, Gen.Projection_commute c cur tcols ccols = (UOp.proj c).commute cur tcols ccols) ∧
    (∀ p, Gen.Selection_commute p cur tcols ccols = (UOp.sel p).commute cur tcols ccols) ∧
    (∀ s e, Gen.Slice_commute s e cur tcols ccols = (UOp.slice s e).commute cur tcols ccols) ∧
    (∀ ts, Gen.Sort_commute ts cur tcols ccols = (UOp.sort ts).commute cur tcols ccols) :=
  ⟨fun tag e => Bridge.Calculation_commute_eq tag e cur tcols ccols,
   Bridge.Deduplication_commute_eq cur tcols ccols,
   fun c => Bridge.Projection_commute_eq c cur tcols ccols,
   fun p => Bridge.Selection_commute_eq p cur tcols ccols,
   fun s e => Bridge.Slice_commute_eq s e cur tcols ccols,
   fun ts => Bridge.Sort_commute_eq ts cur tcols ccols⟩

/-- `PartialJoin.commute` and `PartialJoin.columns_required`, as translated from the current Python source on this
run, are the model functions `partial_join_commute_sound` is about. -/
theorem bridge_partial_join (p : PJoin) (cur : UOp) (tcols ccols : Cols) :
    Gen.PartialJoin_commute p cur tcols ccols = p.commute cur tcols ccols ∧
      Gen.PartialJoin_columns_required p = p.columnsRequired :=
  ⟨Bridge.PartialJoin_commute_eq p cur tcols ccols, Bridge.PartialJoin_columns_required_eq p⟩

/-! ### Non-vacuity: a concrete pair meeting the hypotheses, with a non-trivial report -/

private def ta : Tag := ⟨"a", true⟩
private def tb : Tag := ⟨"b", false⟩
private def tx : Tag := ⟨"x", false⟩

/-- a sort by `b` moves upstream of a calculation of `x` from `a` -/
example : ((UOp.sort [⟨.ref tb, false⟩]).commute (.calc tx (.ref ta)) [ta, tb] [ta, tb, tx]).done = true := by
  decide

example : (UOp.calc tx (.ref ta)).wfOn [ta, tb] = true ∧
    (UOp.sort [⟨.ref tb, false⟩]).wfOn ((UOp.calc tx (.ref ta)).appliedColumns [ta, tb]) = true := by decide

/-- a projection that needs widening is reported as a partial move -/
example : ((UOp.proj [ta]).commute (.sel (.ref tb)) [ta, tb] [ta, tb]).done = false := by decide

end DafRel.Props.C04
