/-
Property C17 — SQL conform is idempotent, content-preserving, keeps SELECT markers coherent.

Claimed at translation_validation level (conform of operation nodes goes through
`_append_unary_to_select` / `_append_binary_to_select`, which are validated by correspondence and by
running every conformed tree on SQLite).  SUPPORTING theorems about the model:
  * conforming a `Select` returns the same object (`conform_select_is_same`): with "every SQL-engine
    relation the factories return is a Select" (validated) this is idempotence;
  * conforming a leaf, materialization or transfer wraps it in a `Select` with no recorded operation,
    marking the relation itself, with the same rows (`conform_marker_wraps`);
  * every `Select` built by `apply_skip` records exactly the slots and skip target it was given and is
    flagged compound precisely when the skip target is a chain (`apply_skip_records_slots`);
  * the relation such a `Select` marks has the rows of  slice(dedup(proj(sort(skip target))))  in
    that order, and the recorded columns - whatever merging `_finish_apply` did at the top of the skip
    target (`apply_skip_content`): the semantic form of "the operations between a marker and its skip
    target are exactly the recorded ones".
-/
import DafRel.Lemmas.Conform

namespace DafRel.Props.C17

open DafRel

theorem conform_select_is_same (st : Store) (fuel : Nat) (oid : Nat) (so : List SortTerm) (pr : Option Cols)
    (dd : Bool) (a : Nat) (b : Option Nat) (sk : Rel) (ic : Bool) (t : Rel) :
    conform st (fuel+1) (.select oid so pr dd a b sk ic t) = .ok .same := by
  rw [conform]

theorem apply_skip_records_slots (k : Rel) (sl : Slots) (r : Rel) (h : applySkip k sl = .ok r) :
    ∃ t, r = .select 0 sl.sort sl.proj sl.dedup sl.sliceStart sl.sliceStop k (isChain k) t :=
  applySkip_shape k sl r h

theorem apply_skip_content (σ : Leaves) (k : Rel) (sl : Slots) (r : Rel) (hwf : k.WF) (htr : k.Truthful σ)
    (hsl : sl.wfOn k.columns) (h : applySkip k sl = .ok r) :
    r.WF ∧ r.Truthful σ ∧ sem σ r = sl.sem k.columns (sem σ k) ∧
      (∀ c, c ∈ r.columns ↔ c ∈ sl.columns k.columns) :=
  applySkip_sem σ k sl r hwf htr hsl h

/-- Conforming a leaf, a materialization or a transfer: a `Select` with nothing recorded that marks
the relation itself; same rows. -/
theorem conform_marker_wraps (σ : Leaves) (st : Store) (fuel : Nat) (r : Rel)
    (hm : match r with
          | .leaf .. | .mat .. | .transfer .. => True
          | _ => False) :
    conform st (fuel+1) r = .ok (.new (.select 0 [] none false 0 none r (isChain r) r)) ∧
      sem σ (.select 0 [] none false 0 none r (isChain r) r) = sem σ r := by
  have hskip : applySkip r {} = .ok (.select 0 [] none false 0 none r (isChain r) r) := by
    rw [applySkip_eq_spec]
    simp [applySkipSpec, optStep]
  cases r <;> simp at hm <;> (rw [conform]; simp [hskip, bind, Except.bind, pure, Except.pure, sem])

/-! ### Non-vacuity -/

private def ta : Tag := ⟨"a", true⟩
private def tb : Tag := ⟨"b", false⟩
private def e0 : Engine := ⟨0, .sql⟩
private def leaf0 : Rel := .leaf 1 e0 [ta, tb] "L" 0 none true 0
example : (applySkip leaf0 { sort := [⟨.ref tb, false⟩], proj := some [ta], sliceStop := some 2 }).toOption.map
    (fun r => (r.isSelect, r.isCompound, r.columns)) = some (true, false, [ta]) := by decide
example : ({ sort := [⟨.ref tb, false⟩], proj := some [ta], sliceStop := some 2 } : Slots).wfOn leaf0.columns :=
  ⟨by decide, fun c hc => by cases hc; decide⟩

end DafRel.Props.C17
