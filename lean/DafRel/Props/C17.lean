/-
Property C17 — SQL conform is idempotent, content-preserving, keeps SELECT markers coherent.

PROVED for every recursion budget (no bound on depth):
  * `conform_preserves_rows`: conforming a raw well-formed SQL tree of leaves, materializations,
    transfers, the seven unary operations, chains and joins returns a coherent `Select`
    (`SelOK`: flagged compound iff its skip target is a chain, recorded slots well-formed, the marked
    relation has the rows  slice(dedup(proj(sort(skip target))))) with the same rows, columns and engine;
  * `append_unary_to_select_sound`: each of the seven cases of `_append_unary_to_select` (merge into
    the recorded slots, apply below the slots, nest in a subquery, push a projection into the branches
    of a UNION) returns a coherent Select with exactly the rows of the operation applied to the given one;
  * `sql_apply_sound`: `operation.apply(target)` (a unary operation) inside the SQL engine does the same;
  * `join_of_selects_sound` (Lemmas/ConformSound.lean `join_sel_sound`): `_append_binary_to_select(Join)`
    - stripping the operands' projections, guarding hidden columns, re-projecting - yields the join.
  * `sql_join_factory_sound`: `relation.join(rhs, predicate)` inside one SQL engine - `PartialJoin`
    through `apply` with automatic resolution of the common columns - returns a coherent Select with
    exactly the rows of the join; `factory_results_are_conformed`: the results of these factories are
    Selects, so conforming them returns the same object.
Not proved (validated by correspondence + structural oracle + SQLite): factories called with a preferred
engine / back-tracking / transfer options that take the operation into another engine, and trees that
already contain Select markers not produced by the engine.
Further SUPPORTING theorems about the model:
  * conforming a `Select` returns the same object (`conform_select_is_same`): with "every SQL-engine
    relation the factories return is a Select" (validated) this is idempotence;
  * conforming a leaf, materialization or transfer wraps it in a `Select` with no recorded operation,
    marking the relation itself, with the same rows (`conform_marker_wraps`);
  * every `Select` built by `apply_skip` records exactly the slots and skip target it was given and is
    flagged compound precisely when the skip target is a chain (`apply_skip_records_slots`);
  * the relation such a `Select` marks has the rows of  slice(dedup(proj(sort(skip target))))  in
    that order, and the recorded columns - whatever merging `_finish_apply` did at the top of the skip
    target (`apply_skip_content`): the semantic form of "the operations between a marker and its skip
    target are exactly the recorded ones".
-/
import DafRel.Lemmas.Conform
import DafRel.Lemmas.ConformSound
import DafRel.Lemmas.JoinFactory
import DafRel.Bridge.SqlOps

namespace DafRel.Props.C17

variable {I : NodeInv}

open DafRel

theorem conform_select_is_same (st : Store) (fuel : Nat) (oid : Nat) (so : List SortTerm) (pr : Option Cols)
    (dd : Bool) (a : Nat) (b : Option Nat) (sk : Rel) (ic : Bool) (t : Rel) :
    conform st (fuel+1) (.select oid so pr dd a b sk ic t) = .ok .same := by
  rw [conform]

theorem apply_skip_records_slots (k : Rel) (sl : Slots) (r : Rel) (h : applySkip k sl = .ok r) :
    ∃ t, r = .select 0 sl.sort sl.proj sl.dedup sl.sliceStart sl.sliceStop k (isChain k) t :=
  applySkip_shape k sl r h

theorem apply_skip_content (σ : Leaves) (k : Rel) (sl : Slots) (r : Rel) (hwf : k.WF) (htr : k.Truthful σ)
    (hsl : sl.wfOn k.columns) (h : applySkip k sl = .ok r) :
    r.WF ∧ r.Truthful σ ∧ sem σ r = sl.sem k.columns (sem σ k) ∧
      (∀ c, c ∈ r.columns ↔ c ∈ sl.columns k.columns) :=
  applySkip_sem σ k sl r hwf htr hsl h

/-- Conforming a leaf, a materialization or a transfer: a `Select` with nothing recorded that marks
the relation itself; same rows. -/
theorem conform_marker_wraps (σ : Leaves) (st : Store) (fuel : Nat) (r : Rel)
    (hm : match r with
          | .leaf .. | .mat .. | .transfer .. => True
          | _ => False) :
    conform st (fuel+1) r = .ok (.new (.select 0 [] none false 0 none r (isChain r) r)) ∧
      sem σ (.select 0 [] none false 0 none r (isChain r) r) = sem σ r := by
  have hskip : applySkip r {} = .ok (.select 0 [] none false 0 none r (isChain r) r) := by
    rw [applySkip_eq_spec]
    simp [applySkipSpec, optStep]
  cases r <;> simp at hm <;> (rw [conform]; simp [hskip, bind, Except.bind, pure, Except.pure, sem])

/-- **Conform preserves rows and yields a coherent marker** on every raw SQL tree. -/
theorem conform_preserves_rows (σ : Leaves) (st : Store) (fuel : Nat) (t : Rel) (res : Res)
    (hwf : t.WF) (htr : t.Truthful σ) (hraw : t.RawSql) (h : conform st fuel t = .ok res) :
    ConformOK σ t (res.get t) :=
  ((treeBuild_sound σ st fuel).conform t res (raw_good σ t hwf htr hraw) h).2

/-- ... and conforming the result again returns the same object. -/
theorem conform_idempotent (σ : Leaves) (st : Store) (fuel fuel' : Nat) (t : Rel) (res : Res)
    (hwf : t.WF) (htr : t.Truthful σ) (hraw : t.RawSql) (h : conform st fuel t = .ok res) :
    conform st (fuel'+1) (res.get t) = .ok .same := by
  have ok := (conform_preserves_rows σ st fuel t res hwf htr hraw h).ok
  have hs := ok.isSel
  cases hr : res.get t <;> simp [hr, Rel.isSelect] at hs
  rw [conform]

/-- **`_append_unary_to_select` is sound**, case by case (see `Lemmas/SelectSound.lean`). -/
theorem append_unary_to_select_sound (σ : Leaves) (st : Store) (fuel : Nat) (op : UOp) (S : Rel) (res : Res)
    (hS : SelOK σ S) (hop : op.wfOn S.columns = true)
    (hpush : ∀ c, op = .proj c → ∀ l r cc, S.skipTo = .binary .chain l r cc → ∀ x res', (x = l ∨ x = r) →
      applyOp st fuel (.u (.proj c)) x {} = .ok res' →
      Good I σ (res'.get x) ∧ FinishOK σ (.proj c) x (res'.get x) ∧ (res'.get x).isSelect = true)
    (h : appendUnarySel st (fuel+1) (.u op) S = .ok res) : AppendOK σ op S (res.get S) :=
  (appendUnarySel_sound σ st fuel op S res hS hop hpush h).1

/-- **`operation.apply(target)` inside the SQL engine** (default options) on a raw tree:
the result is well-formed and has exactly the rows and columns of the operation applied to the target. -/
theorem sql_apply_sound (σ : Leaves) (st : Store) (fuel : Nat) (op : UOp) (t : Rel) (res : Res)
    (hwf : t.WF) (htr : t.Truthful σ) (hraw : t.RawSql) (h : applyOp st fuel (.u op) t {} = .ok res) :
    FinishOK σ op t (res.get t) :=
  ((treeBuild_sound σ st fuel).apply op t res (raw_good σ t hwf htr hraw) h).2.1

/-- **`relation.join(rhs, predicate)` inside one SQL engine.** -/
theorem sql_join_factory_sound (σ : Leaves) (st : Store) (t rhs : Rel) (pred : Pred) (bt tr : Bool) (res : Res)
    (hwt : t.WF) (htt : t.Truthful σ) (hrt : t.RawSql) (hwr : rhs.WF) (htr : rhs.Truthful σ) (hrr : rhs.RawSql)
    (heng : rhs.engine = t.engine) (h : Rel.joinWith st t rhs pred bt tr = .ok res) :
    ∃ common T, res = .new T ∧ SelOK σ T ∧
      sem σ T = joinRows common pred (sem σ t) (sem σ rhs) ∧
      (∀ c, c ∈ T.columns ↔ c ∈ t.columns.union rhs.columns) ∧ T.engine = t.engine ∧
      common.subset rhs.columns = true ∧ common.subset t.columns = true := by
  unfold Rel.joinWith JoinOp.make at h
  simp only at h
  obtain ⟨common, T, hT, _, okT, semT, colT, engT, c1, c2, _⟩ :=
    applyOp_pj_sound σ st defaultFuel ⟨⟨pred, [], none⟩, rhs, false⟩ t { backtrack := bt, transfer := tr }
      (raw_good σ t hwt htt hrt) (raw_good σ rhs hwr htr hrr) rfl heng
      (fun hr => by simp [JoinOp.resolved] at hr) res h
  exact ⟨common, T, hT, okT, semT, colT, engT, c1, c2⟩

/-- The relations these factories return are Selects: conforming them returns the same object. -/
theorem factory_results_are_conformed (σ : Leaves) (st : Store) (fuel fuel' : Nat) (op : UOp) (t : Rel) (res : Res)
    (hwf : t.WF) (htr : t.Truthful σ) (hraw : t.RawSql) (h : applyOp st fuel (.u op) t {} = .ok res) :
    (res.get t).isSelect = true ∧ conform st (fuel'+1) (res.get t) = .ok .same := by
  have hs := ((treeBuild_sound σ st fuel).apply op t res (raw_good σ t hwf htr hraw) h).2.2
  refine ⟨hs, ?_⟩
  cases hr : res.get t <;> simp [hr, Rel.isSelect] at hs
  rw [conform]

/-! ### Non-vacuity -/

private def ta : Tag := ⟨"a", true⟩
private def tb : Tag := ⟨"b", false⟩
private def e0 : Engine := ⟨0, .sql⟩
private def leaf0 : Rel := .leaf 1 e0 [ta, tb] "L" 0 none true 0
example : (applySkip leaf0 { sort := [⟨.ref tb, false⟩], proj := some [ta], sliceStop := some 2 }).toOption.map
    (fun r => (r.isSelect, r.isCompound, r.columns)) = some (true, false, [ta]) := by decide
example : ({ sort := [⟨.ref tb, false⟩], proj := some [ta], sliceStop := some 2 } : Slots).wfOn leaf0.columns :=
  ⟨by decide, fun c hc => by cases hc; decide⟩


private def raw0 : Rel :=
  .unary (.slice 1 (some 3)) (.unary (.sort [⟨.ref tb, false⟩]) (.binary .chain leaf0 leaf0 [ta, tb]) [ta, tb]) [ta, tb]
example : raw0.WF := ⟨⟨⟨trivial, trivial, rfl, fun _ => Iff.rfl⟩, rfl, by decide⟩, rfl, by decide⟩
example : raw0.RawSql := ⟨rfl, rfl, trivial⟩
/-- conform succeeds on it, with a compound Select recording the sort and the slice -/
example : (conform [] 20 raw0).toOption.map
    (fun r => ((r.get raw0).isSelect, (r.get raw0).isCompound, (r.get raw0).slots.sliceStart,
      (r.get raw0).slots.sort.length)) = some (true, true, 1, 1) := by decide

private def tc : Tag := ⟨"c", false⟩
private def leaf1 : Rel := .leaf 2 e0 [ta, tc] "M" 0 none true 0
private def j0 : JoinOp := ⟨.lit true, [ta], some [ta]⟩
/-- a join whose left operand hides column `b` behind a projection -/
private def raw1 : Rel := .binary (.join j0) (.unary (.proj [ta]) leaf0 [ta]) leaf1 [ta, tc]
example : raw1.WF := ⟨⟨trivial, rfl, by decide⟩, trivial, by decide, by decide, by decide⟩
example : raw1.RawSql := ⟨rfl, rfl, by decide, rfl⟩
/-- conform strips the projection for the join and re-projects afterwards -/
example : (conform [] 20 raw1).toOption.map
    (fun r => ((r.get raw1).isSelect, (r.get raw1).slots.proj, (r.get raw1).skipTo.columns)) =
      some (true, some [ta, tc], [ta, tb, tc]) := by decide

/-- Tie to the source: `sql.Select.apply_skip` - the one place that builds the operation nodes between a `Select`
marker and its `skip_to` from the recorded slots (what the coherence clause of this property is about) - is, as
translated from the current Python source on this run (translator T-f), the model's `applySkip`. -/
theorem bridge_select_apply_skip (skipTo : Rel) (sl : Slots) :
    Gen.Select_apply_skip skipTo sl = applySkip skipTo sl :=
  Bridge.Select_apply_skip_eq skipTo sl

end DafRel.Props.C17
