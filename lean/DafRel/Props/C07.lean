/-
Property C07 — the Processor evaluates multi-engine trees faithfully and only annotates payloads.

Claimed at translation_validation level: the Processor is modelled (`Model/Processor.lean`, with the two hooks
instantiated the way the harness instantiates them) and tied to the real `Processor.process` by the
correspondence run; the end-to-end statement (rows of the processed tree = direct evaluation) is checked by the
oracle on every generated program, not proved.
SUPPORTING theorems (machine-checked, about the model's `_process_recursive`):
  * `processed_relation_is_left_alone`: a relation that already holds a payload is returned as it is (`same`), no
    hook is called, nothing is attached, the state does not change - at any recursion budget, for any
    `materialize_as`; hence `reprocessing_calls_no_hook` for `Processor.process` itself;
  * `fully_processed_tree_is_returned_unchanged`: a tree all of whose leaves and markers hold payloads (what a
    processed tree looks like), through any nesting of unary and binary operations, is returned as the SAME object,
    with no hook call, no payload attached and no state change - processing is idempotent on its own results;
  * `trivial_transfer_calls_no_hook`: a Transfer that is statically a join identity, or statically empty
    (`max_rows == 0`), gets the engine's trivial payload: the hook log is unchanged, and the node returned is a NEW
    Transfer over the untouched target - the input node is not annotated.
-/
import DafRel.Model.Processor
import DafRel.Spec.Processor

namespace DafRel.Props.C07

open DafRel

/-- What `.run.run` of the usual monadic plumbing reduces to. -/
macro "proc_simp" h:(term)? : tactic =>
  `(tactic| simp [bind, ExceptT.bind, ExceptT.mk, ExceptT.bindCont, StateT.bind, get, getThe, MonadStateOf.get,
      StateT.get, set, StateT.set, modify, modifyGet, MonadStateOf.modifyGet, StateT.modifyGet, MonadState.modifyGet,
      liftM, monadLift, MonadLift.monadLift, ExceptT.lift, ExceptT.run, StateT.run, pure, ExceptT.pure, StateT.pure,
      Functor.map, StateT.map])

theorem processed_relation_is_left_alone (σ : Leaves) (fuel : Nat) (orig : Rel) (matAs : Option String)
    (s : ProcState) (h : (s.payloadOf orig).isSome = true) :
    (processRec σ (fuel+1) orig matAs).run.run s = (.ok (.same, true), s) := by
  unfold processRec
  simp [bind, ExceptT.bind, ExceptT.mk, ExceptT.bindCont, StateT.bind, get, getThe, MonadStateOf.get, StateT.get,
    liftM, monadLift, MonadLift.monadLift, ExceptT.lift, ExceptT.run, StateT.run, h, pure, ExceptT.pure, StateT.pure,
    Functor.map, StateT.map]

/-- `Processor.process` on a relation that holds a payload: the relation itself, no hook, no new payload. -/
theorem reprocessing_calls_no_hook (σ : Leaves) (st : ExecState) (sq : SqlState) (t : Rel)
    (h : (({ st := st, sq := sq } : ProcState).payloadOf t).isSome = true) :
    processTop σ st sq t = (.ok .same, { st := st, sq := sq }) := by
  unfold processTop
  have := processed_relation_is_left_alone σ (defaultFuel - 1) t none { st := st, sq := sq } h
  have hd : defaultFuel - 1 + 1 = defaultFuel := by decide
  rw [hd] at this
  simp only [ExceptT.run, StateT.run] at this ⊢
  rw [this]
  rfl

/-- A fully processed tree is returned unchanged: no operation node is rebuilt, no hook runs, nothing is attached. -/
theorem fully_processed_tree_is_returned_unchanged (σ : Leaves) (s : ProcState) :
    (t : Rel) → (fuel : Nat) → (matAs : Option String) →
    t.Settled s → t.size ≤ fuel → ∃ b, (processRec σ fuel t matAs).run.run s = (.ok (.same, b), s)
  | .leaf a b c d e f g h, fuel, matAs, hs, hf => by
    cases fuel with
    | zero => simp [Rel.size] at hf
    | succ n => exact ⟨true, processed_relation_is_left_alone σ n _ matAs s hs⟩
  | .mat a b c, fuel, matAs, hs, hf => by
    cases fuel with
    | zero => simp [Rel.size] at hf
    | succ n => exact ⟨true, processed_relation_is_left_alone σ n _ matAs s hs⟩
  | .transfer a b c, fuel, matAs, hs, hf => by
    cases fuel with
    | zero => simp [Rel.size] at hf
    | succ n => exact ⟨true, processed_relation_is_left_alone σ n _ matAs s hs⟩
  | .select a b c d e f g h i, fuel, matAs, hs, hf => by
    cases fuel with
    | zero => simp [Rel.size] at hf
    | succ n => exact ⟨true, processed_relation_is_left_alone σ n _ matAs s hs⟩
  | .unary op t c, fuel, matAs, hs, hf => by
    cases fuel with
    | zero => simp [Rel.size] at hf
    | succ n =>
      obtain ⟨b, ih⟩ := fully_processed_tree_is_returned_unchanged σ s t n none hs (by simp [Rel.size] at hf; omega)
      simp only [ExceptT.run, StateT.run] at ih
      refine ⟨false, ?_⟩
      unfold processRec
      simp [bind, ExceptT.bind, ExceptT.mk, ExceptT.bindCont, StateT.bind, get, getThe, MonadStateOf.get, StateT.get,
        liftM, monadLift, MonadLift.monadLift, ExceptT.lift, ExceptT.run, StateT.run, pure, ExceptT.pure, StateT.pure,
        Functor.map, StateT.map, ProcState.payloadOf, ih]
  | .binary op l r c, fuel, matAs, hs, hf => by
    cases fuel with
    | zero => simp [Rel.size] at hf
    | succ n =>
      obtain ⟨hl, hr, hop⟩ := hs
      obtain ⟨b1, ih1⟩ := fully_processed_tree_is_returned_unchanged σ s l n none hl (by simp [Rel.size] at hf; omega)
      obtain ⟨b2, ih2⟩ := fully_processed_tree_is_returned_unchanged σ s r n none hr (by simp [Rel.size] at hf; omega)
      simp only [ExceptT.run, StateT.run] at ih1 ih2
      refine ⟨false, ?_⟩
      unfold processRec
      cases op with
      | chain =>
        simp [bind, ExceptT.bind, ExceptT.mk, ExceptT.bindCont, StateT.bind, get, getThe, MonadStateOf.get, StateT.get,
          liftM, monadLift, MonadLift.monadLift, ExceptT.lift, ExceptT.run, StateT.run, pure, ExceptT.pure, StateT.pure,
          Functor.map, StateT.map, ProcState.payloadOf, ih1, ih2, Res.get, hop.1, hop.2]
      | join j =>
        simp [bind, ExceptT.bind, ExceptT.mk, ExceptT.bindCont, StateT.bind, get, getThe, MonadStateOf.get, StateT.get,
          liftM, monadLift, MonadLift.monadLift, ExceptT.lift, ExceptT.run, StateT.run, pure, ExceptT.pure, StateT.pure,
          Functor.map, StateT.map, ProcState.payloadOf, ih1, ih2, Res.get]
      | ignoreOne b =>
        simp [bind, ExceptT.bind, ExceptT.mk, ExceptT.bindCont, StateT.bind, get, getThe, MonadStateOf.get, StateT.get,
          liftM, monadLift, MonadLift.monadLift, ExceptT.lift, ExceptT.run, StateT.run, pure, ExceptT.pure, StateT.pure,
          Functor.map, StateT.map, ProcState.payloadOf, ih1, ih2, Res.get]

/-- A statically trivial Transfer gets the destination engine's trivial payload: no hook is called, and the node
that receives the payload is a NEW Transfer (a fresh allocation id) over the untouched target. -/
theorem trivial_transfer_calls_no_hook (σ : Leaves) (fuel : Nat) (oid : Nat) (dest : Engine) (target : Rel)
    (matAs : Option String) (s : ProcState)
    (hno : (s.payloadOf (.transfer oid dest target)).isSome = false)
    (htriv : (Rel.transfer oid dest target).isJoinIdentity = true ∨ (Rel.transfer oid dest target).maxRows = some 0) :
    ∃ s', (processRec σ (fuel+1) (.transfer oid dest target) matAs).run.run s =
        (.ok (.new (.transfer s.nextTemp dest target), matAs.isSome), s') ∧
      s'.hooks = s.hooks ∧ s'.nextTemp = s.nextTemp + 1 := by
  unfold processRec
  by_cases hji : (Rel.transfer oid dest target).isJoinIdentity = true
  · cases hk : dest.kind <;>
      simp [bind, ExceptT.bind, ExceptT.mk, ExceptT.bindCont, StateT.bind, get, getThe, MonadStateOf.get, StateT.get,
        set, StateT.set, modify, modifyGet, MonadStateOf.modifyGet, StateT.modifyGet, MonadState.modifyGet,
        liftM, monadLift, MonadLift.monadLift, ExceptT.lift, ExceptT.run, StateT.run, pure, ExceptT.pure, StateT.pure,
        Functor.map, StateT.map, hno, hji, trivialPayload, hk, freshTemp, ProcState.attach, Res.get] <;>
      exact ⟨_, rfl, rfl, rfl⟩
  · have hmx : (Rel.transfer oid dest target).maxRows = some 0 := by
      rcases htriv with h | h
      · exact absurd h hji
      · exact h
    cases hk : dest.kind <;>
      simp [bind, ExceptT.bind, ExceptT.mk, ExceptT.bindCont, StateT.bind, get, getThe, MonadStateOf.get, StateT.get,
        set, StateT.set, modify, modifyGet, MonadStateOf.modifyGet, StateT.modifyGet, MonadState.modifyGet,
        liftM, monadLift, MonadLift.monadLift, ExceptT.lift, ExceptT.run, StateT.run, pure, ExceptT.pure, StateT.pure,
        Functor.map, StateT.map, hno, hji, hmx, trivialPayload, hk, freshTemp, ProcState.attach, Res.get] <;>
      exact ⟨_, rfl, rfl, rfl⟩

/-! non-vacuity -/
private def ta : Tag := ⟨"a", true⟩
private def e1 : Engine := ⟨1, .iter⟩
private def e0 : Engine := ⟨0, .sql⟩
private def leafP : Rel := .leaf 1 e1 [ta] "L" 0 none true 0
private def doomed : Rel := .leaf 2 e1 [ta] "D" 0 (some 0) true 0
private def s0 : ProcState := { st := {}, sq := {} }
example : (s0.payloadOf leafP).isSome = true := by decide
example : (Rel.unary (.sel (.lit true)) (Rel.binary .chain leafP leafP [ta]) [ta]).Settled s0 := by
  have hp : (s0.payloadOf leafP).isSome = true := by decide
  exact ⟨hp, hp, by decide, by decide⟩
example : (s0.payloadOf (.transfer 7 e0 doomed)).isSome = false ∧ (Rel.transfer 7 e0 doomed).maxRows = some 0 := by
  decide

end DafRel.Props.C07
