/-
Property C07 — the Processor evaluates multi-engine trees faithfully and only annotates payloads.

Claimed at proof level, partial: proved for trees whose operations run in ITERATION engines, fed by transfers between
iteration engines and by transfers OUT OF A SQL ENGINE (the Processor model of
`Model/Processor.lean`, hooks instantiated as the harness instantiates them, tied to the real `Processor.process`
by the correspondence run); trees with operations or materializations INSIDE a SQL engine downstream of a
transfer, joins across engines and Select markers are validated by the oracle on every generated program.
  * `multi_engine_process_then_execute_yields_direct_rows`: for every tree of leaves, unary operations, chains,
    transfers BETWEEN iteration engines (statically trivial ones included), transfers OUT OF A SQL ENGINE whose
    source is a raw SQL tree over tables (unary operations, joins, chains: the hook conforms, compiles and runs it -
    C17, C02) and materializations of single-engine subtrees, nested to any depth:
    whenever `Processor.process` succeeds, the returned tree has the engine and the columns of the input and
    executing it in its final engine yields exactly the rows - values, multiplicity, order - of the direct
    evaluation of the input.  Behind it, `multi_engine_processing_invariant` (induction over the tree through the
    monadic model): every hook is called on a source its own engine executes (`exec_correct`, C01) and its rows
    are the direct evaluation of that source; every payload attached - to a new Transfer node with a FRESH
    allocation id, or to a Materialization of the input - holds the rows registered for that marker; re-applied
    operations (`operation.apply(new_target)`, `binary.apply`) preserve rows (C05); a chain operand that is
    statically empty is dropped only when it really is empty (C06).
Further theorems (machine-checked, about the model's `_process_recursive`):
  * `processed_relation_is_left_alone`: a relation that already holds a payload is returned as it is (`same`), no
    hook is called, nothing is attached, the state does not change - at any recursion budget, for any
    `materialize_as`; hence `reprocessing_calls_no_hook` for `Processor.process` itself;
  * `fully_processed_tree_is_returned_unchanged`: a tree all of whose leaves and markers hold payloads (what a
    processed tree looks like), through any nesting of unary and binary operations, is returned as the SAME object,
    with no hook call, no payload attached and no state change - processing is idempotent on its own results;
  * `single_engine_tree_is_only_annotated` / `process_then_execute_yields_direct_rows`: for every tree inside ONE
    iteration engine - leaves, any unary operations, chains, materializations nested to any depth (`Rel.PlainIter`:
    statically trivial materializations included; no statically empty chain operand) - `process` returns the tree itself,
    creates no node, leaves the payload store right (every payload it attached holds exactly the rows of the direct
    evaluation of the materialization's target: the `materialize` hook evaluates through the engine model proved
    correct for C01), and executing the tree afterwards yields exactly the rows of its direct evaluation;
  * `trivial_transfer_calls_no_hook`: a Transfer that is statically a join identity, or statically empty
    (`max_rows == 0`), gets the engine's trivial payload: the hook log is unchanged, and the node returned is a NEW
    Transfer over the untouched target - the input node is not annotated.
-/
import DafRel.Model.Processor
import DafRel.Spec.Processor
import DafRel.Lemmas.ProcBasics
import DafRel.Lemmas.ProcIter
import DafRel.Lemmas.ProcMulti

namespace DafRel.Props.C07

open DafRel

/-- What `.run.run` of the usual monadic plumbing reduces to. -/
macro "proc_simp" h:(term)? : tactic =>
  `(tactic| simp [bind, ExceptT.bind, ExceptT.mk, ExceptT.bindCont, StateT.bind, get, getThe, MonadStateOf.get,
      StateT.get, set, StateT.set, modify, modifyGet, MonadStateOf.modifyGet, StateT.modifyGet, MonadState.modifyGet,
      liftM, monadLift, MonadLift.monadLift, ExceptT.lift, ExceptT.run, StateT.run, pure, ExceptT.pure, StateT.pure,
      Functor.map, StateT.map])

theorem processed_relation_is_left_alone (σ : Leaves) (fuel : Nat) (orig : Rel) (matAs : Option String)
    (s : ProcState) (h : (s.payloadOf orig).isSome = true) :
    (processRec σ (fuel+1) orig matAs).run.run s = (.ok (.same, true), s) :=
  processRec_cached σ fuel orig matAs s h

/-- `Processor.process` on a relation that holds a payload: the relation itself, no hook, no new payload. -/
theorem reprocessing_calls_no_hook (σ : Leaves) (st : ExecState) (sq : SqlState) (t : Rel)
    (h : (({ st := st, sq := sq } : ProcState).payloadOf t).isSome = true) :
    processTop σ st sq t = (.ok .same, { st := st, sq := sq }) := by
  unfold processTop
  have := processed_relation_is_left_alone σ (defaultFuel - 1) t none { st := st, sq := sq } h
  have hd : defaultFuel - 1 + 1 = defaultFuel := by decide
  rw [hd] at this
  simp only [ExceptT.run, StateT.run] at this ⊢
  rw [this]
  rfl

/-- A fully processed tree is returned unchanged: no operation node is rebuilt, no hook runs, nothing is attached. -/
theorem fully_processed_tree_is_returned_unchanged (σ : Leaves) (s : ProcState) (t : Rel) (fuel : Nat)
    (matAs : Option String) (hs : t.Settled s) (hf : t.size ≤ fuel) :
    ∃ b, (processRec σ fuel t matAs).run.run s = (.ok (.same, b), s) :=
  processRec_settled σ s t fuel matAs hs hf

/-- **The Processor only annotates a single-engine tree**: the SAME tree comes back, no node is created, the payload
store stays right (`StoreOK`: every payload holds the rows registered for its marker - for the materializations of
the tree, the rows of the direct evaluation of their targets), a processed materialization holds a payload, payloads
are write-once (whatever was stored before is still there, the same object) and new ones sit on Materializations of the
tree only. -/
theorem single_engine_tree_is_only_annotated (σ : Leaves) (reg : Nat → Option (List Row)) (e : Engine)
    (hek : e.kind = .iter) (t : Rel) (fuel : Nat) (matAs : Option String) (s : ProcState)
    (hp : t.PlainIter e) (hio : t.IterOK) (hwf : t.WF) (htr : t.Truthful σ) (hkd : keyDetermined σ t = true)
    (hreg : t.RegOK σ reg) (hs : StoreOK σ reg s.st) (hq : t.sqFree s.sq) (hac : t.Acyclic) (hf : t.size ≤ fuel) :
    ∃ s', (processRec σ fuel t matAs).run.run s = (.ok (.same, t.procFlag), s') ∧ StoreOK σ reg s'.st ∧
      s'.nextTemp = s.nextTemp ∧ (t.procFlag = true → (s'.payloadOf t).isSome = true) ∧
      (∀ o p, s.st.payload o = some p → s'.st.payload o = some p) ∧
      (∀ o, (s'.st.payload o).isSome = true → (s.st.payload o).isSome = true ∨ o ∈ t.matOids) := by
  obtain ⟨s', h, P⟩ := process_plain_iter σ reg e hek t fuel matAs s hp hio hwf htr hkd hreg hs hq hac hf
  exact ⟨s', h, P.store, P.temp, P.cached, P.keep, P.new⟩

/-- **Process, then execute, yields the direct rows** (single iteration engine). -/
theorem process_then_execute_yields_direct_rows (σ : Leaves) (reg : Nat → Option (List Row)) (e : Engine)
    (hek : e.kind = .iter) (t : Rel) (st : ExecState) (hp : t.PlainIter e) (hio : t.IterOK) (hwf : t.WF)
    (htr : t.Truthful σ) (hkd : keyDetermined σ t = true) (hreg : t.RegOK σ reg) (hs : StoreOK σ reg st)
    (hac : t.Acyclic) (hf : t.size ≤ defaultFuel) :
    ∃ ps, processTop σ st {} t = (.ok .same, ps) ∧
      ∃ it s', exec σ t.engine t ps.st = .ok (it, s') ∧ it.rows σ = .ok (sem σ t) :=
  process_then_execute σ reg e hek t st hp hio hwf htr hkd hreg hs hac hf

/-- **What processing a multi-engine tree achieves** (every recursion budget, any `materialize_as`, any starting
state whose payload store is right): the registry of marker contents extends to the fresh nodes (`RegExt`), and
relative to it the returned tree is well-formed, truthful, executable by the iteration engine (`IterOKs`: Transfers
out of a database hold their payload), has a right payload store, the rows and columns of the input and its engine;
no payload was lost (`PayMono`). -/
theorem multi_engine_processing_invariant (σ : Leaves) (sq0 : SqlState) (h0 : sq0.payload 0 = none) (t : Rel)
    (fuel : Nat) (matAs : Option String) (s : ProcState) (reg : Nat → Option (List Row)) (hm : t.MultiIter)
    (hsql : t.SqlSrcOK σ sq0) (T : TreeInv σ reg sq0 t s) (hf : t.size ≤ fuel)
    (res : Res) (b : Bool) (s' : ProcState) (h : (processRec σ fuel t matAs).run.run s = (.ok (res, b), s')) :
    ∃ reg', RegExt reg reg' s.nextTemp ∧ ProcMultiOK σ reg' sq0 t s matAs res b s' :=
  process_multi_iter σ h0 t fuel matAs s reg hm hsql T hf res b s' h

/-- **Only the input's materializations gain payloads.**  After `process` on a multi-engine tree of the class, the
payload store of the iteration engines holds a payload where one was before (WRITE-ONCE: every payload that was there
is still there, the same object), on a Materialization
node OF THE INPUT TREE, or on a node the Processor created itself (an allocation id it handed out) - so a Transfer
node of the input never gains a payload and leaves are untouched; the database-side payload store is unchanged. -/
theorem only_input_materializations_gain_payloads (σ : Leaves) (sq0 : SqlState) (h0 : sq0.payload 0 = none) (t : Rel)
    (fuel : Nat) (matAs : Option String) (s : ProcState) (reg : Nat → Option (List Row)) (hm : t.MultiIter)
    (hsql : t.SqlSrcOK σ sq0) (T : TreeInv σ reg sq0 t s) (hf : t.size ≤ fuel)
    (res : Res) (b : Bool) (s' : ProcState) (h : (processRec σ fuel t matAs).run.run s = (.ok (res, b), s')) :
    (∀ o, (s'.st.payload o).isSome = true → (s.st.payload o).isSome = true ∨ o ∈ t.matOids ∨ s.nextTemp ≤ o) ∧
      (∀ o p, s.st.payload o = some p → s'.st.payload o = some p) ∧ s'.sq = s.sq ∧
      (∀ o, o ∈ (res.get t).matOids → o ∈ t.matOids ∨ s.nextTemp ≤ o) := by
  obtain ⟨reg', _, P⟩ := process_multi_iter σ h0 t fuel matAs s reg hm hsql T hf res b s' h
  exact ⟨P.newp, P.keep, P.inv.sq.trans T.sq.symm, P.mats⟩

/-- **Process a multi-engine tree, execute the result: the rows of direct evaluation.**  Transfers out of a SQL
engine included: the hook conforms, compiles and runs the source (C17, C02), the rows it returns are the direct
evaluation of the source, and the operations downstream run in the iteration engine (C01). -/
theorem multi_engine_process_then_execute_yields_direct_rows (σ : Leaves) (reg : Nat → Option (List Row)) (t : Rel)
    (st : ExecState) (sq : SqlState) (h0 : sq.payload 0 = none) (hm : t.MultiIter) (hsql : t.SqlSrcOK σ sq)
    (hwf : t.WF) (htr : t.Truthful σ) (hkd : keyDetermined σ t = true) (hreg : t.RegOK σ reg)
    (hb : t.markersBelow tempBase) (hs : StoreOK σ reg st) (hfree : t.sqFree sq)
    (hfresh : ∀ o, tempBase ≤ o → sq.payload o = none) (hfreshSt : ∀ o, tempBase ≤ o → st.payload o = none)
    (hac : t.Acyclic) (hpos : ∀ o, o ∈ t.matOids → 0 < o) (hf : t.size ≤ defaultFuel)
    (res : Res) (ps : ProcState) (h : processTop σ st sq t = (.ok res, ps)) :
    (res.get t).engine = t.engine ∧ (∀ u, u ∈ (res.get t).columns ↔ u ∈ t.columns) ∧
      ∃ it s', exec σ (res.get t).engine (res.get t) ps.st = .ok (it, s') ∧ it.rows σ = .ok (sem σ t) :=
  process_multi_then_execute σ reg t st sq h0 hm hsql hwf htr hkd hreg hb hs hfree hfresh hfreshSt hac hpos hf res ps h

/-- **Any number of repeated `process()` calls on the same tree** (each starting in the state the previous one left,
`ProcRuns`): every call returns a tree with the engine and columns of the input that executes to exactly the rows of
the direct evaluation. -/
theorem repeated_processing_yields_direct_rows (σ : Leaves) (sq0 : SqlState) (h0 : sq0.payload 0 = none) (t : Rel)
    (fuel : Nat) (hm : t.MultiIter) (hsql : t.SqlSrcOK σ sq0) (hf : t.size ≤ fuel)
    (runs : List (Res × ProcState)) (s : ProcState) (reg : Nat → Option (List Row)) (T : TreeInv σ reg sq0 t s)
    (hruns : ProcRuns σ fuel t s runs) :
    ∀ x, x ∈ runs → (x.1.get t).engine = t.engine ∧ (∀ u, u ∈ (x.1.get t).columns ↔ u ∈ t.columns) ∧
      ∃ it s'', exec σ (x.1.get t).engine (x.1.get t) x.2.st = .ok (it, s'') ∧ it.rows σ = .ok (sem σ t) :=
  process_repeatedly σ h0 t fuel hm hsql hf runs s reg T hruns

/-- A statically trivial Transfer gets the destination engine's trivial payload: no hook is called, and the node
that receives the payload is a NEW Transfer (a fresh allocation id) over the untouched target. -/
theorem trivial_transfer_calls_no_hook (σ : Leaves) (fuel : Nat) (oid : Nat) (dest : Engine) (target : Rel)
    (matAs : Option String) (s : ProcState)
    (hno : (s.payloadOf (.transfer oid dest target)).isSome = false)
    (htriv : (Rel.transfer oid dest target).isJoinIdentity = true ∨ (Rel.transfer oid dest target).maxRows = some 0) :
    ∃ s', (processRec σ (fuel+1) (.transfer oid dest target) matAs).run.run s =
        (.ok (.new (.transfer s.nextTemp dest target), matAs.isSome), s') ∧
      s'.hooks = s.hooks ∧ s'.nextTemp = s.nextTemp + 1 := by
  unfold processRec
  by_cases hji : (Rel.transfer oid dest target).isJoinIdentity = true
  · cases hk : dest.kind <;>
      simp [bind, ExceptT.bind, ExceptT.mk, ExceptT.bindCont, StateT.bind, get, getThe, MonadStateOf.get, StateT.get,
        set, StateT.set, modify, modifyGet, MonadStateOf.modifyGet, StateT.modifyGet, MonadState.modifyGet,
        liftM, monadLift, MonadLift.monadLift, ExceptT.lift, ExceptT.run, StateT.run, pure, ExceptT.pure, StateT.pure,
        Functor.map, StateT.map, hno, hji, trivialPayload, hk, freshTemp, ProcState.attach, Res.get] <;>
      exact ⟨_, rfl, rfl, rfl⟩
  · have hmx : (Rel.transfer oid dest target).maxRows = some 0 := by
      rcases htriv with h | h
      · exact absurd h hji
      · exact h
    cases hk : dest.kind <;>
      simp [bind, ExceptT.bind, ExceptT.mk, ExceptT.bindCont, StateT.bind, get, getThe, MonadStateOf.get, StateT.get,
        set, StateT.set, modify, modifyGet, MonadStateOf.modifyGet, StateT.modifyGet, MonadState.modifyGet,
        liftM, monadLift, MonadLift.monadLift, ExceptT.lift, ExceptT.run, StateT.run, pure, ExceptT.pure, StateT.pure,
        Functor.map, StateT.map, hno, hji, hmx, trivialPayload, hk, freshTemp, ProcState.attach, Res.get] <;>
      exact ⟨_, rfl, rfl, rfl⟩

/-- **The `materialize` hook runs only for a relation that is neither statically trivial nor already materialized on
the way**: whenever the Materialization being processed is statically a join identity or statically empty, or its
processed target reports a payload (`persisted`), the payload computation leaves the hook log untouched - in either
engine family, whatever the trees. -/
theorem materialize_hook_only_when_needed (σ : Leaves) (oid : Nat) (name : String) (target x : Rel) (persisted : Bool)
    (s : ProcState)
    (h : persisted = true ∨ (Rel.mat oid name target).isJoinIdentity = true ∨ (Rel.mat oid name target).maxRows = some 0) :
    ((matPayload σ (.mat oid name target) target x name persisted) s).2.hooks = s.hooks := by
  unfold matPayload
  cases persisted with
  | true =>
    simp [bind, ExceptT.bind, ExceptT.mk, ExceptT.bindCont, StateT.bind, get, getThe, MonadStateOf.get, StateT.get,
      liftM, monadLift, MonadLift.monadLift, ExceptT.lift, pure, ExceptT.pure, StateT.pure, Functor.map, StateT.map]
  | false =>
    have h' : (Rel.mat oid name target).isJoinIdentity = true ∨ (Rel.mat oid name target).maxRows = some 0 := by
      rcases h with h | h
      · cases h
      · exact h
    by_cases hji : (Rel.mat oid name target).isJoinIdentity = true
    · cases hk : target.engine.kind <;>
        simp [hji, hk, trivialPayload, bind, ExceptT.bind, ExceptT.mk, ExceptT.bindCont, StateT.bind, get, getThe,
          MonadStateOf.get, StateT.get, set, StateT.set, liftM, monadLift, MonadLift.monadLift, ExceptT.lift, pure,
          ExceptT.pure, StateT.pure, Functor.map, StateT.map]
    · have hmz : (Rel.mat oid name target).maxRows = some 0 := by
        rcases h' with h | h
        · exact absurd h hji
        · exact h
      cases hk : target.engine.kind <;>
        simp [hji, hmz, hk, trivialPayload, bind, ExceptT.bind, ExceptT.mk, ExceptT.bindCont, StateT.bind, get, getThe,
          MonadStateOf.get, StateT.get, set, StateT.set, liftM, monadLift, MonadLift.monadLift, ExceptT.lift, pure,
          ExceptT.pure, StateT.pure, Functor.map, StateT.map]

/-! non-vacuity -/
private def ta : Tag := ⟨"a", true⟩
private def e1 : Engine := ⟨1, .iter⟩
private def e0 : Engine := ⟨0, .sql⟩
private def leafP : Rel := .leaf 1 e1 [ta] "L" 0 none true 0
private def doomed : Rel := .leaf 2 e1 [ta] "D" 0 (some 0) true 0
private def s0 : ProcState := { st := {}, sq := {} }
example : (s0.payloadOf leafP).isSome = true := by decide
example : (Rel.unary (.sel (.lit true)) (Rel.binary .chain leafP leafP [ta]) [ta]).Settled s0 := by
  have hp : (s0.payloadOf leafP).isSome = true := by decide
  exact ⟨hp, hp, by decide, by decide⟩
example : (s0.payloadOf (.transfer 7 e0 doomed)).isSome = false ∧ (Rel.transfer 7 e0 doomed).maxRows = some 0 := by
  decide

/-- a statically empty Materialization: the premise of `materialize_hook_only_when_needed` is met -/
example : (Rel.mat 12 "z" doomed).maxRows = some 0 := by decide

/-- a materialized selection over a one-row leaf: every hypothesis of the two theorems above is met -/
private def σ1 : Leaves := fun _ => [fun t => if t = ta then some 1 else none]
private def matT : Rel := .mat 5 "m" (.unary (.sel (.fn .gt [.ref ta, .lit 0] none)) leafP [ta])
private def reg1 : Nat → Option (List Row) := fun o => if o = 5 then some (sem σ1 (.unary (.sel (.fn .gt [.ref ta, .lit 0] none)) leafP [ta])) else none
example : matT.PlainIter e1 ∧ matT.IterOK ∧ matT.WF ∧ matT.Truthful σ1 ∧ keyDetermined σ1 matT = true ∧
    matT.RegOK σ1 reg1 ∧ StoreOK σ1 reg1 {} ∧ matT.size ≤ defaultFuel := by
  refine ⟨rfl, ⟨rfl, rfl, rfl⟩, ⟨trivial, rfl, by decide⟩, ⟨?_, Nat.zero_le _, fun m hm => by cases hm⟩,
    rfl, ⟨rfl, trivial⟩, StoreOK_empty σ1 reg1, by decide⟩
  intro r hr
  simp [σ1] at hr
  subst hr
  intro t
  by_cases h : t = ta <;> simp_all [ta]

/-- a selection over a transfer (engine 1 -> engine 2) of a materialized selection: the hypotheses of the multi-engine
theorem are met, and processing succeeds -/
private def e2 : Engine := ⟨2, .iter⟩
private def multiT : Rel := .unary (.sel (.fn .gt [.ref ta, .lit 0] none)) (.transfer 6 e2 matT) [ta]
example : multiT.MultiIter ∧ multiT.IterOK ∧ multiT.WF ∧ multiT.markersBelow tempBase ∧ multiT.size ≤ defaultFuel := by
  refine ⟨⟨⟨rfl, (by decide : e2 ≠ e1), Or.inl ⟨rfl, rfl, Or.inl ⟨rfl, ⟨rfl, rfl, rfl⟩⟩⟩⟩, rfl, rfl⟩,
    ⟨⟨⟨rfl, rfl, rfl⟩, rfl⟩, rfl, rfl⟩, ⟨⟨trivial, rfl, by decide⟩, rfl, by decide⟩, ⟨by decide, by decide, trivial⟩,
    by decide⟩
example : (match processTop σ1 {} {} multiT with
    | (.ok res, _) => (res.get multiT).engine.id
    | _ => 99) = 2 := by decide +kernel

/-- a selection (in iteration engine 1) over a transfer OUT OF the SQL engine of a selection over a table: the tree
is in the class, processing succeeds, and executing the processed tree returns the row of the direct evaluation -/
private def sqlLeaf : Rel := .leaf 3 e0 [ta] "T" 0 none true 0
private def sqlSrc : Rel := .unary (.sel (.fn .ge [.ref ta, .lit 1] none)) sqlLeaf [ta]
private def crossT : Rel := .unary (.sel (.fn .gt [.ref ta, .lit 0] none)) (.transfer 8 e1 sqlSrc) [ta]
private def sqS : SqlState := { payloads := [(3, tablePayload "T" 3 0 [ta])], tables := [σ1 3] }
example : crossT.MultiIter ∧ crossT.WF ∧ crossT.markersBelow tempBase ∧ crossT.sqFree sqS ∧ sqS.payload 0 = none := by
  refine ⟨⟨⟨rfl, (by decide : e1 ≠ e0), Or.inr ⟨rfl, rfl, rfl, rfl⟩⟩, rfl, rfl⟩, ⟨⟨trivial, rfl, by decide⟩, rfl, by decide⟩, ⟨by decide, trivial⟩,
    ⟨rfl, fun h => by cases h⟩, rfl⟩
example : (match processTop σ1 {} sqS crossT with
    | (.ok res, ps) =>
      (match exec σ1 e1 (res.get crossT) ps.st with
       | .ok (it, _) => (it.rows σ1).toOption.map (fun rows => rows.map (fun r => r ta))
       | .error _ => none)
    | _ => none) = some [some 1] := by decide +kernel

/-- a MATERIALIZATION OF A CHAIN whose left branch is statically empty and whose right branch is a leaf (the chain
is pruned to the leaf, `Materialization.simplify` adds nothing, the leaf's payload is handed to the input's
Materialization): in the class; processing succeeds without any hook and executing returns the direct rows -/
private def prunedM : Rel := .mat 11 "pm" (.binary .chain doomed leafP [ta])
example : prunedM.MultiIter ∧ prunedM.WF ∧ prunedM.markersBelow tempBase := by
  refine ⟨⟨rfl, Or.inr ⟨⟨rfl, rfl⟩, ⟨rfl, rfl⟩, rfl, trivial⟩⟩, ⟨trivial, trivial, rfl, fun _ => Iff.rfl⟩,
    ⟨by decide, trivial, trivial⟩⟩
example : (match processTop σ1 {} {} prunedM with
    | (.ok res, ps) =>
      (match exec σ1 e1 (res.get prunedM) ps.st with
       | .ok (it, _) => ((it.rows σ1).toOption.map (fun rows => rows.map (fun r => r ta)),
          (ps.st.payload 11).isSome, ps.hooks.length)
       | .error _ => (none, false, 0))
    | _ => (none, false, 0)) = (some [some 1], true, 0) := by decide +kernel

/-- a selection over a MATERIALIZATION DIRECTLY AFTER A TRANSFER out of the SQL engine: in the class; processing
succeeds, the new Materialization and the input's one (id 9) both hold the payload, the input's Transfer (id 8) holds
none, exactly one hook ran, executing returns the direct rows -/
private def crossM : Rel :=
  .unary (.sel (.fn .gt [.ref ta, .lit 0] none)) (.mat 9 "mx" (.transfer 8 e1 sqlSrc)) [ta]
example : crossM.MultiIter ∧ crossM.WF ∧ crossM.markersBelow tempBase ∧ crossM.sqFree sqS := by
  refine ⟨⟨⟨rfl, Or.inr ⟨rfl, (by decide : e1 ≠ e0), Or.inr ⟨rfl, rfl, rfl, rfl⟩⟩⟩, rfl, rfl⟩,
    ⟨⟨trivial, rfl, by decide⟩, rfl, by decide⟩, ⟨by decide, by decide, trivial⟩, ⟨rfl, rfl, fun h => by cases h⟩⟩
example : (match processTop σ1 {} sqS crossM with
    | (.ok res, ps) =>
      (match exec σ1 e1 (res.get crossM) ps.st with
       | .ok (it, _) => ((it.rows σ1).toOption.map (fun rows => rows.map (fun r => r ta)),
          (ps.st.payload 9).isSome, (ps.st.payload 8).isSome, ps.hooks.length)
       | .error _ => (none, false, false, 0))
    | _ => (none, false, false, 0)) = (some [some 1], true, false, 1) := by decide +kernel

/-- two `process` calls in a row on `crossM`: the second finds the Materialization's payload, runs NO further hook
(the log still has one entry), and its result executes to the direct rows -/
example : (match (processRec σ1 defaultFuel crossM none).run.run { st := {}, sq := sqS } with
    | (.ok _, s1) =>
      (match (processRec σ1 defaultFuel crossM none).run.run s1 with
       | (.ok (res2, _), s2) =>
         (match exec σ1 e1 (res2.get crossM) s2.st with
          | .ok (it, _) => ((it.rows σ1).toOption.map (fun rows => rows.map (fun r => r ta)), s2.hooks.length)
          | .error _ => (none, 0))
       | _ => (none, 0))
    | _ => (none, 0)) = (some [some 1], 1) := by decide +kernel

/-- the trees above are acyclic (the hypothesis `Rel.Acyclic` of the theorems) -/
example : matT.Acyclic ∧ multiT.Acyclic ∧ crossT.Acyclic ∧ crossM.Acyclic := by
  simp [matT, multiT, crossT, crossM, sqlSrc, sqlLeaf, leafP, Rel.Acyclic, Rel.matOids]

end DafRel.Props.C07
