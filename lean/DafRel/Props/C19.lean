/-
Property C19 — generated relation names are unique across all calls and threads.

The theorems speak about ANY multiset of requests with ANY counter values (whatever interleaving
produced them): uniqueness rests on the fixed-width uuid suffix alone.  `FreshUuids` (pairwise
distinct 32-character hex strings; collision probability 2^-122 per pair) and the atomicity of
the modelled steps are the stated assumptions.
-/
import DafRel.Model.Names
import DafRel.Bridge.Tables

namespace DafRel.Props.C19

open DafRel.Names

theorem formatName_eq (pfx : List Char) (c : Nat) (hex : List Char) :
    formatName pfx c hex = pfx ++ ['_'] ++ padNat 4 c ++ ['_'] ++ hex := by
  simp [formatName, render, modelFormat, renderPart]

/-- Every generated name begins with the requested prefix. -/
theorem name_has_prefix (pfx : List Char) (c : Nat) (hex : List Char) :
    pfx <+: formatName pfx c hex := by
  rw [formatName_eq]
  exact ⟨['_'] ++ padNat 4 c ++ ['_'] ++ hex, by simp⟩

/-- Two names built from different (equally long) uuid suffixes differ — whatever the prefixes
and whatever the counter values (equal counters included). -/
theorem names_differ_of_uuids_differ (p1 p2 : List Char) (c1 c2 : Nat) (h1 h2 : List Char)
    (hl : h1.length = h2.length) (hne : h1 ≠ h2) : formatName p1 c1 h1 ≠ formatName p2 c2 h2 := by
  intro heq
  rw [formatName_eq, formatName_eq] at heq
  have := List.append_inj_right' heq hl
  exact hne this

/-- A request: prefix, the counter value it happened to read, the uuid it drew. -/
structure Req where
  pfx : List Char
  counter : Nat
  hex : List Char

def FreshUuids (rs : List Req) : Prop :=
  (∀ r, r ∈ rs → r.hex.length = 32) ∧ rs.Pairwise (fun a b => a.hex ≠ b.hex)

/-- **Names are pairwise distinct over any history of requests** — sequential or interleaved, on
one or many engines — as long as the uuids are fresh. -/
theorem names_distinct (rs : List Req) (h : FreshUuids rs) :
    (rs.map (fun r => formatName r.pfx r.counter r.hex)).Pairwise (· ≠ ·) := by
  rw [List.pairwise_map]
  refine h.2.imp_of_mem ?_
  intro a b ha hb hne
  exact names_differ_of_uuids_differ _ _ _ _ _ _ (by rw [h.1 a ha, h.1 b hb]) hne

/-- The counter alone does NOT make names unique: a two-thread interleaving in which both
threads read the counter before either increments it yields equal counter fields.  (So the
uuid suffix is what carries the property; a change that drops it is a violation.) -/
theorem counter_alone_not_unique :
    let t (h : String) : Thread := { pfx := "leaf".toList, hexes := [h.toList] }
    let w := run { threads := [t "a", t "b"] } [0, 1, 0, 1, 0, 1]
    w.names = ["leaf_0000_a".toList, "leaf_0000_b".toList] := by
  decide

/-- In the same racy history the real format (with distinct uuids) still yields distinct names. -/
example :
    let t (h : String) : Thread := { pfx := "leaf".toList, hexes := [h.toList] }
    let w := run { threads := [t "0123456789abcdef0123456789abcdef", t "fedcba9876543210fedcba9876543210"] }
      [0, 1, 0, 1, 0, 1]
    w.names.Pairwise (· ≠ ·) := by
  decide

/-- Tie to the source: the f-string in `get_relation_name` (re-read from /repo on every run) is
prefix, '_', zero-padded counter, '_', 32-hex uuid; the counter is incremented after formatting. -/
theorem bridge_name_format : Gen.nameFormat = modelFormat ∧
    Gen.nameSteps = ["format", "increment", "return"] ∧ Gen.nameIncrement = 1 :=
  ⟨Bridge.nameFormat_eq, Bridge.nameSteps_eq.1, Bridge.nameSteps_eq.2⟩

/-- Non-vacuity of `FreshUuids`. -/
example : FreshUuids [⟨"leaf".toList, 0, "0123456789abcdef0123456789abcdef".toList⟩,
                      ⟨"leaf".toList, 0, "fedcba9876543210fedcba9876543210".toList⟩] := by
  refine ⟨?_, ?_⟩
  · intro r hr
    simp at hr
    rcases hr with rfl | rfl <;> decide
  · simp

end DafRel.Props.C19
