/-
Property C14 — every reachable tree is engine-consistent and structurally well-formed.

Claimed at proof level, partial.  Machine-checked:
  * `_finish_apply` (with all its merging and elision) preserves `Rel.EngineOK` and `Rel.WF`;
  * every tree built by an iteration-engine construction history is `WF` and `EngineOK`
    (`history_trees_wellformed`);
  * every tree built by a construction history inside ONE SQL engine - unary operations, chains, joins with
    automatic common columns, materializations - is `WF`, lives in that engine and is a coherent Select tree
    (`sql_history_trees_wellformed`, from the C17 induction);
  * a successful `Join._begin_apply` resolves common columns that both operands have, and in the
    automatic case they are key columns (`join_common_columns_resolved`);
  * a transfer node created by `transferred_to` never connects an engine to itself
    (`transfer_never_to_same_engine`), also when `Engine.transfer` is given a payload
    (`transfer_with_payload_never_to_same_engine`, `transfer_with_payload_to_own_engine_raises`);
  * the documented no-op calls return the relation itself in an iteration engine
    (`noop_calls_return_self`), and ill-formed calls raise (`Props/C20`);
  * a unary operation applied with ANY combination of preferred_engine / backtrack / transfer / require options to an
    iteration-engine tree returns a well-formed relation in the target's engine or (transfer only) the preferred one
    (`apply_with_options_wellformed`, from the back-tracking induction of C03);
  * inside the SQL engine, a unary operation applied to any raw SQL tree, and conforming one, return a
    well-formed relation in the same engine (`sql_apply_wellformed`, `sql_conform_wellformed`);
  * the tree `Processor.process` returns for a multi-engine tree whose operations run in iteration engines is `WF`,
    executable (`Rel.IterOKs`: operands of a chain share an engine, a transfer leads from an iteration engine or
    holds its payload) and has the engine of the input (`processed_trees_wellformed`).
Not proved (validated by walking every tree the real library returns): `EngineOK` of the nodes INSIDE SQL-engine trees
(expression support per node), back-tracking of joins with options other than the defaults (`transfer=True`, an explicit
preferred engine; the default call is `join_with_backtracking_wellformed`), trees processed through a SQL engine.
-/
import DafRel.Lemmas.Build
import DafRel.Lemmas.ConformSound
import DafRel.Lemmas.JoinCommon
import DafRel.Lemmas.SqlHistory
import DafRel.Lemmas.ProcMulti
import DafRel.Lemmas.Backtrack
import DafRel.Bridge.RelOps
import DafRel.Bridge.JoinOps
import DafRel.Lemmas.BacktrackJoin

namespace DafRel.Props.C14

open DafRel

theorem simplify_notIdentity (new up s : UOp) (h : new.simplify up = .ok (.replace s))
    (_ : new.isIdentity = false) (_ : True) : s.isIdentity = false := by
  unfold UOp.simplify at h
  cases new with
  | identity => simp at h
  | dedup => simp at h
  | «calc» _ _ => simp at h
  | slice a b =>
    simp only at h
    split at h
    · simp at h
    · cases up <;> simp only [Except.map] at h <;> try (cases h)
      rename_i s0 e0
      obtain ⟨x, y, hxy⟩ : ∃ x y, UOp.sliceThen s0 e0 a b = .ok (.slice x y) := ⟨_, _, sliceThen_eq s0 e0 a b⟩
      rw [hxy] at h
      injection h with h; injection h with h; subst h
      rfl
  | sort ts =>
    simp only at h
    split at h
    · simp at h
    · cases up <;> try (simp at h)
      subst h; rfl
  | sel p =>
    cases up <;> try (simp at h)
    subst h; rfl
  | proj c =>
    cases up <;> try (simp at h)
    · split at h
      · cases h
      · injection h with h; injection h with h; subst h; rfl
    · subst h; rfl

/-- `_finish_apply` keeps trees engine-consistent: whatever it merges or elides, every node it
creates is a concrete operation whose expressions the node's engine supports. -/
theorem finishApply_engineOK (t : Rel) (op : UOp) (res : Res) (ht : t.EngineOK)
    (hop : op.isIdentity = false) (h : op.finishApply t = .ok res) : (res.get t).EngineOK :=
  finishApply_pres Rel.EngineOK (fun o => o.isIdentity = false) (fun _ => True)
    (fun up t c hp => by simp only [Rel.EngineOK] at hp; exact ⟨hp.1, trivial⟩)
    (fun op t c hp hq hs => by simp only [Rel.EngineOK]; exact ⟨hp, hq, hs⟩)
    (fun new up s hs hn _ => simplify_notIdentity new up s hs hn trivial) t op res ht hop h

theorem finishApply_identity_same (t : Rel) : UOp.identity.finishApply t = .ok .same :=
  finishApply_identity t

/-- Engine consistency of everything an iteration-engine history builds. -/
theorem history_engineOK (σ : Leaves) (st : Store) (eng : Engine) (hk : eng.kind = .iter) :
    (b : Build) → (r : Rel) → b.ok σ → b.tree st eng = .ok r → r.EngineOK
  | .leaf .., r, _, h => by
    simp only [Build.tree] at h; injection h with h; subst h; trivial
  | .op o b, r, hok, h => by
    simp only [Build.tree] at h
    simp only [Build.ok] at hok
    cases hb : Build.tree st eng b with
    | error e => simp [hb] at h
    | ok t =>
      simp only [hb] at h
      have ih := history_engineOK σ st eng hk b t hok.1 hb
      have inv := build_invariant σ st eng hk b t hok.1 hb
      have hkt : t.engine.kind = .iter := by rw [inv.engine]; exact hk
      rw [defaultFuel_eq, applyOp_iter st 99998 o t hkt] at h
      cases hbeg : o.beginApply t none with
      | error e => simp [hbeg] at h
      | ok x =>
        obtain ⟨o', e⟩ := x
        simp only [hbeg] at h
        cases hfin : o'.finishApply t with
        | error e => simp [hfin] at h
        | ok res =>
          simp only [hfin] at h
          injection h with h; subst h
          by_cases hid : o'.isIdentity = true
          · have : o' = .identity := by cases o' <;> simp [UOp.isIdentity] at hid ⊢
            subst this
            rw [finishApply_identity] at hfin
            injection hfin with hfin; subst hfin
            exact ih
          · exact finishApply_engineOK t o' res ih (by simpa using hid) hfin
  | .chain a b, r, hok, h => by
    simp only [Build.tree] at h
    simp only [Build.ok] at hok
    cases ha : Build.tree st eng a with
    | error e => simp [ha] at h
    | ok ta =>
      cases hb : Build.tree st eng b with
      | error e => simp [ha, hb] at h
      | ok tb =>
        simp only [ha, hb] at h
        have iha := history_engineOK σ st eng hk a ta hok.1 ha
        have ihb := history_engineOK σ st eng hk b tb hok.2 hb
        have inva := build_invariant σ st eng hk a ta hok.1 ha
        have invb := build_invariant σ st eng hk b tb hok.2 hb
        have hfuel : defaultFuel = 99999 + 1 := rfl
        rw [hfuel, binaryApply] at h
        simp only [chainBeginApply, inva.engine, invb.engine, bne_self_eq_false, Bool.false_eq_true,
          if_false, hk] at h
        by_cases hc : ta.columns.seteq tb.columns = true
        · simp [hc, bind, Except.bind, binaryFinishApply] at h
          subst h
          exact ⟨iha, ihb, inva.engine.trans invb.engine.symm, trivial⟩
        · simp [hc, bind, Except.bind] at h
  | .mat oid name b, r, hok, h => by
    simp only [Build.tree] at h
    simp only [Build.ok] at hok
    cases hb : Build.tree st eng b with
    | error e => simp [hb] at h
    | ok t =>
      simp only [hb] at h
      have ih := history_engineOK σ st eng hk b t hok hb
      have inv := build_invariant σ st eng hk b t hok hb
      have hkt : t.engine.kind = .iter := by rw [inv.engine]; exact hk
      have hfuel : defaultFuel = 99999 + 1 := rfl
      rw [hfuel, materialize] at h
      simp only [hkt] at h
      by_cases hm : matSimplify t = true
      · simp only [hm, if_true] at h
        injection h with h; subst h; exact ih
      · simp only [hm] at h
        injection h with h; subst h; exact ih

/-- Every tree an iteration-engine history builds is structurally well-formed and
engine-consistent. -/
theorem history_trees_wellformed (σ : Leaves) (st : Store) (eng : Engine) (hk : eng.kind = .iter)
    (b : Build) (r : Rel) (hok : b.ok σ) (hb : b.tree st eng = .ok r) :
    r.WF ∧ r.EngineOK ∧ r.engine = eng :=
  let inv := build_invariant σ st eng hk b r hok hb
  ⟨inv.wf, history_engineOK σ st eng hk b r hok hb, inv.engine⟩

/-- Automatic resolution of a join's common columns: key columns that both operands have. -/
theorem join_common_columns_resolved (j : JoinOp) (lcols rcols common : Cols) (hr : j.resolved = false)
    (h : j.appliedCommonColumns lcols rcols = .ok common) :
    (∀ t, t ∈ common → t ∈ lcols ∧ t ∈ rcols ∧ t.isKey = true) ∧ j.minCols.subset common = true :=
  appliedCommonColumns_resolved j lcols rcols common hr h

/-- A transfer node created by `transferred_to` between iteration engines never connects an
engine to itself. -/
theorem transfer_never_to_same_engine (st : Store) (fuel : Nat) (dest : Engine) (t : Rel) (oid : Nat)
    (d : Engine) (u : Rel) (hd : dest.kind = .iter) (hk : t.engine.kind = .iter)
    (hs : transferSimplify dest t = none)
    (h : transferTo st (fuel+2) dest t = .ok (.new (.transfer oid d u))) : d ≠ u.engine := by
  rw [transferTo] at h
  simp only [hd, bind, Except.bind, pure, Except.pure, hs] at h
  by_cases he : (t.engine == dest) = true
  · simp [he] at h
  · simp [he, conformIn, hk] at h
    obtain ⟨_, h2, h3⟩ := h
    subst h2; subst h3
    intro heq
    exact he (by simp [Res.get, heq])

/-- `Engine.transfer(target, payload)` (an iteration engine as destination; any target whose simplified form lives in
an iteration engine): whatever the call returns is a NEW Transfer node whose source lives in ANOTHER engine - a call
that would connect an engine to itself raises instead (`EngineError`). -/
theorem transfer_with_payload_never_to_same_engine (st : Store) (fuel : Nat) (dest : Engine) (t : Rel)
    (hd : dest.kind = .iter) (hk : ((transferSimplify dest t).getD t).engine.kind = .iter) (r : Res)
    (h : transferWithPayload st (fuel+2) dest t = .ok r) :
    ∃ u, r = .new (.transfer 0 dest u) ∧ dest ≠ u.engine := by
  unfold transferWithPayload at h
  by_cases he : (((transferSimplify dest t).getD t).engine == dest) = true
  · simp [he] at h
  · simp only [he, Bool.false_eq_true, if_false] at h
    rw [transferTo] at h
    cases hs : transferSimplify dest t with
    | none =>
      simp only [hs, Option.getD_none] at he hk
      simp [hd, bind, Except.bind, pure, Except.pure, hs, he, conformIn, hk] at h
      refine ⟨t, h.symm, ?_⟩
      intro heq
      exact he (by simp [heq])
    | some s =>
      simp only [hs, Option.getD_some] at he hk
      simp [hd, bind, Except.bind, pure, Except.pure, hs, he, conformIn, hk] at h
      refine ⟨s, h.symm, ?_⟩
      intro heq
      exact he (by simp [heq])

/-- ... and it does raise whenever the (simplified) target already lives in the destination. -/
theorem transfer_with_payload_to_own_engine_raises (st : Store) (fuel : Nat) (dest : Engine) (t : Rel)
    (he : ((transferSimplify dest t).getD t).engine = dest) :
    transferWithPayload st fuel dest t = .error .engine := by
  simp [transferWithPayload, he]

/-- The documented no-op calls return the relation itself (iteration engine): projection onto all
columns, empty sort, whole-range slice, trivially-true selection. -/
theorem noop_calls_return_self (st : Store) (fuel : Nat) (op : UOp) (t : Rel) (hk : t.engine.kind = .iter)
    (hn : op.noopOn t.columns = true) (hnotcalc : op.isDedup = false) :
    applyOp st (fuel+2) (.u op) t {} = .ok .same := by
  rw [applyOp_iter st fuel op t hk]
  cases op with
  | identity => simp [UOp.beginApply, finishApply_identity]
  | dedup => simp [UOp.isDedup] at hnotcalc
  | «calc» _ _ => simp [UOp.noopOn] at hn
  | slice a b =>
    simp only [UOp.noopOn] at hn
    simp [UOp.beginApply, hn, finishApply_identity]
  | sort ts =>
    simp only [UOp.noopOn] at hn
    simp [UOp.beginApply, hn, finishApply_identity]
  | sel p =>
    simp only [UOp.noopOn] at hn
    simp [UOp.beginApply, hn, finishApply_identity]
  | proj c =>
    simp only [UOp.noopOn] at hn
    simp [UOp.beginApply, hn, finishApply_identity]

theorem sql_apply_wellformed (σ : Leaves) (st : Store) (fuel : Nat) (op : UOp) (t : Rel) (res : Res)
    (hwf : t.WF) (htr : t.Truthful σ) (hraw : t.RawSql) (h : applyOp st fuel (.u op) t {} = .ok res) :
    (res.get t).WF ∧ (res.get t).engine = t.engine :=
  let F := ((treeBuild_sound σ st fuel).apply op t res (raw_good σ t hwf htr hraw) h).2.1
  ⟨F.wf, F.engine⟩

theorem sql_conform_wellformed (σ : Leaves) (st : Store) (fuel : Nat) (t : Rel) (res : Res)
    (hwf : t.WF) (htr : t.Truthful σ) (hraw : t.RawSql) (h : conform st fuel t = .ok res) :
    (res.get t).WF ∧ (res.get t).engine = t.engine ∧ (res.get t).isSelect = true :=
  let C := ((treeBuild_sound σ st fuel).conform t res (raw_good σ t hwf htr hraw) h).2
  ⟨C.ok.wf, C.engine, C.ok.isSel⟩

theorem sql_history_trees_wellformed (σ : Leaves) (st : Store) (eng : Engine) (hk : eng.kind = .sql)
    (b : SqlBuild) (r : Rel) (hok : b.ok σ) (h : b.tree st eng = .ok r) :
    r.WF ∧ r.engine = eng ∧ (∀ c, c ∈ r.columns ↔ c ∈ b.cols) :=
  let B := sql_build_invariant σ st eng hk b r hok h
  ⟨B.good.wf, B.engine, B.cols⟩

theorem apply_with_options_wellformed (σ : Leaves) (st : Store) (fuel : Nat) (o : UOp) (t : Rel) (opts : Opts)
    (res : Res) (hkt : t.engine.kind = .iter) (hpk : ∀ p, opts.pref = some p → p.kind = .iter)
    (hwf : t.WF) (htr : t.Truthful σ) (hnd : o.isProj = true → t.spineNoDedup)
    (h : applyOp st (fuel+1) (.u o) t opts = .ok res) :
    (res.get t).WF ∧ ((res.get t).engine = t.engine ∨ (opts.transfer = true ∧ opts.pref = some (res.get t).engine)) :=
  let A := applyOp_sound σ st fuel o t opts res hkt hpk hwf htr hnd h
  ⟨A.wf, A.engine⟩

/-- **A back-tracked join returns a well-formed tree** (`relation.join(fixed)`, default options, target in an
iteration engine, fixed relation in a database - from the C03 induction `backtrack_pj_sound`): whenever the call
succeeds the result is well-formed, lives in the target's engine, and its columns are the target's plus the fixed
relation's. -/
theorem join_with_backtracking_wellformed (σ : Leaves) (st : Store) (fuel : Nat) (p : PJoin) (t : Rel) (o : Opts)
    (hpref : o.pref = none ∨ o.pref = some p.fixed.engine) (hbt : o.backtrack = true) (htr : o.transfer = false)
    (hkt : t.engine.kind = .iter) (hks : p.fixed.engine.kind = .sql)
    (gF : Good NodeInv.triv σ p.fixed)
    (hfix0 : p.join.resolved = true → p.join.minCols.subset p.fixed.columns = true)
    (hwf : t.WF) (htrt : t.Truthful σ) (hpo : t.prefTargetsGood NodeInv.triv σ p.fixed.engine)
    (hnp : t.spineNoPayload st)
    (res : Res) (h : applyOp st fuel (.pj p) t o = .ok res) :
    (res.get t).WF ∧ (res.get t).engine = t.engine ∧
      (∀ x, x ∈ (res.get t).columns ↔ x ∈ p.fixed.columns ∨ x ∈ t.columns) := by
  obtain ⟨p', hb, B⟩ := applyOp_pj_backtracked σ st fuel p t o hpref hbt htr hkt hks gF hfix0 hwf htrt hpo hnp res h
  obtain ⟨f1, _⟩ := pjBeginApply_ok p t o.pref p' _ hfix0 hb
  refine ⟨B.wf, B.engine, fun x => ?_⟩
  rw [B.cols x, PJoin.mem_appliedColumns, f1]

/-- ... and for EVERY combination of `backtrack` / `transfer` / `require_preferred_engine`: the result is well-formed,
lives in the target's engine or (only with `transfer=True`) in the fixed relation's database, and its columns are the two
operands'. -/
theorem join_with_every_option_wellformed (σ : Leaves) (st : Store) (fuel : Nat) (p : PJoin) (t : Rel) (o : Opts)
    (hpref : o.pref = none ∨ o.pref = some p.fixed.engine)
    (hkt : t.engine.kind = .iter) (hks : p.fixed.engine.kind = .sql)
    (gF : Good NodeInv.triv σ p.fixed)
    (hfix0 : p.join.resolved = true → p.join.minCols.subset p.fixed.columns = true)
    (hwf : t.WF) (htrt : t.Truthful σ) (hpo : t.prefTargetsGood NodeInv.triv σ p.fixed.engine)
    (hnp : t.spineNoPayload st) (hts : o.transfer = true → transferSimplify p.fixed.engine t = none)
    (res : Res) (h : applyOp st fuel (.pj p) t o = .ok res) :
    (res.get t).WF ∧
      ((res.get t).engine = t.engine ∨ (o.transfer = true ∧ (res.get t).engine = p.fixed.engine)) ∧
      (∀ x, x ∈ (res.get t).columns ↔ x ∈ p.fixed.columns ∨ x ∈ t.columns) := by
  obtain ⟨p', hb, ⟨_, B⟩ | ⟨ht, J⟩⟩ :=
    applyOp_pj_all_options σ st fuel p t o hpref hkt hks gF hfix0 hwf htrt hpo hnp hts res h
  · obtain ⟨f1, _⟩ := pjBeginApply_ok p t o.pref p' _ hfix0 hb
    refine ⟨B.wf, Or.inl B.engine, fun x => ?_⟩
    rw [B.cols x, PJoin.mem_appliedColumns, f1]
  · obtain ⟨f1, _⟩ := pjBeginApply_ok p t o.pref p' _ hfix0 hb
    refine ⟨J.wf, Or.inr ⟨ht, by rw [J.engine, f1]⟩, fun x => ?_⟩
    rw [J.cols x, PJoin.mem_appliedColumns, f1]

theorem processed_trees_wellformed (σ : Leaves) (sq0 : SqlState) (h0 : sq0.payload 0 = none) (t : Rel) (fuel : Nat)
    (matAs : Option String) (s : ProcState) (reg : Nat → Option (List Row)) (hm : t.MultiIter)
    (hsql : t.SqlSrcOK σ sq0) (T : TreeInv σ reg sq0 t s) (hf : t.size ≤ fuel)
    (res : Res) (b : Bool) (s' : ProcState) (h : (processRec σ fuel t matAs).run.run s = (.ok (res, b), s')) :
    (res.get t).WF ∧ (res.get t).IterOKs s'.st ∧ (res.get t).engine = t.engine := by
  obtain ⟨_, _, P⟩ := process_multi_iter σ h0 t fuel matAs s reg hm hsql T hf res b s' h
  exact ⟨P.inv.wf, P.exec, P.engine⟩

/-- Tie to the source: `Join._begin_apply` (which resolves a join's common columns - `join_common_columns_resolved` -
and checks them against both operands) is, as translated from the current Python source on this run, the model's. -/
theorem bridge_join_begin_apply (j : JoinOp) (l r : Rel) : Gen.Join_begin_apply j l r = joinBeginApply j l r :=
  Bridge.Join_begin_apply_eq j l r

/-- Tie to the source: `Join.applied_common_columns` - the automatic resolution of a join's common columns (KEY columns
both operands have, capped by `max_columns`, containing `min_columns`) that `join_common_columns_resolved` is about - is,
as translated from the current Python source on this run, the model's. -/
theorem bridge_join_applied_common_columns (j : JoinOp) (lcols rcols : Cols) :
    Gen.Join_applied_common_columns j lcols rcols = j.appliedCommonColumns lcols rcols :=
  Bridge.Join_applied_common_columns_eq j lcols rcols

/-- Tie to the source: `Join._finish_apply` (join-identity short-cuts, the refusal of operands in different engines and
of an unsupported predicate), as translated from the current Python source on this run, is the model's. -/
theorem bridge_join_finish_apply (j : JoinOp) (l r : Rel) :
    Gen.Join_finish_apply j l r = binaryFinishApply (.join j) l r :=
  Bridge.Join_finish_apply_eq j l r

end DafRel.Props.C14
