/-
Property C11 — the SQL engine honours sort order for slices and for trailing sorts, or refuses.

Claimed at translation_validation level: that the database returns the rows of a query in its ORDER BY
order and applies OFFSET/LIMIT to that order is a fact about the database, modelled in `Model/Sql.lean`
and validated on SQLite (both physical scan orders), not proved.
SUPPORTING theorems (machine-checked) about the tree the engine builds, in the reference semantics
where rows are ordered lists:
  * `slice_returns_the_window`: a slice applied inside the SQL engine to any raw SQL tree yields exactly
    rows [start, stop) of the target's rows *in the target's order* - whether it was merged into the
    Select's recorded slice, or the target was sorted, projected or deduplicated before;
  * `sort_is_applied_on_top`: a sort applied inside the SQL engine yields the target's rows stably sorted -
    merged with a recorded sort, nested above a recorded slice, or wrapped around a UNION;
  * `binary_refuses_unsliced_sort`, `materialize_refuses_unsliced_sort`: where a sort without a slice
    would be buried under a join, a chain or a materialization, the engine raises
    `RelationalAlgebraError` instead of dropping it;
  * `emitted_select_honours_sort_and_slice`: the query emitted for a coherent Select returns, under the list
    semantics of SQL, the skip target's rows stably sorted by the recorded terms, projected, deduplicated and
    THEN cut to the recorded window - ORDER BY and OFFSET/LIMIT of one query level, in that order;
  * `sorted_slice_executes_in_order`: sort then slice through the factories, conform, compile, evaluate:
    the database returns rows [start, stop) of the stably sorted rows, in that order.
-/
import DafRel.Lemmas.ConformSound
import DafRel.Lemmas.SqlRunSound

namespace DafRel.Props.C11

variable {I : NodeInv}

open DafRel

theorem slice_returns_the_window (σ : Leaves) (st : Store) (fuel : Nat) (a : Nat) (b : Option Nat) (t : Rel)
    (res : Res) (hwf : t.WF) (htr : t.Truthful σ) (hraw : t.RawSql)
    (h : applyOp st fuel (.u (.slice a b)) t {} = .ok res) :
    sem σ (res.get t) = sliceList a b (sem σ t) :=
  ((treeBuild_sound σ st fuel).apply _ t res (raw_good σ t hwf htr hraw) h).2.1.sem_eq

theorem sort_is_applied_on_top (σ : Leaves) (st : Store) (fuel : Nat) (ts : List SortTerm) (t : Rel)
    (res : Res) (hwf : t.WF) (htr : t.Truthful σ) (hraw : t.RawSql)
    (h : applyOp st fuel (.u (.sort ts)) t {} = .ok res) :
    sem σ (res.get t) = isort (lexLe ts) (sem σ t) :=
  ((treeBuild_sound σ st fuel).apply _ t res (raw_good σ t hwf htr hraw) h).2.1.sem_eq

theorem binary_refuses_unsliced_sort (st : Store) (fuel : Nat) (op : BOp) (l r : Rel)
    (h : (l.slots.hasSort && !l.slots.hasSlice) = true ∨ (r.slots.hasSort && !r.slots.hasSlice) = true) :
    appendBinarySel st (fuel+1) op l r = .error .relAlg := by
  cases op <;>
  (rw [appendBinarySel]
   by_cases h1 : (l.slots.hasSort && !l.slots.hasSlice) = true
   · simp only [h1, if_true]
   · simp only [h1, Bool.false_eq_true, if_false]
     rcases h with h | h
     · exact absurd h h1
     · simp only [h, if_true])

theorem materialize_refuses_unsliced_sort (st : Store) (fuel : Nat) (t : Rel) (name : String) (ct : Res)
    (hk : t.engine.kind = .sql) (hc : conform st fuel t = .ok ct)
    (h : ((ct.get t).slots.hasSort && !(ct.get t).slots.hasSlice) = true) :
    materialize st (fuel+1) t name = .error .relAlg := by
  rw [materialize]
  simp only [hk, hc, bind, Except.bind, h, if_true]
  rfl

theorem emitted_select_honours_sort_and_slice (σ : Leaves) (s : SqlState) (fuel : Nat) (S : Rel) (ctr : Nat)
    (q : Query) (c : Nat) (hg : Good I σ S) (hs : S.isSelect = true) (hrd : S.SqlReady s s.tables σ)
    (h : compileSelect s fuel S ctr = .ok (q, c)) (hdup : q.hasDup = false) :
    (Query.eval s.tables q).rows = S.slots.sem S.skipTo.columns (sem σ S.skipTo) := by
  rw [(compile_sound σ s fuel).select S ctr q c hg hs hrd h hdup]
  exact (hg.selInv hs).1.sem_eq

theorem sorted_slice_executes_in_order (σ : Leaves) (s : SqlState) (st : Store) (f1 f2 : Nat)
    (ts : List SortTerm) (a : Nat) (b : Option Nat) (t : Rel) (r1 r2 : Res) (out : EvalOut) (bb : Bool)
    (hwf : t.WF) (htr : t.Truthful σ) (hraw : t.RawSql)
    (h1 : applyOp st f1 (.u (.sort ts)) t {} = .ok r1)
    (h2 : applyOp st f2 (.u (.slice a b)) (r1.get t) {} = .ok r2)
    (hready : ∀ c, conform st defaultFuel (r2.get (r1.get t)) = .ok c →
      (c.get (r2.get (r1.get t))).structReady s = true ∧ (c.get (r2.get (r1.get t))).Faithful s s.tables σ)
    (hrun : sqlRun s st (r2.get (r1.get t)) = .inr (out, bb)) :
    out.rows = sliceList a b (isort (lexLe ts) (sem σ t)) := by
  obtain ⟨g1, F1, _⟩ := (treeBuild_sound σ st f1).apply _ t r1 (raw_good σ t hwf htr hraw) h1
  obtain ⟨g2, F2, _⟩ := (treeBuild_sound σ st f2).apply _ (r1.get t) r2 g1 h2
  rw [sqlRun_sound_good σ s st _ out bb g2 hready hrun]
  have e2 : sem σ (r2.get (r1.get t)) = sliceList a b (sem σ (r1.get t)) := F2.sem_eq
  have e1 : sem σ (r1.get t) = isort (lexLe ts) (sem σ t) := F1.sem_eq
  rw [e2, e1]

/-- The same with the semantic hypothesis on the INPUT tree (its leaves and markers hold faithful payloads). -/
theorem sorted_slice_executes_in_order_of_faithful_input (σ : Leaves) (s : SqlState) (st : Store) (f1 f2 : Nat)
    (ts : List SortTerm) (a : Nat) (b : Option Nat) (t : Rel) (r1 r2 : Res) (out : EvalOut) (bb : Bool)
    (hwf : t.WF) (htr : t.Truthful σ) (hraw : t.RawSql) (hF : t.Faithful s s.tables σ) (h0 : s.payload 0 = none)
    (h1 : applyOp st f1 (.u (.sort ts)) t {} = .ok r1)
    (h2 : applyOp st f2 (.u (.slice a b)) (r1.get t) {} = .ok r2)
    (hready : ∀ c, conform st defaultFuel (r2.get (r1.get t)) = .ok c →
      (c.get (r2.get (r1.get t))).structReady s = true)
    (hrun : sqlRun s st (r2.get (r1.get t)) = .inr (out, bb)) :
    out.rows = sliceList a b (isort (lexLe ts) (sem σ t)) := by
  have g0 : Good (payInv s s.tables σ h0) σ t :=
    raw_goodI σ t hwf htr hraw (atomsOK_of_faithful s s.tables σ h0 t hraw hF)
  obtain ⟨g1, F1, _⟩ := (treeBuild_sound σ st f1).apply _ t r1 g0 h1
  obtain ⟨g2, F2, _⟩ := (treeBuild_sound σ st f2).apply _ (r1.get t) r2 g1 h2
  rw [sqlRun_sound_good σ s st _ out bb g2 (fun c hc => ⟨hready c hc,
    ((treeBuild_sound σ st defaultFuel).conform _ c g2 hc).1.faithful⟩) hrun]
  have e2 : sem σ (r2.get (r1.get t)) = sliceList a b (sem σ (r1.get t)) := F2.sem_eq
  have e1 : sem σ (r1.get t) = isort (lexLe ts) (sem σ t) := F1.sem_eq
  rw [e2, e1]

/-! non-vacuity of the two statements above: a two-row table, sorted descending, first row -/
private def tx : Tag := ⟨"x", true⟩
private def eS : Engine := ⟨0, .sql⟩
private def rowsX : List Row := [fun t => if t = tx then some 1 else none, fun t => if t = tx then some 2 else none]
private def sX : SqlState := { payloads := [(1, tablePayload "T" 1 0 [tx])], tables := [rowsX] }
private def leafX : Rel := .leaf 1 eS [tx] "T" 0 none true 0
private def sortedX : Rel := ((applyOp [] defaultFuel (.u (.sort [⟨.ref tx, false⟩])) leafX {}).toOption.map (·.get leafX)).getD leafX
private def slicedX : Rel := ((applyOp [] defaultFuel (.u (.slice 0 (some 1))) sortedX {}).toOption.map (·.get sortedX)).getD sortedX
example : (slicedX.isSelect, slicedX.slots.hasSort, slicedX.slots.hasSlice) = (true, true, true) := by decide +kernel
example : (match sqlRun sX [] slicedX with
    | .inr (out, _) => out.rows.map (fun r => r tx)
    | .inl _ => []) = [some 2] := by decide +kernel
example : ((conform [] defaultFuel slicedX).toOption.map (fun c => (c.get slicedX).structReady sX)) = some true := by
  decide +kernel

end DafRel.Props.C11
