/-
Property C11 — the SQL engine honours sort order for slices and for trailing sorts, or refuses.

Claimed at translation_validation level: that the database returns the rows of a query in its ORDER BY
order and applies OFFSET/LIMIT to that order is a fact about the database, modelled in `Model/Sql.lean`
and validated on SQLite (both physical scan orders), not proved.
SUPPORTING theorems (machine-checked) about the tree the engine builds, in the reference semantics
where rows are ordered lists:
  * `slice_returns_the_window`: a slice applied inside the SQL engine to any raw SQL tree yields exactly
    rows [start, stop) of the target's rows *in the target's order* - whether it was merged into the
    Select's recorded slice, or the target was sorted, projected or deduplicated before;
  * `sort_is_applied_on_top`: a sort applied inside the SQL engine yields the target's rows stably sorted -
    merged with a recorded sort, nested above a recorded slice, or wrapped around a UNION;
  * `binary_refuses_unsliced_sort`, `materialize_refuses_unsliced_sort`: where a sort without a slice
    would be buried under a join, a chain or a materialization, the engine raises
    `RelationalAlgebraError` instead of dropping it.
-/
import DafRel.Lemmas.ConformSound

namespace DafRel.Props.C11

open DafRel

theorem slice_returns_the_window (σ : Leaves) (st : Store) (fuel : Nat) (a : Nat) (b : Option Nat) (t : Rel)
    (res : Res) (hwf : t.WF) (htr : t.Truthful σ) (hraw : t.RawSql)
    (h : applyOp st fuel (.u (.slice a b)) t {} = .ok res) :
    sem σ (res.get t) = sliceList a b (sem σ t) :=
  ((treeBuild_sound σ st fuel).apply _ t res (raw_good σ t hwf htr hraw) h).2.1.sem_eq

theorem sort_is_applied_on_top (σ : Leaves) (st : Store) (fuel : Nat) (ts : List SortTerm) (t : Rel)
    (res : Res) (hwf : t.WF) (htr : t.Truthful σ) (hraw : t.RawSql)
    (h : applyOp st fuel (.u (.sort ts)) t {} = .ok res) :
    sem σ (res.get t) = isort (lexLe ts) (sem σ t) :=
  ((treeBuild_sound σ st fuel).apply _ t res (raw_good σ t hwf htr hraw) h).2.1.sem_eq

theorem binary_refuses_unsliced_sort (st : Store) (fuel : Nat) (op : BOp) (l r : Rel)
    (h : (l.slots.hasSort && !l.slots.hasSlice) = true ∨ (r.slots.hasSort && !r.slots.hasSlice) = true) :
    appendBinarySel st (fuel+1) op l r = .error .relAlg := by
  cases op <;>
  (rw [appendBinarySel]
   by_cases h1 : (l.slots.hasSort && !l.slots.hasSlice) = true
   · simp only [h1, if_true]
   · simp only [h1, Bool.false_eq_true, if_false]
     rcases h with h | h
     · exact absurd h h1
     · simp only [h, if_true])

theorem materialize_refuses_unsliced_sort (st : Store) (fuel : Nat) (t : Rel) (name : String) (ct : Res)
    (hk : t.engine.kind = .sql) (hc : conform st fuel t = .ok ct)
    (h : ((ct.get t).slots.hasSort && !(ct.get t).slots.hasSlice) = true) :
    materialize st (fuel+1) t name = .error .relAlg := by
  rw [materialize]
  simp only [hk, hc, bind, Except.bind, h, if_true]
  rfl

end DafRel.Props.C11
