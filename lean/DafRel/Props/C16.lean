/-
Property C16 — Diagnostics never dooms a non-empty relation; exact with a truthful executor.

For ALL relation trees (any depth, all operations incl. join/chain, doomed/identity leaves,
trivially false predicates, zero-limit slices) over truthful leaves, with and without executor.
-/
import DafRel.Model.Diagnostics
import DafRel.Lemmas.Metadata
import DafRel.Lemmas.Trivial
import DafRel.Bridge.Tables

namespace DafRel.Props.C16

open DafRel Diagnostics

/-- An executor that never answers "no rows" for a relation that has rows. -/
def SoundExecutor (σ : Leaves) (ex : Option (Rel → Bool)) : Prop :=
  ∀ f, ex = some f → ∀ r, f r = false → sem σ r = []

/-- An executor that answers exactly whether the relation has rows. -/
def TruthfulExecutor (σ : Leaves) (f : Rel → Bool) : Prop :=
  ∀ r, f r = !(sem σ r).isEmpty

theorem op_sem_nil (op : UOp) (c : Cols) : op.sem c [] = [] := by
  cases op <;> simp [UOp.sem, firstOcc, firstOccAux, sliceList, isort]
  rename_i s e
  cases e <;> simp [sliceList]

theorem joinRows_nil_left (c : Cols) (p : Pred) (rs : List Row) : joinRows c p [] rs = [] := by
  simp [joinRows]

theorem joinRows_nil_right (c : Cols) (p : Pred) (ls : List Row) : joinRows c p ls [] = [] := by
  simp [joinRows]

theorem joinRows_false (c : Cols) (p : Pred) (ls rs : List Row) (h : ∀ r, p.val r = false) :
    joinRows c p ls rs = [] := by
  simp [joinRows, h]

/-- The static check `relation.max_rows == 0 and operation.applied_max_rows(target) != 0` can
never fire: both sides are the same number. -/
theorem static_check_dead (a : Option Nat) : (a == some 0 && a != some 0) = false := by
  cases h : (a == some 0) <;> simp_all [bne]

/-- The two operation-specific static verdicts of `Diagnostics.run`. -/
def special (op : UOp) : Bool :=
  match op with
  | .slice s e => UOp.sliceLimit s e == some 0
  | .sel p => p.asTrivial == some false
  | _ => false

/-- Shape of `run` on an operation node (the never-firing static check removed). -/
theorem run_unary (ex : Option (Rel → Bool)) (op : UOp) (t : Rel) (c : Cols) :
    run ex (.unary op t c) =
      if (run ex t).isDoomed then run ex t
      else if special op then ⟨true, (run ex t).messages + 1⟩
      else match ex with
        | some f =>
          if !op.isEmptyInvariant && !(f (.unary op t c)) then ⟨true, (run ex t).messages + 1⟩ else run ex t
        | none => run ex t := by
  have hdead : ((Rel.unary op t c).maxRows == some 0 &&
      op.appliedMaxRows t.columns t.maxRows != some 0) = false := by
    simp only [Rel.maxRows]; exact static_check_dead _
  cases op <;> simp only [run, hdead, if_false, Bool.false_eq_true, special] <;> cases ex <;> rfl

theorem special_sound (_σ : Leaves) (op : UOp) (c : Cols) (l : List Row) (h : special op = true) :
    op.sem c l = [] := by
  cases op with
  | slice s e =>
    simp only [special, UOp.sliceLimit, beq_iff_eq] at h
    cases e with
    | none => simp at h
    | some e =>
      simp at h
      have : e ≤ s := by omega
      simp only [UOp.sem, sliceList]
      apply List.eq_nil_of_length_eq_zero
      simp
      omega
  | sel p =>
    simp only [special, beq_iff_eq] at h
    simp only [UOp.sem]
    apply List.filter_eq_nil_iff.mpr
    intro r _
    simp [Pred.asTrivial_val r p false h]
  | «calc» _ _ => simp [special] at h
  | dedup => simp [special] at h
  | identity => simp [special] at h
  | proj _ => simp [special] at h
  | sort _ => simp [special] at h

/-- **Soundness.** A relation reported as doomed has no rows — without an executor, or with any
executor that is itself sound. -/
theorem diag_sound (σ : Leaves) (ex : Option (Rel → Bool)) (hex : SoundExecutor σ ex) :
    (t : Rel) → t.WF → t.Truthful σ → (run ex t).isDoomed = true → sem σ t = []
  | .leaf oid e c n mn mx p msgs, hwf, htr, hd => by
    simp only [Rel.Truthful] at htr
    simp only [run] at hd
    split at hd
    · rename_i hmx
      simp only [beq_iff_eq] at hmx
      have := htr.2.2 0 hmx
      simp only [sem]
      exact List.eq_nil_of_length_eq_zero (by omega)
    · cases ex with
      | none => simp at hd
      | some f =>
        simp only at hd
        split at hd
        · rename_i hf
          simp only [Bool.not_eq_true'] at hf
          exact hex f rfl _ hf
        · simp at hd
  | .mat _ _ t, hwf, htr, hd => by
    simp only [run] at hd
    simpa [sem] using diag_sound σ ex hex t hwf htr hd
  | .transfer _ _ t, hwf, htr, hd => by
    simp only [run] at hd
    simpa [sem] using diag_sound σ ex hex t hwf htr hd
  | .select _ _ _ _ _ _ _ _ t, hwf, htr, hd => by
    simp only [run] at hd
    simpa [sem] using diag_sound σ ex hex t hwf htr hd
  | .unary op t c, hwf, htr, hd => by
    simp only [Rel.WF] at hwf
    simp only [Rel.Truthful] at htr
    have ih := diag_sound σ ex hex t hwf.1 htr
    rw [run_unary] at hd
    by_cases hres : (run ex t).isDoomed = true
    · simp only [sem, ih hres, op_sem_nil]
    · simp only [hres, if_false, Bool.false_eq_true] at hd
      by_cases hsp : special op = true
      · simp only [sem]; exact special_sound σ op c _ hsp
      · simp only [hsp, if_false, Bool.false_eq_true] at hd
        cases ex with
        | none => exact absurd hd hres
        | some f =>
          simp only at hd
          by_cases hcond : (!op.isEmptyInvariant && !(f (.unary op t c))) = true
          · simp only [Bool.and_eq_true, Bool.not_eq_true'] at hcond
            exact hex f rfl _ hcond.2
          · simp only [hcond, if_false, Bool.false_eq_true] at hd
            exact absurd hd hres
  | .binary op l r c, hwf, htr, hd => by
    simp only [Rel.WF] at hwf
    simp only [Rel.Truthful] at htr
    have ihl := diag_sound σ ex hex l hwf.1 htr.1
    have ihr := diag_sound σ ex hex r hwf.2.1 htr.2
    simp only [run] at hd
    have tail_sound : ∀ (msgs : Nat),
        ((match ex with
          | some f => if !(f (Rel.binary op l r c)) then (⟨true, msgs + 1⟩ : Diag) else ⟨false, msgs⟩
          | none => ⟨false, msgs⟩).isDoomed = true) → sem σ (Rel.binary op l r c) = [] := by
      intro msgs h
      cases ex with
      | none => simp at h
      | some f =>
        simp only at h
        split at h
        · rename_i hf
          simp only [Bool.not_eq_true'] at hf
          exact hex f rfl _ hf
        · simp at h
    cases op with
    | chain =>
      simp only [Bool.and_eq_true] at hd
      simp [sem, ihl hd.1, ihr hd.2]
    | join j =>
      simp only at hd
      split at hd
      · rename_i hor
        simp only [Bool.or_eq_true] at hor
        rcases hor with h | h
        · simp [sem, ihl h, joinRows_nil_left]
        · simp [sem, ihr h, joinRows_nil_right]
      · split at hd
        · rename_i htriv
          simp only [beq_iff_eq] at htriv
          simp only [sem]
          exact joinRows_false _ _ _ _ (fun row => Pred.asTrivial_val row j.pred false htriv)
        · exact tail_sound _ hd
    | ignoreOne il => exact tail_sound _ hd

/-- Special case of the property's first sentence: no executor at all. -/
theorem diag_sound_no_executor (σ : Leaves) (t : Rel) (hwf : t.WF) (htr : t.Truthful σ)
    (hd : (run none t).isDoomed = true) : sem σ t = [] :=
  diag_sound σ none (by intro f hf; cases hf) t hwf htr hd

theorem msgs_ge (msgs : Nat) : (if (msgs == 0) = true then 1 else msgs) ≥ 1 := by
  by_cases hm : msgs = 0
  · simp [hm]
  · have : (msgs == 0) = false := by simp [hm]
    simp only [this, Bool.false_eq_true, if_false]
    omega

/-- Every doomed verdict carries at least one message. -/
theorem doomed_has_message (ex : Option (Rel → Bool)) :
    (t : Rel) → (run ex t).isDoomed = true → (run ex t).messages ≥ 1
  | .leaf oid e c n mn mx p msgs, hd => by
    simp only [run] at hd ⊢
    by_cases hmx : (mx == some 0) = true
    · simp only [hmx, if_true]; exact msgs_ge msgs
    · simp only [hmx, if_false, Bool.false_eq_true] at hd ⊢
      cases ex with
      | none => simp at hd
      | some f =>
        simp only at hd ⊢
        by_cases hf : (!(f (Rel.leaf oid e c n mn mx p msgs))) = true
        · simp only [hf, if_true]; exact msgs_ge msgs
        · simp [hf] at hd
  | .mat _ _ t, hd => by simp only [run] at hd ⊢; exact doomed_has_message ex t hd
  | .transfer _ _ t, hd => by simp only [run] at hd ⊢; exact doomed_has_message ex t hd
  | .select _ _ _ _ _ _ _ _ t, hd => by simp only [run] at hd ⊢; exact doomed_has_message ex t hd
  | .unary op t c, hd => by
    have ih := doomed_has_message ex t
    rw [run_unary] at hd ⊢
    by_cases hres : (run ex t).isDoomed = true
    · simp only [hres, if_true]; exact ih hres
    · simp only [hres, if_false, Bool.false_eq_true] at hd ⊢
      by_cases hsp : special op = true
      · simp [hsp]
      · simp only [hsp, if_false, Bool.false_eq_true] at hd ⊢
        cases ex with
        | none => exact absurd hd hres
        | some f =>
          simp only at hd ⊢
          by_cases hcond : (!op.isEmptyInvariant && !(f (.unary op t c))) = true
          · simp [hcond]
          · simp only [hcond, if_false, Bool.false_eq_true] at hd
            exact absurd hd hres
  | .binary op l r c, hd => by
    have ihl := doomed_has_message ex l
    have ihr := doomed_has_message ex r
    simp only [run] at hd ⊢
    have tail_msg : ∀ (msgs : Nat),
        ((match ex with
          | some f => if !(f (Rel.binary op l r c)) then (⟨true, msgs + 1⟩ : Diag) else ⟨false, msgs⟩
          | none => ⟨false, msgs⟩).isDoomed = true) →
        (match ex with
          | some f => if !(f (Rel.binary op l r c)) then (⟨true, msgs + 1⟩ : Diag) else ⟨false, msgs⟩
          | none => ⟨false, msgs⟩).messages ≥ 1 := by
      intro msgs h
      cases ex with
      | none => simp at h
      | some f =>
        simp only at h ⊢
        split
        · simp
        · rename_i hf; simp [hf] at h
    cases op with
    | chain =>
      simp only [Bool.and_eq_true] at hd
      have := ihl hd.1
      simp only
      omega
    | join j =>
      simp only at hd ⊢
      split
      · rename_i hor
        simp only [Bool.or_eq_true] at hor
        rcases hor with h | h
        · have := ihl h; simp only; omega
        · have := ihr h; simp only; omega
      · rename_i hor
        simp only [hor, if_false, Bool.false_eq_true] at hd
        split
        · simp
        · rename_i htriv
          simp only [htriv, if_false, Bool.false_eq_true] at hd
          exact tail_msg _ hd
    | ignoreOne il => exact tail_msg _ hd

/-- `is_empty_invariant` operations map non-empty inputs to non-empty outputs (what lets
`Diagnostics` skip the executor for them). -/
theorem emptyInvariant_sound (op : UOp) (c : Cols) (l : List Row) (hinv : op.isEmptyInvariant = true)
    (hne : l ≠ []) : op.sem c l ≠ [] := by
  cases op with
  | «calc» _ _ => simpa [UOp.sem] using hne
  | dedup => exact firstOcc_ne_nil c l hne
  | identity => simpa [UOp.sem] using hne
  | proj _ => simpa [UOp.sem] using hne
  | sel _ => simp [UOp.isEmptyInvariant] at hinv
  | slice _ _ => simp [UOp.isEmptyInvariant] at hinv
  | sort ts =>
    intro h
    have := length_isort (lexLe ts) l
    simp only [UOp.sem] at h
    rw [h] at this
    exact hne (List.eq_nil_of_length_eq_zero this.symm)

/-- **Exactness.** With a truthful executor a relation is reported doomed exactly when it has no
rows (join trees included). -/
theorem diag_exact (σ : Leaves) (f : Rel → Bool) (hf : TruthfulExecutor σ f) :
    (t : Rel) → t.WF → t.Truthful σ → ((run (some f) t).isDoomed = true ↔ sem σ t = [])
  | t, hwf, htr => by
    have hsound : SoundExecutor σ (some f) := by
      intro g hg r hr
      injection hg with hg; subst hg
      rw [hf r] at hr
      simpa using hr
    refine ⟨diag_sound σ (some f) hsound t hwf htr, ?_⟩
    intro hempty
    -- by induction: a non-doomed verdict implies rows
    exact Classical.byContradiction (fun hnd => by
      have := not_doomed_nonempty σ f hf t hwf htr (by simpa using hnd)
      exact this hempty)
where
  not_doomed_nonempty (σ : Leaves) (f : Rel → Bool) (hf : TruthfulExecutor σ f) :
      (t : Rel) → t.WF → t.Truthful σ → (run (some f) t).isDoomed = false → sem σ t ≠ []
    | .leaf oid e c n mn mx p msgs, _, _, hd => by
      simp only [run] at hd
      split at hd
      · simp at hd
      · split at hd
        · simp at hd
        · rename_i hfr
          simp only [Bool.not_eq_true', Bool.not_eq_false] at hfr
          rw [hf] at hfr
          intro h
          rw [h] at hfr
          simp at hfr
    | .mat _ _ t, hwf, htr, hd => by
      simp only [run] at hd
      simpa [sem] using not_doomed_nonempty σ f hf t hwf htr hd
    | .transfer _ _ t, hwf, htr, hd => by
      simp only [run] at hd
      simpa [sem] using not_doomed_nonempty σ f hf t hwf htr hd
    | .select _ _ _ _ _ _ _ _ t, hwf, htr, hd => by
      simp only [run] at hd
      simpa [sem] using not_doomed_nonempty σ f hf t hwf htr hd
    | .unary op t c, hwf, htr, hd => by
      simp only [Rel.WF] at hwf
      simp only [Rel.Truthful] at htr
      have ih := not_doomed_nonempty σ f hf t hwf.1 htr
      rw [run_unary] at hd
      by_cases hres : (run (some f) t).isDoomed = true
      · simp [hres] at hd
      · simp only [hres, if_false, Bool.false_eq_true] at hd
        have hne := ih (by simpa using hres)
        by_cases hsp : special op = true
        · simp [hsp] at hd
        · simp only [hsp, if_false, Bool.false_eq_true] at hd
          by_cases hcond : (!op.isEmptyInvariant && !(f (.unary op t c))) = true
          · simp [hcond] at hd
          · simp only [Bool.and_eq_true, Bool.not_eq_true', not_and, Bool.not_eq_false] at hcond
            by_cases hinv : op.isEmptyInvariant = true
            · simpa [sem] using emptyInvariant_sound op c _ hinv hne
            · have := hcond (by simpa using hinv)
              rw [hf] at this
              intro h
              rw [h] at this
              simp at this
    | .binary op l r c, hwf, htr, hd => by
      simp only [Rel.WF] at hwf
      simp only [Rel.Truthful] at htr
      have ihl := not_doomed_nonempty σ f hf l hwf.1 htr.1
      have ihr := not_doomed_nonempty σ f hf r hwf.2.1 htr.2
      simp only [run] at hd
      have tail : ∀ msgs : Nat,
          (if !(f (Rel.binary op l r c)) then (⟨true, msgs + 1⟩ : Diag) else ⟨false, msgs⟩).isDoomed = false →
          sem σ (Rel.binary op l r c) ≠ [] := by
        intro msgs h
        split at h
        · simp at h
        · rename_i hfr
          simp only [Bool.not_eq_true', Bool.not_eq_false] at hfr
          rw [hf] at hfr
          intro he
          rw [he] at hfr
          simp at hfr
      cases op with
      | chain =>
        simp only [Bool.and_eq_false_iff] at hd
        simp only [sem]
        rcases hd with h | h
        · have := ihl h
          intro he
          exact this (List.append_eq_nil_iff.mp he).1
        · have := ihr h
          intro he
          exact this (List.append_eq_nil_iff.mp he).2
      | join j =>
        simp only at hd
        split at hd
        · simp at hd
        · split at hd
          · simp at hd
          · exact tail _ hd
      | ignoreOne il => exact tail _ hd

/-- Tie to the source: `is_empty_invariant` of every operation class as read from the code. -/
theorem bridge_flags : Gen.flags = Bridge.modelFlags := Bridge.flags_eq

/-! ### Non-vacuity -/

private def ta : Tag := ⟨"a", true⟩
private def leaf0 : Rel := .leaf 1 ⟨0, .iter⟩ [ta] "L" 0 (some 2) true 0
private def σ0 : Leaves := fun _ => [Row.empty.set ta 1, Row.empty.set ta 2]
private def tree0 : Rel := .unary (.sel (.and [.lit true, .lit false])) leaf0 [ta]

example : (run none tree0).isDoomed = true ∧ (run none tree0).messages = 1 := by decide
example : (run none leaf0).isDoomed = false := by decide

end DafRel.Props.C16
