/-
Property C05 — merging and eliding adjacent operations preserves semantics and never rejects.

Quantifiers: all pairs of operations, all natural slice bounds and `None`, all sort-term lists
(repeated / opposite-direction terms included), all predicates, all targets (any well-formed tree
over truthful leaves, any row list).
-/
import DafRel.Lemmas.FinishApply
import DafRel.Bridge.Kernel
import DafRel.Bridge.Ops

namespace DafRel.Props.C05

open DafRel

/-- `Slice.then` never raises: for ALL bounds the composition is a slice (empty when the second
window starts past the end of the first). -/
theorem slice_then_total (s1 : Nat) (e1 : Option Nat) (s2 : Nat) (e2 : Option Nat) :
    ∃ s e, UOp.sliceThen s1 e1 s2 e2 = .ok (.slice s e) :=
  ⟨_, _, sliceThen_eq s1 e1 s2 e2⟩

/-- The merged slice selects exactly the rows `[s1:e1]` then `[s2:e2]` select, for every list. -/
theorem slice_then_sound {α : Type} (s1 : Nat) (e1 : Option Nat) (s2 : Nat) (e2 : Option Nat)
    (s : Nat) (e : Option Nat) (h : UOp.sliceThen s1 e1 s2 e2 = .ok (.slice s e)) (l : List α) :
    sliceList s e l = sliceList s2 e2 (sliceList s1 e1 l) :=
  (sliceThen_sound s1 e1 s2 e2 s e h l).symm

/-- `Sort.then`: one stable sort by the merged terms equals the two stable sorts in sequence
(later duplicates of a term are irrelevant; opposite-direction repeats are kept and dead). -/
theorem sort_then_sound (first second : List SortTerm) (l : List Row) :
    isort (lexLe (UOp.sortThen first second)) l = isort (lexLe second) (isort (lexLe first) l) := by
  rw [isort_lexLe_append]
  apply isort_congr
  intro a b _ _
  exact sortThen_lexLe first second a b

/-- Selection after selection: the merged (and re-normalised) predicate filters like both. -/
theorem selection_merge_sound (q p : Pred) (l : List Row) :
    (UOp.mkSel (.and [q, p])).sem [] l = (UOp.sel p).sem [] ((UOp.sel q).sem [] l) := by
  simp only [UOp.mkSel, UOp.sem, List.filter_filter]
  apply List.filter_congr
  intro r _
  rw [Pred.normalise_val]
  simp [Pred.val, Pred.valAll, Bool.and_comm]

/-- The general statement: whatever `simplify` returns for a valid pair is equivalent to the
two operations in sequence (or the new operation does nothing when the upstream is kept), has
the same columns, is itself valid, and `simplify` never raises. -/
theorem simplify_sound (new up : UOp) (tcols : Cols) (l : List Row)
    (hup : up.wfOn tcols = true) (hnew : new.wfOn (up.appliedColumns tcols) = true) :
    match new.simplify up with
    | .error _ => False
    | .ok .no => True
    | .ok .keepUpstream =>
      ∀ c, new.sem c (up.sem (up.appliedColumns tcols) l) = up.sem (up.appliedColumns tcols) l
    | .ok (.replace m) =>
      (∀ c1 c2, m.sem c1 l = new.sem c2 (up.sem (up.appliedColumns tcols) l)) ∧
      m.appliedColumns tcols = new.appliedColumns (up.appliedColumns tcols) ∧
      m.wfOn tcols = true :=
  DafRel.simplify_sound new up tcols l hup hnew

/-- Merging never raises, for ANY pair of operation objects. -/
theorem simplify_total (new up : UOp) (e : Err) : new.simplify up ≠ .error e :=
  DafRel.simplify_total new up e

/-- Applying an operation at a node (`_finish_apply`, with its recursive re-simplification
through any number of upstream operations and all do-nothing short-cuts) yields a well-formed
tree that evaluates to the operation applied to the target's rows, in the same order. -/
theorem finishApply_sound (σ : Leaves) (t : Rel) (op : UOp) (hwf : t.WF) (htr : t.Truthful σ)
    (hop : op.wfOn t.columns = true) (res : Res) (h : op.finishApply t = .ok res) :
    sem σ (res.get t) = op.sem (op.appliedColumns t.columns) (sem σ t) ∧ (res.get t).WF ∧
      (∀ c, c ∈ (res.get t).columns ↔ c ∈ op.appliedColumns t.columns) :=
  let r := DafRel.finishApply_sound σ t op hwf htr hop res h
  ⟨r.sem_eq, r.wf, r.cols⟩

/-- ... and the only way it can fail for a valid operation is the documented `EngineError`
(an expression the target's engine does not support) — never a merge error. -/
theorem finishApply_rejects_only_unsupported (σ : Leaves) (t : Rel) (op : UOp) (hwf : t.WF)
    (hop : op.wfOn t.columns = true) (e : Err) (h : op.finishApply t = .error e) : e = .engine :=
  DafRel.finishApply_error σ t op hwf hop e h

/-! ### Tie to the source: the regenerated `Slice.then` / `Slice.__post_init__` are the model's -/

/-- The Python `Slice.then` (translated from the current source by harness/extract.py) computes
exactly the model's `sliceThen`, for all bounds. -/
theorem bridge_Slice_then (s1 : Nat) (e1 : Option Nat) (s2 : Nat) (e2 : Option Nat) :
    Gen.Slice_then (.int s2) (Bridge.optN e2) (.int s1) (Bridge.optN e1)
      = Bridge.sliceObj (UOp.sliceThen s1 e1 s2 e2) :=
  Bridge.Slice_then_eq s1 e1 s2 e2

/-- The Python `Slice(start, stop)` constructor check is the model's `mkSlice`. -/
theorem bridge_Slice_new (s : Int) (e : Option Int) :
    Gen.Slice_new (.int s) (Bridge.optI e) = Bridge.sliceObj (UOp.mkSlice s e) :=
  Bridge.Slice_new_eq s e

/-- The `simplify` methods of Projection, Selection, Slice and Sort, as translated from the current
Python source on this run (translator T-e), are the model's `UOp.simplify`. -/
theorem bridge_simplify_methods (up : UOp) :
    (∀ c, Gen.Projection_simplify c up = (UOp.proj c).simplify up) ∧
    (∀ p, Gen.Selection_simplify p up = (UOp.sel p).simplify up) ∧
    (∀ s e, Gen.Slice_simplify s e up = (UOp.slice s e).simplify up) ∧
    (∀ ts, Gen.Sort_simplify ts up = (UOp.sort ts).simplify up) :=
  ⟨fun c => Bridge.Projection_simplify_eq c up, fun p => Bridge.Selection_simplify_eq p up,
   fun s e => Bridge.Slice_simplify_eq s e up, fun ts => Bridge.Sort_simplify_eq ts up⟩

/-! ### Non-vacuity -/

example : UOp.sliceThen 0 (some 2) 3 (some 5) = .ok (.slice 3 (some 3)) := by rfl
example : sliceList 3 (some 5) (sliceList 0 (some 2) [1, 2, 3, 4, 5, 6]) = ([] : List Nat) := by decide
example : UOp.sliceThen 1 (some 5) 1 (some 3) = .ok (.slice 2 (some 4)) := by rfl
example : sliceList 2 (some 4) [0, 1, 2, 3, 4, 5] = sliceList 1 (some 3) (sliceList 1 (some 5) [0, 1, 2, 3, 4, 5]) := by
  decide

end DafRel.Props.C05
