/-
Property C08 — every tree the factories accept can be compiled and executed.

Proved for the iteration engine (proof, partial for the property as a whole): every construction
history that the factory model accepts (`Build.tree … = .ok r`, i.e. no ColumnError / EngineError /
row-order error was raised while building) yields a tree whose execution SUCCEEDS - no missing-column
lookup (`KeyError`), no unsupported node, no assertion - and likewise every well-formed tree.
For the SQL engine the corresponding statement (the generated SELECT is accepted by the database)
is validated, not proved: every generated query is run on SQLite by the check, and the model's
acceptance judgement `Query.accepts` is compared with SQLite's verdict.  One SQL-side ingredient is
proved: translating an expression cannot fail with a missing-column lookup when the referenced
columns are available (`Props/C12.sql_expression_translates`).
-/
import DafRel.Props.C01

namespace DafRel.Props.C08

open DafRel

/-- An accepted iteration-engine history executes without any error. -/
theorem accepted_history_executes (σ : Leaves) (st : Store) (eng : Engine) (hk : eng.kind = .iter)
    (b : Build) (r : Rel) (hok : b.ok σ) (hb : b.tree st eng = .ok r) (hcons : r.MarkersConsistent σ) :
    ∀ e, exec σ eng r {} ≠ .error e := by
  obtain ⟨it, s', h, _⟩ := C01.history_exec_correct σ st eng hk b r hok hb hcons
  intro e he
  rw [h] at he
  cases he

/-- ... and iterating the result raises nothing either (no `KeyError` inside a lazy callable). -/
theorem accepted_history_iterates (σ : Leaves) (st : Store) (eng : Engine) (hk : eng.kind = .iter)
    (b : Build) (r : Rel) (hok : b.ok σ) (hb : b.tree st eng = .ok r) (hcons : r.MarkersConsistent σ) :
    ∃ it s' rows, exec σ eng r {} = .ok (it, s') ∧ it.rows σ = .ok rows := by
  obtain ⟨it, s', h1, h2⟩ := C01.history_exec_correct σ st eng hk b r hok hb hcons
  exact ⟨it, s', _, h1, h2⟩

/-- The only exception `_finish_apply` can raise for a valid operation is the documented
`EngineError`: merging and elision never produce an internal error. -/
theorem finish_apply_raises_only_engine_error (σ : Leaves) (t : Rel) (op : UOp) (hwf : t.WF)
    (hop : op.wfOn t.columns = true) (e : Err) (h : op.finishApply t = .error e) : e = .engine :=
  finishApply_error σ t op hwf hop e h

end DafRel.Props.C08
