/-
Property C08 — every tree the factories accept can be compiled and executed.

Proved for the iteration engine (proof, partial for the property as a whole): every construction
history that the factory model accepts (`Build.tree … = .ok r`, i.e. no ColumnError / EngineError /
row-order error was raised while building) yields a tree whose execution SUCCEEDS - no missing-column
lookup (`KeyError`), no unsupported node, no assertion - and likewise every well-formed tree.
For the SQL engine: `sql_compile_never_fails` - on every tree satisfying the invariant the engine maintains
(`Good`, which includes the shape `to_payload` handles: `Rel.compOK`) whose leaves and processed markers hold
payloads, `_select_to_executable` SUCCEEDS: no missing-column lookup (`KeyError`) in a SELECT list, an
ORDER BY, a WHERE term, an ON clause or a calculated column, and no unsupported node;
`sql_payload_never_fails` the same for `to_payload`; `conformed_tree_compiles` and
`accepted_sql_history_compiles` compose it with the tree-building induction (C17), which proves that conform
and the factories only ever build that shape.
That the database then ACCEPTS the generated SELECT is validated, not proved: every generated query is run on
SQLite by the check, and the model's acceptance judgement `Query.accepts` is compared with SQLite's verdict.
-/
import DafRel.Props.C01
import DafRel.Lemmas.SqlCompileTotal
import DafRel.Lemmas.SqlHistory

namespace DafRel.Props.C08

variable {I : NodeInv}

open DafRel

/-- An accepted iteration-engine history executes without any error. -/
theorem accepted_history_executes (σ : Leaves) (st : Store) (eng : Engine) (hk : eng.kind = .iter)
    (b : Build) (r : Rel) (hok : b.ok σ) (hb : b.tree st eng = .ok r) (hcons : r.MarkersConsistent σ) :
    ∀ e, exec σ eng r {} ≠ .error e := by
  obtain ⟨it, s', h, _⟩ := C01.history_exec_correct σ st eng hk b r hok hb hcons
  intro e he
  rw [h] at he
  cases he

/-- ... and iterating the result raises nothing either (no `KeyError` inside a lazy callable). -/
theorem accepted_history_iterates (σ : Leaves) (st : Store) (eng : Engine) (hk : eng.kind = .iter)
    (b : Build) (r : Rel) (hok : b.ok σ) (hb : b.tree st eng = .ok r) (hcons : r.MarkersConsistent σ) :
    ∃ it s' rows, exec σ eng r {} = .ok (it, s') ∧ it.rows σ = .ok rows := by
  obtain ⟨it, s', h1, h2⟩ := C01.history_exec_correct σ st eng hk b r hok hb hcons
  exact ⟨it, s', _, h1, h2⟩

/-- The only exception `_finish_apply` can raise for a valid operation is the documented
`EngineError`: merging and elision never produce an internal error. -/
theorem finish_apply_raises_only_engine_error (σ : Leaves) (t : Rel) (op : UOp) (hwf : t.WF)
    (hop : op.wfOn t.columns = true) (e : Err) (h : op.finishApply t = .error e) : e = .engine :=
  finishApply_error σ t op hwf hop e h

/-- **Compiling never fails with an internal error**: every Good Select (the invariant includes the shape
`to_payload` handles, `Rel.compOK`) whose leaves and processed markers hold payloads compiles. -/
theorem sql_compile_never_fails (σ : Leaves) (s : SqlState) (fuel : Nat) (S : Rel) (ctr : Nat)
    (hg : Good I σ S) (hs : S.isSelect = true) (hrd : S.PayReady s)
    (hh : S.height ≤ fuel + 1) : ∃ q c, compileSelect s fuel S ctr = .ok (q, c) :=
  (compile_total σ s fuel).select S ctr hg hs hrd (hg.compOK hs false) hh

theorem sql_payload_never_fails (σ : Leaves) (s : SqlState) (fuel : Nat) (t : Rel) (ctr : Nat)
    (hg : Good I σ t) (hrd : t.PayReady s) (hsh : t.compOK false = true) (hh : t.height ≤ fuel) :
    ∃ p c, toPayload s fuel t ctr = .ok (p, c) ∧ PayDom p t.columns :=
  (compile_total σ s fuel).payload t ctr hg hrd hsh hh

/-- Conform then compile: for every raw SQL tree (leaves, materializations, transfers, the seven unary
operations, chains, joins - nested to any depth), the conformed tree compiles, provided its leaves and markers
hold payloads.  That conform produces the compilable shape is part of what is proved. -/
theorem conformed_tree_compiles (σ : Leaves) (s : SqlState) (st : Store) (fuel : Nat) (r : Rel) (c : Res)
    (hwf : r.WF) (htr : r.Truthful σ) (hraw : r.RawSql) (hc : conform st fuel r = .ok c)
    (hrd : (c.get r).PayReady s) (hh : (c.get r).height ≤ defaultFuel + 1) :
    ∃ q n, compileSelect s defaultFuel (c.get r) 0 = .ok (q, n) := by
  obtain ⟨gc, cok⟩ := (treeBuild_sound σ st fuel).conform r c (raw_good σ r hwf htr hraw) hc
  exact (compile_total σ s defaultFuel).select _ 0 gc cok.ok.isSel hrd (gc.compOK cok.ok.isSel false) hh

/-- The same with the payload hypothesis on the INPUT tree: if every leaf / processed marker of the raw tree holds a
payload exposing its columns (and the fresh allocation id 0 holds none), the conformed tree compiles - provided its
joins carry resolved common columns (decidable; what `Join._begin_apply` establishes). -/
theorem conformed_tree_compiles_of_ready_input (σ : Leaves) (s : SqlState) (st : Store) (fuel : Nat) (r : Rel) (c : Res)
    (hwf : r.WF) (htr : r.Truthful σ) (hraw : r.RawSql) (hc : conform st fuel r = .ok c)
    (hrd : r.PayReady s) (h0 : s.payload 0 = none) (hj : (c.get r).joinsResolved = true)
    (hh : (c.get r).height ≤ defaultFuel + 1) :
    ∃ q n, compileSelect s defaultFuel (c.get r) 0 = .ok (q, n) := by
  have gI : Good (domInv s h0) σ r := raw_goodI σ r hwf htr hraw (atomsOK_of_payReady s h0 r hraw hrd)
  obtain ⟨gc, cok⟩ := (treeBuild_sound σ st fuel).conform r c gI hc
  exact (compile_total σ s defaultFuel).select _ 0 gc cok.ok.isSel (gc.payReady hj) (gc.compOK cok.ok.isSel false) hh

/-- ... and so does the tree of every construction history inside one SQL engine (any number of unary
operations, chains, joins, materializations): whatever the factories accepted compiles. -/
theorem accepted_sql_history_compiles (σ : Leaves) (s : SqlState) (st : Store) (eng : Engine) (hk : eng.kind = .sql)
    (b : SqlBuild) (r : Rel) (c : Res) (hok : b.ok σ) (h : b.tree st eng = .ok r)
    (hc : conform st defaultFuel r = .ok c)
    (hrd : (c.get r).PayReady s) (hh : (c.get r).height ≤ defaultFuel + 1) :
    ∃ q n, compileSelect s defaultFuel (c.get r) 0 = .ok (q, n) := by
  have B := sql_build_invariant σ st eng hk b r hok h
  obtain ⟨gc, cok⟩ := (treeBuild_sound σ st defaultFuel).conform r c B.good hc
  exact (compile_total σ s defaultFuel).select _ 0 gc cok.ok.isSel hrd (gc.compOK cok.ok.isSel false) hh

/-! non-vacuity: a join of a sorted, sliced table with another one -/
private def ta : Tag := ⟨"a", true⟩
private def tb : Tag := ⟨"b", false⟩
private def tc : Tag := ⟨"c", false⟩
private def e0 : Engine := ⟨0, .sql⟩
private def h0 : SqlBuild :=
  .join (.op (.slice 0 (some 3)) (.op (.sort [⟨.ref tb, false⟩]) (.leaf 1 [ta, tb] "L" 0 none 0)))
    (.leaf 2 [ta, tc] "M" 0 none 0) (.lit true)
private def s0 : SqlState :=
  { payloads := [(1, tablePayload "L" 1 0 [ta, tb]), (2, tablePayload "M" 2 1 [ta, tc])], tables := [[], []] }
private def r0 : Rel := ((h0.tree [] e0).toOption).getD default
example : (r0.isSelect, r0.compOK false, decide (r0.height ≤ 100)) = (true, true, true) := by decide +kernel

end DafRel.Props.C08
