/-
Property C13 — predicate folding, conjunction flattening and required-column sets are sound.

Every theorem quantifies over ALL predicate/expression trees (any depth, any arity, including
0- and 1-operand AND/OR) and ALL rows.  `val` is the specification ("direct evaluation"),
`eval` the checked model of the iteration engine's callables (`none` = exception).
-/
import DafRel.Lemmas.Trivial
import DafRel.Model.Op

namespace DafRel.Props.C13

open DafRel

/-- If `as_trivial()` answers `True`/`False`, the predicate has that value on every row. -/
theorem asTrivial_sound (p : Pred) (b : Bool) (h : p.asTrivial = some b) (r : Row) :
    p.val r = b :=
  Pred.asTrivial_val r p b h

/-- ... and the engine's callable, whenever it returns at all, returns that value
(it may raise only for a missing column, which well-formed trees exclude). -/
theorem asTrivial_sound_callable (p : Pred) (b v : Bool) (h : p.asTrivial = some b) (r : Row)
    (he : p.eval r = some v) : v = b :=
  Pred.asTrivial_eval r p b v h he

/-- `flatten_logical_and` returning a list: the AND of the conjuncts is equivalent to the predicate. -/
theorem flatten_sound (p : Pred) (ps : List Pred) (h : p.flattenAnd = some ps) (r : Row) :
    p.val r = Pred.valAll r ps := by
  have := Pred.flattenAnd_val r p
  simp only [h] at this
  exact this

/-- `flatten_logical_and` returning `False`: the predicate is false on every row. -/
theorem flatten_false_sound (p : Pred) (h : p.flattenAnd = none) (r : Row) : p.val r = false := by
  have := Pred.flattenAnd_val r p
  simp only [h] at this
  exact this

/-- The predicate stored by `Selection.__post_init__` is equivalent to the one supplied. -/
theorem selection_normalise_equiv (p : Pred) (r : Row) : p.normalise.val r = p.val r :=
  Pred.normalise_val r p

/-- The predicate a `Selection` operation holds is the normalised one. -/
theorem mkSel_equiv (p : Pred) (r : Row) :
    (match UOp.mkSel p with
     | .sel q => q.val r = p.val r
     | _ => False) := by
  simp [UOp.mkSel, Pred.normalise_val]

/-- Required columns are sufficient for expressions: direct evaluation ... -/
theorem expr_columnsRequired_sufficient (e : Expr) (r : Row) :
    e.val (r.restrict e.columnsRequired) = e.val r :=
  Expr.val_congr _ _ e (Row.restrict_agree r _)

/-- ... and the engine's callable behaves identically (same value, same success/failure). -/
theorem expr_columnsRequired_sufficient_callable (e : Expr) (r : Row) :
    e.eval (r.restrict e.columnsRequired) = e.eval r :=
  Expr.eval_congr _ _ e (Row.restrict_agree r _)

/-- Required columns are sufficient for predicates (including containers). -/
theorem pred_columnsRequired_sufficient (p : Pred) (r : Row) :
    p.val (r.restrict p.columnsRequired) = p.val r :=
  Pred.val_congr _ _ p (Row.restrict_agree r _)

theorem pred_columnsRequired_sufficient_callable (p : Pred) (r : Row) :
    p.eval (r.restrict p.columnsRequired) = p.eval r :=
  Pred.eval_congr _ _ p (Row.restrict_agree r _)

/-- More generally, evaluation depends on the required columns only. -/
theorem pred_depends_only_on_required (p : Pred) (r1 r2 : Row)
    (h : ∀ t, t ∈ p.columnsRequired → r1 t = r2 t) : p.val r1 = p.val r2 ∧ p.eval r1 = p.eval r2 :=
  ⟨Pred.val_congr r1 r2 p h, Pred.eval_congr r1 r2 p h⟩

/-! ### Non-vacuity: concrete instances of every hypothesis -/

private def ta : Tag := ⟨"a", true⟩
private def pEx : Pred := .and [.lit true, .not (.or [.lit false, .and []]), .fn .lt [.ref ta, .lit 2] none]

example : pEx.asTrivial = some false := by decide
example : (Pred.and [.lit true, .fn .lt [.ref ta, .lit 2] none]).asTrivial = none := by decide
example : (Pred.or [.fn .lt [.ref ta, .lit 2] none, .not (.lit false)]).asTrivial = some true := by decide
example : (Pred.and [.and [.lit true, .ref ta], .fn .lt [.ref ta, .lit 2] none]).flattenAnd
    = some [.ref ta, .fn .lt [.ref ta, .lit 2] none] := by rfl
example : (Pred.and [.ref ta, .and [.lit false]]).flattenAnd = none := by rfl

end DafRel.Props.C13
