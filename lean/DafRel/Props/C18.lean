/-
Property C18 — the iteration engine is lazy and single-pass where documented.

Model of laziness (Model/IterExec.lean): `exec` returns a syntax tree of row iterables without
iterating the lazy ones; `Iterable.events σ it d` lists the leaf-payload iterations that are
*started* by `iter(it)` followed by `d` calls of `next()` (`none` = `list(it)`), following
CPython's semantics of generator expressions, generator functions and `itertools.chain`;
`ExecState.log` accumulates the events of the iterations `execute` itself performs.
This event model is validated against counting payloads on the real library (correspondence);
the theorems below are about the model.

Quantifiers: all lazy-only trees (any nesting of calculation, projection, selection, slice, chain
over leaves; well-formed or not), all leaf contents, all starting states, all consumption depths.
-/
import DafRel.Lemmas.Payload

namespace DafRel.Props.C18

open DafRel

/-- `execute()` of a lazy-only tree iterates no leaf payload, attaches nothing, evaluates nothing:
the state is unchanged. -/
theorem lazy_execute_touches_nothing (σ : Leaves) (r : Rel) (self : Engine) (s : ExecState)
    (it : Iterable) (s' : ExecState) (hl : r.LazyOnly) (h : exec σ self r s = .ok (it, s')) : s' = s :=
  (exec_lazy σ r self s it s' hl h).1

/-- Iterating the result of a lazy-only tree - fully (`d = none`) or only `d` rows deep - starts
the iteration of each leaf *occurrence* of the tree at most once, in left-to-right order
(a sublist of the list of occurrences has every occurrence at most once). -/
theorem lazy_iteration_single_pass (σ : Leaves) (r : Rel) (self : Engine) (s : ExecState)
    (it : Iterable) (s' : ExecState) (hl : r.LazyOnly) (h : exec σ self r s = .ok (it, s'))
    (d : Option Nat) : (it.events σ d).Sublist r.leafOccs :=
  (events_sublist σ it d).trans (exec_lazy σ r self s it s' hl h).2

/-- Sort consumes its input exactly once, at `execute` time, and the result is a stored row
sequence: iterating it (any number of times, to any depth) starts no leaf iteration. -/
theorem sort_consumes_once_at_execute (σ : Leaves) (ts : List SortTerm) (cols : Cols) (tr : Iterable)
    (s : ExecState) (it : Iterable) (s' : ExecState)
    (h : execOp σ (.sort ts) cols tr s = .ok (it, s')) :
    s'.log = (tr.events σ none).reverse ++ s.log ∧ it.isStored = true ∧ ∀ d, it.events σ d = [] := by
  simp only [execOp] at h
  cases hi : iterateS σ tr s with
  | error e => simp [hi] at h
  | ok x =>
    obtain ⟨rows, s1⟩ := x
    simp only [hi] at h
    obtain ⟨_, _, f3, _⟩ := iterateS_frame σ tr s rows s1 hi
    split at h
    · injection h with h; injection h with h1 h2
      subst h1; subst h2
      exact ⟨f3, rfl, fun _ => rfl⟩
    · cases h

/-- Deduplication consumes its input at most once, at `execute` time (not at all when the input
already is a mapping on the same key), and the result is a stored mapping. -/
theorem dedup_consumes_at_most_once_at_execute (σ : Leaves) (cols : Cols) (tr : Iterable)
    (s : ExecState) (it : Iterable) (s' : ExecState)
    (h : execOp σ .dedup cols tr s = .ok (it, s')) :
    (s'.log = s.log ∨ s'.log = (tr.events σ none).reverse ++ s.log) ∧ it.isStored = true ∧
      ∀ d, it.events σ d = [] := by
  simp only [execOp] at h
  obtain ⟨_, _, f3, f4⟩ := toMapping_frame σ tr _ s it s' h
  exact ⟨f4, f3, fun d => stored_no_events σ it f3 d⟩

/-- Materialization consumes its input at most once, at `execute` time; its result (the payload
that is cached) is a row sequence, a row mapping or a leaf's own payload - never a lazy wrapper. -/
theorem materialize_consumes_at_most_once_at_execute (σ : Leaves) (inner : Iterable) (s : ExecState)
    (it : Iterable) (s' : ExecState) (h : materializedIt σ inner s = .ok (it, s')) :
    (s'.log = s.log ∨ s'.log = (inner.events σ none).reverse ++ s.log) ∧ it.isMaterialized = true := by
  obtain ⟨_, _, f3, f4⟩ := materializedIt_frame σ inner s it s' h
  exact ⟨f4, f3⟩

/-- Results can be iterated repeatedly with identical rows: the rows of an iterable are a function
of the iterable and the leaf contents only. -/
theorem iteration_repeatable (σ : Leaves) (it : Iterable) (log1 log2 : List Nat) :
    (iterate σ it log1).map (·.1) = (iterate σ it log2).map (·.1) := by
  unfold iterate
  cases it.rows σ <;> rfl

/-! ### Non-vacuity -/

private def ta : Tag := ⟨"a", true⟩
private def e0 : Engine := ⟨0, .iter⟩
private def leaf1 : Rel := .leaf 1 e0 [ta] "L1" 2 (some 2) true 0
private def leaf2 : Rel := .leaf 2 e0 [ta] "L2" 2 (some 2) true 0
private def σ0 : Leaves := fun _ => [Row.empty.set ta 2, Row.empty.set ta 1]
/-- `chain(select(leaf1), leaf2)[1:2]`... a slice over a chain of a selection and a leaf -/
private def lazyTree : Rel :=
  .unary (.slice 1 none) (.binary .chain (.unary (.sel (.lit true)) leaf1 [ta]) leaf2 [ta]) [ta]

example : lazyTree.LazyOnly := by simp [lazyTree, Rel.LazyOnly, UOp.isLazy, leaf1, leaf2]
example : lazyTree.leafOccs = [1, 2] := by decide
/-- full iteration starts both leaves once; taking a single row starts only the first -/
example : ((exec σ0 e0 lazyTree {}).toOption.map (fun x => (x.1.events σ0 none, x.1.events σ0 (some 1), x.2.log)))
    = some ([1, 2], [1], []) := by decide

end DafRel.Props.C18
