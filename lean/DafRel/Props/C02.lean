/-
Property C02 — SQL compilation preserves relational semantics.

Claimed at translation_validation level: the SELECT text the engine emits (`to_executable`) is
modelled (`Model/Sql.lean`) and validated against SQLite on every generated tree, not proved.
SUPPORTING theorems (machine-checked, every recursion budget, no bound on depth) about the half of the
property that lives in the tree building - "however the engine commuted operations, merged them into
one SELECT or nested subqueries":
  * `sql_history_tree_sem`: for EVERY construction history inside one SQL engine - leaves, any number of the
    seven unary operations, chains, joins with automatic common columns and an optional predicate,
    materializations, nested to any depth - the tree the factories build has, in the reference semantics,
    exactly the rows (values, multiplicity, order) and columns of the direct evaluation of the operation
    sequence (`SqlBuild.direct`: natural join on the shared key columns plus the predicate, concatenation
    for chain), and lives in that engine; what remains between this and the property is the emitted
    SELECT text and the database;
  * `sql_tree_building_preserves_rows`: applying any of the seven unary operations inside the SQL engine
    to a raw SQL tree (leaves, materializations, transfers, unary operations, chains, joins) yields a
    well-formed relation with exactly the rows (values, multiplicity, order) and columns of the
    operation applied to the target - through conform, slot merging, subquery nesting and projection
    push-down into UNION branches;
  * `conformed_tree_has_same_rows`: so does conforming a raw tree;
  * `join_of_selects_is_the_join`: joining two Selects - whose projections are stripped for the join and
    re-applied afterwards unless a hidden column would shadow a column of the other operand - yields
    exactly the natural join on the common columns plus the predicate of the *visible* rows: no value
    comes from a column an upstream projection had removed;
  * `join_factory_is_the_join`: `relation.join(rhs, predicate)` inside one SQL engine returns exactly the
    join of the two relations on the automatically resolved common columns (columns of both) and the
    predicate.
-/
import DafRel.Lemmas.ConformSound
import DafRel.Props.C17
import DafRel.Lemmas.SqlHistory
import DafRel.Lemmas.SqlRunSound

namespace DafRel.Props.C02

variable {I : NodeInv}

open DafRel

theorem sql_tree_building_preserves_rows (σ : Leaves) (st : Store) (fuel : Nat) (op : UOp) (t : Rel) (res : Res)
    (hwf : t.WF) (htr : t.Truthful σ) (hraw : t.RawSql) (h : applyOp st fuel (.u op) t {} = .ok res) :
    (res.get t).WF ∧ sem σ (res.get t) = op.sem (op.appliedColumns t.columns) (sem σ t) ∧
      (∀ c, c ∈ (res.get t).columns ↔ c ∈ op.appliedColumns t.columns) :=
  let F := ((treeBuild_sound σ st fuel).apply op t res (raw_good σ t hwf htr hraw) h).2.1
  ⟨F.wf, F.sem_eq, F.cols⟩

theorem conformed_tree_has_same_rows (σ : Leaves) (st : Store) (fuel : Nat) (t : Rel) (res : Res)
    (hwf : t.WF) (htr : t.Truthful σ) (hraw : t.RawSql) (h : conform st fuel t = .ok res) :
    sem σ (res.get t) = sem σ t ∧ (∀ c, c ∈ (res.get t).columns ↔ c ∈ t.columns) :=
  let C := ((treeBuild_sound σ st fuel).conform t res (raw_good σ t hwf htr hraw) h).2
  ⟨C.sem_eq, C.cols⟩

theorem join_of_selects_is_the_join (σ : Leaves) (st : Store) (fuel fl fr : Nat) (j : JoinOp) (tl tr : Rel)
    (cl cr : Res) (hwl : tl.WF) (htl : tl.Truthful σ) (hrl : tl.RawSql) (hwr : tr.WF) (htr : tr.Truthful σ)
    (hrr : tr.RawSql) (hl : conform st fl tl = .ok cl) (hr : conform st fr tr = .ok cr)
    (hcl : j.minCols.subset tl.columns = true) (hcr : j.minCols.subset tr.columns = true)
    (hp : j.pred.columnsRequired.subset (tl.columns.union tr.columns) = true) (heng : tl.engine = tr.engine)
    (res : BRes) (h : appendBinarySel st (fuel+1) (.join j) (cl.get tl) (cr.get tr) = .ok res) :
    ∃ S, res = .new S ∧ SelOK σ S ∧
      sem σ S = joinRows j.minCols j.pred (sem σ tl) (sem σ tr) ∧
      (∀ c, c ∈ S.columns ↔ c ∈ tl.columns.union tr.columns) := by
  obtain ⟨g1, c1⟩ := (treeBuild_sound σ st fl).conform tl cl (raw_good σ tl hwl htl hrl) hl
  obtain ⟨g2, c2⟩ := (treeBuild_sound σ st fr).conform tr cr (raw_good σ tr hwr htr hrr) hr
  have sub_congr : ∀ (a b b' : Cols), (∀ t, t ∈ b' ↔ t ∈ b) → a.subset b = true → a.subset b' = true :=
    fun a b b' hbb ha => (Cols.subset_iff _ _).mpr fun t ht => (hbb t).mpr ((Cols.subset_iff _ _).mp ha t ht)
  have hun : ∀ t, t ∈ (cl.get tl).columns.union (cr.get tr).columns ↔ t ∈ tl.columns.union tr.columns := by
    intro t; rw [Cols.mem_union, Cols.mem_union, c1.cols t, c2.cols t]
  obtain ⟨S, hS, _, okS, semS, colS, _⟩ := join_sel_sound σ st fuel j _ _ g1 g2 c1.ok.isSel c2.ok.isSel
    (sub_congr _ _ _ c1.cols hcl) (sub_congr _ _ _ c2.cols hcr) (sub_congr _ _ _ hun hp)
    (by rw [c1.engine, c2.engine]; exact heng) res h
  exact ⟨S, hS, okS, by rw [semS, c1.sem_eq, c2.sem_eq], fun c => (colS c).trans (hun c)⟩

theorem join_factory_is_the_join (σ : Leaves) (st : Store) (t rhs : Rel) (pred : Pred) (bt tr : Bool) (res : Res)
    (hwt : t.WF) (htt : t.Truthful σ) (hrt : t.RawSql) (hwr : rhs.WF) (htr : rhs.Truthful σ) (hrr : rhs.RawSql)
    (heng : rhs.engine = t.engine) (h : Rel.joinWith st t rhs pred bt tr = .ok res) :
    ∃ common, common.subset rhs.columns = true ∧ common.subset t.columns = true ∧
      sem σ (res.get t) = joinRows common pred (sem σ t) (sem σ rhs) ∧
      (∀ c, c ∈ (res.get t).columns ↔ c ∈ t.columns.union rhs.columns) := by
  obtain ⟨common, T, hT, _, semT, colT, _, c1, c2⟩ :=
    Props.C17.sql_join_factory_sound σ st t rhs pred bt tr res hwt htt hrt hwr htr hrr heng h
  subst hT
  exact ⟨common, c1, c2, semT, colT⟩

/-- **Every SQL construction history builds a tree with the rows of its direct evaluation.** -/
theorem sql_history_tree_sem (σ : Leaves) (st : Store) (eng : Engine) (hk : eng.kind = .sql)
    (b : SqlBuild) (r : Rel) (hok : b.ok σ) (h : b.tree st eng = .ok r) :
    sem σ r = b.direct σ ∧ (∀ c, c ∈ r.columns ↔ c ∈ b.cols) ∧ r.WF ∧ r.engine = eng :=
  let B := sql_build_invariant σ st eng hk b r hok h
  ⟨B.sem_eq, B.cols, B.good.wf, B.engine⟩

/-! ### The emitted SELECT -/

/-- **The SELECT the engine emits returns the reference rows.**  For every Good Select tree - whatever
nesting of subqueries, joins and UNIONs - whose leaves and processed markers hold faithful payloads
(`Rel.SqlReady`): if `_select_to_executable` succeeds and no FROM clause names the same item twice, the
query evaluates, under the list semantics of SQL, to exactly the rows - values, multiplicity, order - of the
reference semantics of the tree.  Every recursion budget. -/
theorem emitted_select_returns_reference_rows (σ : Leaves) (s : SqlState) (fuel : Nat) (S : Rel) (ctr : Nat)
    (q : Query) (c : Nat) (hg : Good I σ S) (hs : S.isSelect = true) (hrd : S.SqlReady s s.tables σ)
    (h : compileSelect s fuel S ctr = .ok (q, c)) (hdup : q.hasDup = false) :
    (Query.eval s.tables q).rows = sem σ S :=
  (compile_sound σ s fuel).select S ctr q c hg hs hrd h hdup

/-- ... and so does the payload `to_payload` builds for any Good tree (used as a subquery / join operand). -/
theorem emitted_payload_stands_for_reference_rows (σ : Leaves) (s : SqlState) (fuel : Nat) (t : Rel) (ctr : Nat)
    (p : SqlPayload) (c : Nat) (hg : Good I σ t) (hrd : t.SqlReady s s.tables σ)
    (h : toPayload s fuel t ctr = .ok (p, c)) (hdup : From.hasDup p.frm = false) (hnd : (From.names p.frm).Nodup) :
    sem σ t = (payEnvs s.tables p).map (rowOf p.avail) :=
  ((compile_sound σ s fuel).payload t ctr p c hg hrd h hdup hnd).rows_eq

/-- **Conform, compile, evaluate** on a raw SQL tree returns the rows of its direct evaluation, whenever the
conformed tree passes the decidable check `Rel.structReady` (the driver reports it on every `sqlexec`) and
its leaves and markers hold faithful payloads. -/
theorem to_executable_returns_reference_rows (σ : Leaves) (s : SqlState) (st : Store) (r : Rel) (out : EvalOut)
    (b : Bool) (hwf : r.WF) (htr : r.Truthful σ) (hraw : r.RawSql)
    (hready : ∀ c, conform st defaultFuel r = .ok c →
      (c.get r).structReady s = true ∧ (c.get r).Faithful s s.tables σ)
    (hrun : sqlRun s st r = .inr (out, b)) : out.rows = sem σ r :=
  sqlRun_sound σ s st r out b hwf htr hraw hready hrun

/-- The same with the semantic hypothesis on the INPUT: if the payloads held by the leaves and processed markers
of the tree the user built stand for their rows (and the fresh allocation id 0 holds no payload), then conform,
compile, evaluate returns the rows of direct evaluation - the only thing asked of the conformed tree is the
decidable check.  (`treeBuild_sound` is parametric in a predicate on atoms and Selects: the engine never invents a
leaf, and the Selects it creates are fresh.) -/
theorem to_executable_returns_reference_rows_of_faithful_input (σ : Leaves) (s : SqlState) (st : Store) (r : Rel)
    (out : EvalOut) (b : Bool) (hwf : r.WF) (htr : r.Truthful σ) (hraw : r.RawSql)
    (hF : r.Faithful s s.tables σ) (h0 : s.payload 0 = none)
    (hready : ∀ c, conform st defaultFuel r = .ok c → (c.get r).structReady s = true)
    (hrun : sqlRun s st r = .inr (out, b)) : out.rows = sem σ r :=
  sqlRun_sound_input σ s st r out b hwf htr hraw hF h0 hready hrun

/-- ... and for every construction history inside one SQL engine: the database returns the rows of the direct
evaluation of the operation sequence. -/
theorem sql_history_executes_to_direct_rows (σ : Leaves) (s : SqlState) (st : Store) (eng : Engine)
    (hk : eng.kind = .sql) (bld : SqlBuild) (r : Rel) (out : EvalOut) (b : Bool) (hok : bld.ok σ)
    (h : bld.tree st eng = .ok r)
    (hready : ∀ c, conform st defaultFuel r = .ok c →
      (c.get r).structReady s = true ∧ (c.get r).Faithful s s.tables σ)
    (hrun : sqlRun s st r = .inr (out, b)) : out.rows = bld.direct σ := by
  have B := sql_build_invariant σ st eng hk bld r hok h
  rw [sqlRun_sound_good σ s st r out b B.good hready hrun]
  exact B.sem_eq

/-- **From factory calls to database rows.**  For every construction history inside one SQL engine whose LEAF tables
hold the leaves' rows: the rows the database returns for the tree the factories built are the direct evaluation of the
operation sequence - values, multiplicity, order.  The only condition on the conformed tree is the decidable check. -/
theorem sql_history_executes_to_direct_rows_of_faithful_leaves (σ : Leaves) (s : SqlState) (st : Store) (eng : Engine)
    (hk : eng.kind = .sql) (bld : SqlBuild) (r : Rel) (out : EvalOut) (b : Bool) (hok : bld.ok σ)
    (h0 : s.payload 0 = none) (hl : bld.LeavesOK (payInv s s.tables σ h0) eng) (h : bld.tree st eng = .ok r)
    (hready : ∀ c, conform st defaultFuel r = .ok c → (c.get r).structReady s = true)
    (hrun : sqlRun s st r = .inr (out, b)) : out.rows = bld.direct σ :=
  sql_history_run_sound σ s st eng hk bld r out b hok h0 hl h hready hrun

/-- A table holding the rows of a relation is a faithful payload for it. -/
theorem table_payload_is_faithful (tables : List (List Row)) (name : String) (uid idx : Nat) (cols : Cols)
    (rows : List Row) (htab : tables.getD idx [] = rows) (hr : RowsHaveCols rows cols) :
    rows = (payEnvs tables (tablePayload name uid idx cols)).map (rowOf (tablePayload name uid idx cols).avail) :=
  (tablePayload_paySem tables name uid idx cols rows htab hr).rows_eq

/-! ### Non-vacuity -/

private def ta : Tag := ⟨"a", true⟩
private def tb : Tag := ⟨"b", false⟩
private def tc : Tag := ⟨"c", false⟩
private def e0 : Engine := ⟨0, .sql⟩
private def σ0 : Leaves := fun oid =>
  if oid = 1 then [fun t => if t = ta then some 1 else if t = tb then some 5 else none]
  else [fun t => if t = ta then some 1 else if t = tc then some 7 else none]
/-- (sorted, sliced L) joined with M -/
private def h0 : SqlBuild :=
  .join (.op (.slice 0 (some 3)) (.op (.sort [⟨.ref tb, false⟩]) (.leaf 1 [ta, tb] "L" 0 none 0)))
    (.leaf 2 [ta, tc] "M" 0 none 0) (.lit true)
example : (h0.tree [] e0).toOption.map (fun r => (r.isSelect, r.columns)) =
    some (true, [ta, tb, tc]) := by decide +kernel
example : h0.ok σ0 := by
  refine ⟨?_, ?_⟩ <;>
    (refine ⟨?_, Nat.zero_le _, fun m hm => by cases hm⟩
     intro r hr
     simp [σ0] at hr
     subst hr
     intro t
     by_cases h1 : t = ta <;> by_cases h2 : t = tb <;> by_cases h3 : t = tc <;> simp_all [ta, tb, tc])

/-- the database state: one table per leaf -/
private def s0 : SqlState :=
  { payloads := [(1, tablePayload "L" 1 0 [ta, tb]), (2, tablePayload "M" 2 1 [ta, tc])],
    tables := [σ0 1, σ0 2] }
private def r0 : Rel := ((h0.tree [] e0).toOption).getD default
/-- the history compiles, runs, and returns the joined row -/
example : (match sqlRun s0 [] r0 with
    | .inr (out, _) => out.rows.map (fun r => [r ta, r tb, r tc])
    | .inl _ => []) = [[some 1, some 5, some 7]] := by decide +kernel
/-- the conformed tree passes the decidable check -/
example : ((conform [] defaultFuel r0).toOption.map (fun c => (c.get r0).structReady s0)) = some true := by
  decide +kernel

private theorem rows1 : RowsHaveCols (σ0 1) [ta, tb] := by
  intro r hr
  simp [σ0] at hr
  subst hr
  intro t
  by_cases h1 : t = ta <;> by_cases h2 : t = tb <;> simp_all [ta, tb]
private theorem rows2 : RowsHaveCols (σ0 2) [ta, tc] := by
  intro r hr
  simp [σ0] at hr
  subst hr
  intro t
  by_cases h1 : t = ta <;> by_cases h3 : t = tc <;> simp_all [ta, tc]
/-- ... and holds faithful payloads: every hypothesis of `sql_history_executes_to_direct_rows` is met. -/
example : ∀ c, conform [] defaultFuel r0 = .ok c →
    (c.get r0).structReady s0 = true ∧ (c.get r0).Faithful s0 s0.tables σ0 := by
  intro c hc
  have h1 : ((conform [] defaultFuel r0).toOption.map (fun c =>
      (c.get r0).structReady s0 && (c.get r0).leavesIn s0 [(1, [ta, tb]), (2, [ta, tc])])) = some true := by
    decide +kernel
  rw [hc] at h1
  simp only [Except.toOption, Option.map_some, Option.some.injEq, Bool.and_eq_true] at h1
  refine ⟨h1.1, faithful_of_leavesIn s0 s0.tables σ0 _ ?_ _ h1.2⟩
  intro a ha p hp
  simp only [List.mem_cons, List.not_mem_nil, or_false] at ha
  rcases ha with rfl | rfl
  · have : s0.payload 1 = some (tablePayload "L" 1 0 [ta, tb]) := rfl
    rw [this] at hp; injection hp with hp; subst hp
    exact tablePayload_paySem s0.tables "L" 1 0 [ta, tb] (σ0 1) rfl rows1
  · have : s0.payload 2 = some (tablePayload "M" 2 1 [ta, tc]) := rfl
    rw [this] at hp; injection hp with hp; subst hp
    exact tablePayload_paySem s0.tables "M" 2 1 [ta, tc] (σ0 2) rfl rows2

/-- a RAW tree over the two tables: a selection over their join -/
private def leafL : Rel := .leaf 1 e0 [ta, tb] "L" 0 none true 0
private def leafM : Rel := .leaf 2 e0 [ta, tc] "M" 0 none true 0
private def rawJ : Rel :=
  .unary (.sel (.fn .gt [.ref tc, .lit 0] none)) (.binary (.join ⟨.lit true, [ta], some [ta]⟩) leafL leafM [ta, tb, tc]) [ta, tb, tc]
/-- every hypothesis of `to_executable_returns_reference_rows_of_faithful_input` is met ... -/
example : rawJ.WF ∧ rawJ.Truthful σ0 ∧ rawJ.RawSql ∧ rawJ.Faithful s0 s0.tables σ0 ∧ s0.payload 0 = none := by
  refine ⟨⟨⟨trivial, trivial, by decide, by decide, by decide⟩, by decide, by decide⟩,
    ⟨⟨rows1, Nat.zero_le _, fun m hm => by cases hm⟩, ⟨rows2, Nat.zero_le _, fun m hm => by cases hm⟩⟩,
    ⟨rfl, rfl, by decide, rfl⟩, ⟨?_, ?_⟩, rfl⟩
  · intro p hp
    have : s0.payload 1 = some (tablePayload "L" 1 0 [ta, tb]) := rfl
    rw [this] at hp; injection hp with hp; subst hp
    exact tablePayload_paySem s0.tables "L" 1 0 [ta, tb] (σ0 1) rfl rows1
  · intro p hp
    have : s0.payload 2 = some (tablePayload "M" 2 1 [ta, tc]) := rfl
    rw [this] at hp; injection hp with hp; subst hp
    exact tablePayload_paySem s0.tables "M" 2 1 [ta, tc] (σ0 2) rfl rows2
/-- ... the conformed tree passes the decidable check, and the query returns the joined row -/
example : ((conform [] defaultFuel rawJ).toOption.map (fun c => (c.get rawJ).structReady s0)) = some true := by
  decide +kernel
example : (match sqlRun s0 [] rawJ with
    | .inr (out, _) => out.rows.map (fun r => [r ta, r tb, r tc])
    | .inl _ => []) = [[some 1, some 5, some 7]] := by decide +kernel

/-- the leaves of the history `h0` hold faithful tables in `s0` -/
example : h0.LeavesOK (payInv s0 s0.tables σ0 rfl) e0 := by
  refine ⟨?_, ?_⟩
  · intro _ p hp
    have : s0.payload 1 = some (tablePayload "L" 1 0 [ta, tb]) := rfl
    rw [this] at hp; injection hp with hp; subst hp
    exact tablePayload_paySem s0.tables "L" 1 0 [ta, tb] (σ0 1) rfl rows1
  · intro _ p hp
    have : s0.payload 2 = some (tablePayload "M" 2 1 [ta, tc]) := rfl
    rw [this] at hp; injection hp with hp; subst hp
    exact tablePayload_paySem s0.tables "M" 2 1 [ta, tc] (σ0 2) rfl rows2

end DafRel.Props.C02
