/-
Property C02 — SQL compilation preserves relational semantics.

Claimed at translation_validation level: the SELECT text the engine emits (`to_executable`) is
modelled (`Model/Sql.lean`) and validated against SQLite on every generated tree, not proved.
SUPPORTING theorems (machine-checked, every recursion budget, no bound on depth) about the half of the
property that lives in the tree building - "however the engine commuted operations, merged them into
one SELECT or nested subqueries":
  * `sql_tree_building_preserves_rows`: applying any of the seven unary operations inside the SQL engine
    to a raw SQL tree (leaves, materializations, transfers, unary operations, chains, joins) yields a
    well-formed relation with exactly the rows (values, multiplicity, order) and columns of the
    operation applied to the target - through conform, slot merging, subquery nesting and projection
    push-down into UNION branches;
  * `conformed_tree_has_same_rows`: so does conforming a raw tree;
  * `join_of_selects_is_the_join`: joining two Selects - whose projections are stripped for the join and
    re-applied afterwards unless a hidden column would shadow a column of the other operand - yields
    exactly the natural join on the common columns plus the predicate of the *visible* rows: no value
    comes from a column an upstream projection had removed;
  * `join_factory_is_the_join`: `relation.join(rhs, predicate)` inside one SQL engine returns exactly the
    join of the two relations on the automatically resolved common columns (columns of both) and the
    predicate.
-/
import DafRel.Lemmas.ConformSound
import DafRel.Props.C17

namespace DafRel.Props.C02

open DafRel

theorem sql_tree_building_preserves_rows (σ : Leaves) (st : Store) (fuel : Nat) (op : UOp) (t : Rel) (res : Res)
    (hwf : t.WF) (htr : t.Truthful σ) (hraw : t.RawSql) (h : applyOp st fuel (.u op) t {} = .ok res) :
    (res.get t).WF ∧ sem σ (res.get t) = op.sem (op.appliedColumns t.columns) (sem σ t) ∧
      (∀ c, c ∈ (res.get t).columns ↔ c ∈ op.appliedColumns t.columns) :=
  let F := ((treeBuild_sound σ st fuel).apply op t res (raw_good σ t hwf htr hraw) h).2.1
  ⟨F.wf, F.sem_eq, F.cols⟩

theorem conformed_tree_has_same_rows (σ : Leaves) (st : Store) (fuel : Nat) (t : Rel) (res : Res)
    (hwf : t.WF) (htr : t.Truthful σ) (hraw : t.RawSql) (h : conform st fuel t = .ok res) :
    sem σ (res.get t) = sem σ t ∧ (∀ c, c ∈ (res.get t).columns ↔ c ∈ t.columns) :=
  let C := ((treeBuild_sound σ st fuel).conform t res (raw_good σ t hwf htr hraw) h).2
  ⟨C.sem_eq, C.cols⟩

theorem join_of_selects_is_the_join (σ : Leaves) (st : Store) (fuel fl fr : Nat) (j : JoinOp) (tl tr : Rel)
    (cl cr : Res) (hwl : tl.WF) (htl : tl.Truthful σ) (hrl : tl.RawSql) (hwr : tr.WF) (htr : tr.Truthful σ)
    (hrr : tr.RawSql) (hl : conform st fl tl = .ok cl) (hr : conform st fr tr = .ok cr)
    (hcl : j.minCols.subset tl.columns = true) (hcr : j.minCols.subset tr.columns = true)
    (hp : j.pred.columnsRequired.subset (tl.columns.union tr.columns) = true) (heng : tl.engine = tr.engine)
    (res : BRes) (h : appendBinarySel st (fuel+1) (.join j) (cl.get tl) (cr.get tr) = .ok res) :
    ∃ S, res = .new S ∧ SelOK σ S ∧
      sem σ S = joinRows j.minCols j.pred (sem σ tl) (sem σ tr) ∧
      (∀ c, c ∈ S.columns ↔ c ∈ tl.columns.union tr.columns) := by
  obtain ⟨g1, c1⟩ := (treeBuild_sound σ st fl).conform tl cl (raw_good σ tl hwl htl hrl) hl
  obtain ⟨g2, c2⟩ := (treeBuild_sound σ st fr).conform tr cr (raw_good σ tr hwr htr hrr) hr
  have sub_congr : ∀ (a b b' : Cols), (∀ t, t ∈ b' ↔ t ∈ b) → a.subset b = true → a.subset b' = true :=
    fun a b b' hbb ha => (Cols.subset_iff _ _).mpr fun t ht => (hbb t).mpr ((Cols.subset_iff _ _).mp ha t ht)
  have hun : ∀ t, t ∈ (cl.get tl).columns.union (cr.get tr).columns ↔ t ∈ tl.columns.union tr.columns := by
    intro t; rw [Cols.mem_union, Cols.mem_union, c1.cols t, c2.cols t]
  obtain ⟨S, hS, _, okS, semS, colS, _⟩ := join_sel_sound σ st fuel j _ _ g1 g2 c1.ok.isSel c2.ok.isSel
    (sub_congr _ _ _ c1.cols hcl) (sub_congr _ _ _ c2.cols hcr) (sub_congr _ _ _ hun hp)
    (by rw [c1.engine, c2.engine]; exact heng) res h
  exact ⟨S, hS, okS, by rw [semS, c1.sem_eq, c2.sem_eq], fun c => (colS c).trans (hun c)⟩

theorem join_factory_is_the_join (σ : Leaves) (st : Store) (t rhs : Rel) (pred : Pred) (bt tr : Bool) (res : Res)
    (hwt : t.WF) (htt : t.Truthful σ) (hrt : t.RawSql) (hwr : rhs.WF) (htr : rhs.Truthful σ) (hrr : rhs.RawSql)
    (heng : rhs.engine = t.engine) (h : Rel.joinWith st t rhs pred bt tr = .ok res) :
    ∃ common, common.subset rhs.columns = true ∧ common.subset t.columns = true ∧
      sem σ (res.get t) = joinRows common pred (sem σ t) (sem σ rhs) ∧
      (∀ c, c ∈ (res.get t).columns ↔ c ∈ t.columns.union rhs.columns) := by
  obtain ⟨common, T, hT, _, semT, colT, _, c1, c2⟩ :=
    Props.C17.sql_join_factory_sound σ st t rhs pred bt tr res hwt htt hrt hwr htr hrr heng h
  subst hT
  exact ⟨common, c1, c2, semT, colT⟩

end DafRel.Props.C02
