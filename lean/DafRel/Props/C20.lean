/-
Property C20 — ill-formed requests are rejected at the factory call with the documented error.

What is proved (all targets = any tree at all, all engines, all option combinations):
  * unary operations: a request whose operation is not a no-op on the target and is ill-formed for
    the target's columns (a required column of a calculation / projection / non-trivial selection
    / sort is missing, or the calculated tag exists) makes `apply` raise `ColumnError`, whatever
    preferred engine / backtrack / transfer / require options are passed (`unary_rejected`);
  * chain: different engines -> `EngineError`, different columns -> `ColumnError` (`chain_rejected_*`);
  * join: a predicate column missing from both operands -> `ColumnError`, through every
    backtrack/transfer option of `relation.join` (`join_rejected_missing_predicate_column`);
  * slices: negative start or stop before start -> `ValueError`; a step other than 1 -> `TypeError`
    (`slice_rejected_*`), and the constructor check is the one re-read from the source
    (`bridge_Slice_new`);
  * unsupported expressions: a calculation whose expression the target's engine does not support
    is rejected with `EngineError` on any target; other operations on any target they are not
    merged with (`unsupported_*`).
  * "No such request returns a relation": the results above are `Except.error`.
  * "A rejected call leaves every existing relation unchanged": relations are immutable values of
    the model; for the implementation this is what C09's fingerprint monitoring checks.
  * cross-engine joins: `Join.apply(lhs, rhs)` on operands of different engines never returns a relation, and raises
    `EngineError` whenever the columns are fine (`cross_engine_join_apply_rejected`, `..._raises_engine_error`);
    `relation.join(fixed, backtrack=False, transfer=False)` from an iteration-engine relation to a relation of another
    engine never returns a relation (`cross_engine_join_without_options_rejected`).
Partial: cross-engine joins WITH back-tracking but without transfer (whether they are rejected depends on whether
back-tracking finds a place - C03's `join_with_every_option_sound` says what is returned when they are not),
unsupported expressions that are first merged with an upstream
operation of the same kind.
-/
import DafRel.Lemmas.Build
import DafRel.Lemmas.BacktrackJoin
import DafRel.Bridge.Kernel
import DafRel.Bridge.Ops
import DafRel.Bridge.RelOps
import DafRel.Bridge.JoinOps

namespace DafRel.Props.C20

open DafRel

/-- Whatever the options, `apply` starts with `_begin_apply`, and its exception propagates. -/
theorem begin_apply_error_propagates (st : Store) (fuel : Nat) (op : AnyOp) (t : Rel) (o : Opts) (e : Err)
    (h : op.beginApply t o.pref = .error e) : applyOp st (fuel+1) op t o = .error e := by
  rw [applyOp]
  simp [h, bind, Except.bind]

/-- An operation that is not a no-op on the target and is ill-formed for its columns is a
`ColumnError` in `_begin_apply`, for every preferred engine. -/
theorem begin_apply_rejects_illformed (op : UOp) (t : Rel) (pref : Option Engine)
    (hn : op.noopOn t.columns = false) (hw : op.wfOn t.columns = false) :
    op.beginApply t pref = .error .column := by
  unfold UOp.beginApply
  cases op with
  | identity => simp [UOp.noopOn] at hn
  | dedup => simp [UOp.wfOn, UOp.columnsRequired, Cols.subset] at hw
  | slice a b => simp [UOp.wfOn, UOp.columnsRequired, Cols.subset] at hw
  | sort ts =>
    simp only [UOp.noopOn] at hn
    simp only [UOp.wfOn, UOp.columnsRequired, Bool.and_true] at hw
    simp only [hn, Bool.false_eq_true, if_false]
    split
    · rename_i hall
      rw [sortCols_subset ts _ hall] at hw
      cases hw
    · rfl
  | sel p =>
    simp only [UOp.noopOn] at hn
    simp only [UOp.wfOn, UOp.columnsRequired, Bool.and_true] at hw
    simp [hn, hw]
  | proj c =>
    simp only [UOp.noopOn] at hn
    simp only [UOp.wfOn, UOp.columnsRequired, Bool.and_true] at hw
    simp [hn, hw]
  | «calc» tag ex =>
    simp only [UOp.wfOn, UOp.columnsRequired] at hw
    by_cases h1 : ex.columnsRequired.subset t.columns = true
    · simp only [h1, Bool.true_and, decide_eq_false_iff_not, Decidable.not_not] at hw
      simp [h1, hw]
    · simp [h1]

/-- **Unary operations.**  An ill-formed, non-trivial request raises `ColumnError` from `apply`
itself - on any target, in any engine, through every combination of `preferred_engine`,
`backtrack`, `transfer` and `require_preferred_engine`. -/
theorem unary_rejected (st : Store) (fuel : Nat) (op : UOp) (t : Rel) (o : Opts)
    (hn : op.noopOn t.columns = false) (hw : op.wfOn t.columns = false) :
    applyOp st (fuel+1) (.u op) t o = .error .column := by
  apply begin_apply_error_propagates
  simp [AnyOp.beginApply, begin_apply_rejects_illformed op t o.pref hn hw, Except.map]

/-- **Chain**, operands in different engines: `EngineError`. -/
theorem chain_rejected_engines (st : Store) (fuel : Nat) (l r : Rel) (h : l.engine ≠ r.engine) :
    binaryApply st (fuel+1) .chain l r = .error .engine := by
  rw [binaryApply]
  have : (l.engine != r.engine) = true := by simpa using h
  simp [chainBeginApply, this, bind, Except.bind]

/-- **Chain**, operands with different column sets: `ColumnError`. -/
theorem chain_rejected_columns (st : Store) (fuel : Nat) (l r : Rel) (he : l.engine = r.engine)
    (h : l.columns.seteq r.columns = false) : binaryApply st (fuel+1) .chain l r = .error .column := by
  rw [binaryApply]
  simp [chainBeginApply, he, h, bind, Except.bind]

/-- **Join**: a predicate column that neither operand has is a `ColumnError`, through every
`backtrack` / `transfer` option of `relation.join`. -/
theorem join_rejected_missing_predicate_column (st : Store) (t rhs : Rel) (pred : Pred)
    (backtrack transfer : Bool) (c : Tag) (hc : c ∈ pred.columnsRequired)
    (hl : c ∉ t.columns) (hr : c ∉ rhs.columns) :
    Rel.joinWith st t rhs pred backtrack transfer = .error .column := by
  unfold Rel.joinWith
  simp only [JoinOp.make]
  have hfuel : defaultFuel = 99999 + 1 := rfl
  rw [hfuel]
  apply begin_apply_error_propagates
  simp only [AnyOp.beginApply, PJoin.beginApply, JoinOp.resolved, Bool.not_false, if_true]
  cases hcc : JoinOp.appliedCommonColumns ⟨pred, [], none⟩ rhs.columns t.columns with
  | error e =>
    -- the only error `applied_common_columns` raises is `ColumnError`
    unfold JoinOp.appliedCommonColumns at hcc
    simp only [JoinOp.resolved, Bool.not_false, if_true] at hcc
    split at hcc
    · cases hcc
    · injection hcc with hcc; subst hcc; rfl
  | ok common =>
    have hreq : (PJoin.columnsRequired ⟨⟨pred, common, some common⟩, rhs, false⟩).subset t.columns = false := by
      rw [Bool.eq_false_iff]
      intro hsub
      have := (Cols.subset_iff _ _).mp hsub c (by
        simp only [PJoin.columnsRequired]
        exact (Cols.mem_union _ _ c).mpr (Or.inl ((Cols.mem_diff _ _ c).mpr ⟨hc, hr⟩)))
      exact hl this
    simp [hreq, Except.map]

/-- **A join of relations that live in different engines is never built by `Join.apply`.** -/
theorem cross_engine_join_apply_rejected (st : Store) (fuel : Nat) (j : JoinOp) (l r : Rel)
    (hne : l.engine ≠ r.engine) (res : BRes) : binaryApply st fuel (.join j) l r ≠ .ok res :=
  binaryApply_join_cross_engine st fuel j l r hne res

/-- ... and when `Join._begin_apply` finds nothing wrong with the columns, the exception is `EngineError`. -/
theorem cross_engine_join_apply_raises_engine_error (st : Store) (fuel : Nat) (j : JoinOp) (l r : Rel)
    (hne : l.engine ≠ r.engine) (op' : BOp) (hb : joinBeginApply j l r = .ok op') :
    binaryApply st (fuel+2) (.join j) l r = .error .engine :=
  binaryApply_join_cross_engine_error st fuel j l r hne op' hb

/-- **`relation.join(fixed, backtrack=False, transfer=False)` across engines never returns a relation** (the target
lives in an iteration engine, the fixed relation in any other engine; default preferred engine). -/
theorem cross_engine_join_without_options_rejected (st : Store) (fuel : Nat) (p : PJoin) (t : Rel) (o : Opts)
    (hpref : o.pref = none ∨ o.pref = some p.fixed.engine) (hbt : o.backtrack = false) (htr : o.transfer = false)
    (hkt : t.engine.kind = .iter) (hne : p.fixed.engine ≠ t.engine)
    (hfix0 : p.join.resolved = true → p.join.minCols.subset p.fixed.columns = true)
    (res : Res) : applyOp st fuel (.pj p) t o ≠ .ok res :=
  applyOp_pj_no_options_rejected st fuel p t o hpref hbt htr hkt hne hfix0 res

/-- non-vacuity: two leaves of different engines sharing the key `a`: the columns are fine, the engines are not -/
example :
    let l : Rel := .leaf 1 ⟨0, .iter⟩ [⟨"a", true⟩] "L" 0 none true 0
    let r : Rel := .leaf 2 ⟨1, .sql⟩ [⟨"a", true⟩] "R" 0 none true 0
    l.engine ≠ r.engine ∧ (joinBeginApply ⟨.lit true, [], none⟩ l r).toOption.isSome = true ∧
      (match binaryApply [] defaultFuel (.join ⟨.lit true, [], none⟩) l r with
        | .error .engine => true
        | _ => false) = true := by decide

/-- **Slices**: negative start. -/
theorem slice_rejected_negative (start : Int) (stop : Option Int) (h : start < 0) :
    UOp.mkSlice start stop = .error .value := by simp [UOp.mkSlice, h]

/-- **Slices**: stop before start. -/
theorem slice_rejected_reversed (start stop : Int) (h : stop < start) :
    UOp.mkSlice start (some stop) = .error .value := by
  unfold UOp.mkSlice
  split
  · rfl
  · simp [h]

/-- **Slices**: `relation[a:b:k]` with `k ≠ 1` is a `TypeError`. -/
theorem slice_rejected_step (st : Store) (t : Rel) (a b : Option Int) (k : Int) (h : k ≠ 1) :
    Rel.getItem st t a b (some k) = .error .type := by simp [Rel.getItem, h]

/-- ... and `relation[a:b]` with bad bounds is the constructor's `ValueError`. -/
theorem getitem_rejected_bounds (st : Store) (t : Rel) (a : Int) (b : Option Int)
    (h : UOp.mkSlice a b = .error .value) : Rel.getItem st t (some a) b none = .error .value := by
  simp [Rel.getItem, h]

/-- The Python `Slice(start, stop)` constructor check, as re-read from the source on this run, is
the model's `mkSlice`. -/
theorem bridge_Slice_new (s : Int) (e : Option Int) :
    Gen.Slice_new (.int s) (Bridge.optI e) = Bridge.sliceObj (UOp.mkSlice s e) :=
  Bridge.Slice_new_eq s e

/-- **Unsupported expressions**: constructing an operation node whose expressions the target's
engine does not support is an `EngineError`. -/
theorem unsupported_construct (op : UOp) (t : Rel) (h : op.isSupportedBy t.engine.kind = false) :
    op.construct t = .error .engine := by simp [UOp.construct, h]

/-- A calculation is never merged or elided, so this applies to it on every target. -/
theorem unsupported_calculation (tag : Tag) (e : Expr) (t : Rel)
    (h : (UOp.calc tag e).isSupportedBy t.engine.kind = false) :
    (UOp.calc tag e).finishApply t = .error .engine := by
  cases t <;> (unfold UOp.finishApply; simp [UOp.noopOn, UOp.simplify, UOp.construct, h])

/-- The `_begin_apply` checks of Calculation, Projection, Selection, Slice and Sort, as translated
from the current Python source on this run (translator T-e), are the model's `UOp.beginApply`. -/
theorem bridge_begin_apply_methods (t : Rel) (pref : Option Engine) :
    (∀ tag e, Gen.Calculation_begin_apply tag e t.columns t.engine pref = (UOp.calc tag e).beginApply t pref) ∧
    (∀ c, Gen.Projection_begin_apply c t.columns t.engine pref = (UOp.proj c).beginApply t pref) ∧
    (∀ p, Gen.Selection_begin_apply p t.columns t.engine pref = (UOp.sel p).beginApply t pref) ∧
    (∀ s e, Gen.Slice_begin_apply s e t.columns t.engine pref = (UOp.slice s e).beginApply t pref) ∧
    (∀ ts, Gen.Sort_begin_apply ts t.columns t.engine pref = (UOp.sort ts).beginApply t pref) :=
  ⟨fun tag e => Bridge.Calculation_begin_apply_eq tag e t pref, fun c => Bridge.Projection_begin_apply_eq c t pref,
   fun p => Bridge.Selection_begin_apply_eq p t pref, fun s e => Bridge.Slice_begin_apply_eq s e t pref,
   fun ts => Bridge.Sort_begin_apply_eq ts t pref⟩

/-- Tie to the source: `Join._begin_apply` (column checks, resolution of the common columns, the join-identity
short-cut and its cross-engine refusal), as translated from the current Python source on this run, is the model's
`joinBeginApply` - the function `cross_engine_join_apply_*` are stated with. -/
theorem bridge_join_begin_apply (j : JoinOp) (l r : Rel) : Gen.Join_begin_apply j l r = joinBeginApply j l r :=
  Bridge.Join_begin_apply_eq j l r

/-- Tie to the source: `Join._finish_apply` (join-identity short-cuts, the refusal of operands in different engines and
of an unsupported predicate), as translated from the current Python source on this run, is the model's. -/
theorem bridge_join_finish_apply (j : JoinOp) (l r : Rel) :
    Gen.Join_finish_apply j l r = binaryFinishApply (.join j) l r :=
  Bridge.Join_finish_apply_eq j l r

/-- Tie to the source: `PartialJoin._begin_apply` (the column check of `relation.join`), as translated from the current
Python source on this run, is the model's `PJoin.beginApply`. -/
theorem bridge_partial_join_begin_apply (fuel : Nat) (p : PJoin) (t : Rel) (pref : Option Engine) :
    Gen.PartialJoin_begin_apply (fuel+2) p t pref = p.beginApply t pref :=
  Bridge.PartialJoin_begin_apply_eq fuel p t pref

/-- `Chain._begin_apply`, as translated from the current source, is the model's `chainBeginApply`. -/
theorem bridge_chain_begin_apply (l r : Rel) : Gen.Chain_begin_apply l r = chainBeginApply l r :=
  Bridge.Chain_begin_apply_eq l r

/-! ### Non-vacuity -/

private def ta : Tag := ⟨"a", true⟩
private def tb : Tag := ⟨"b", false⟩
private def e0 : Engine := ⟨0, .iter⟩
private def leaf0 : Rel := .leaf 1 e0 [ta] "L" 0 none true 0

/-- a projection onto all columns plus a missing one is neither a no-op nor well-formed -/
example : (UOp.proj [ta, tb]).noopOn leaf0.columns = false ∧ (UOp.proj [ta, tb]).wfOn leaf0.columns = false := by
  decide
example : applyOp [] defaultFuel (.u (.proj [ta, tb])) leaf0 { pref := some ⟨7, .sql⟩, transfer := true }
    = .error .column := unary_rejected [] 99999 _ _ _ (by decide) (by decide)

end DafRel.Props.C20
