/-
Property C06 — static metadata (columns, row bounds, triviality flags) is truthful.

For every well-formed tree (any depth, all operations incl. join and chain) over truthful leaves.
-/
import DafRel.Lemmas.Metadata

namespace DafRel.Props.C06

open DafRel

/-- Every row of the result has exactly the relation's columns as keys, and the number of rows
(duplicates included) lies within `[min_rows, max_rows]`. -/
theorem metadata_truthful (σ : Leaves) (t : Rel) (hwf : t.WF) (htr : t.Truthful σ) :
    (∀ r, r ∈ sem σ t → ∀ c, (r c).isSome = true ↔ c ∈ t.columns) ∧
    t.minRows ≤ (sem σ t).length ∧
    (∀ m, t.maxRows = some m → (sem σ t).length ≤ m) :=
  let m := DafRel.metadata_truthful σ t hwf htr
  ⟨m.keys, m.lower, m.upper⟩

/-- The per-operation step the induction rests on (the formulas of `applied_min_rows`,
`applied_max_rows`, `applied_columns` for all seven unary operations, all bounds). -/
theorem unary_metadata_step (op : UOp) (rows : List Row) (tcols : Cols) (mn : Nat) (mx : Option Nat)
    (h : MetaOK rows tcols mn mx) (hwf : op.wfOn tcols = true) :
    MetaOK (op.sem (op.appliedColumns tcols) rows) (op.appliedColumns tcols) (op.appliedMinRows mn)
      (op.appliedMaxRows tcols mx) :=
  UOp.meta_ok op rows tcols mn mx h hwf

/-- `is_join_identity` is truthful: such a relation is exactly one empty row — so eliding a join
with it, or answering `[{}]` without executing, does not change a result. -/
theorem join_identity_sound (σ : Leaves) (t : Rel) (hwf : t.WF) (htr : t.Truthful σ)
    (h : t.isJoinIdentity = true) : sem σ t = [Row.empty] :=
  joinIdentity_sound σ t hwf htr h

/-- `max_rows == 0` is truthful: the relation has no rows — so short-circuiting execution and
dropping such chain branches does not change a result. -/
theorem empty_sound (σ : Leaves) (t : Rel) (hwf : t.WF) (htr : t.Truthful σ)
    (h : t.maxRows = some 0) : sem σ t = [] :=
  maxRows_zero_sound σ t hwf htr h

/-- `is_trivial` therefore pins the content completely. -/
theorem trivial_sound (σ : Leaves) (t : Rel) (hwf : t.WF) (htr : t.Truthful σ)
    (h : t.isTrivial = true) : sem σ t = [Row.empty] ∨ sem σ t = [] := by
  simp only [Rel.isTrivial, Bool.or_eq_true, beq_iff_eq] at h
  rcases h with h | h
  · exact Or.inl (joinIdentity_sound σ t hwf htr h)
  · exact Or.inr (maxRows_zero_sound σ t hwf htr h)

/-- Dropping a statically empty branch of a chain (what the processor does) keeps the rows. -/
theorem chain_prune_sound (σ : Leaves) (l r : Rel) (c : Cols) (hwf : (Rel.binary .chain l r c).WF)
    (htr : (Rel.binary .chain l r c).Truthful σ) :
    (l.maxRows = some 0 → sem σ (.binary .chain l r c) = sem σ r) ∧
    (r.maxRows = some 0 → sem σ (.binary .chain l r c) = sem σ l) := by
  simp only [Rel.WF] at hwf
  simp only [Rel.Truthful] at htr
  constructor
  · intro h
    simp [sem, maxRows_zero_sound σ l hwf.1 htr.1 h]
  · intro h
    simp [sem, maxRows_zero_sound σ r hwf.2.1 htr.2 h]

/-! ### Non-vacuity: a concrete well-formed tree over a truthful leaf -/

private def ta : Tag := ⟨"a", true⟩
private def leaf0 : Rel := .leaf 1 ⟨0, .iter⟩ [ta] "L" 2 (some 3) true 0
private def tree0 : Rel := .unary (.slice 1 (some 2)) (.unary .dedup leaf0 [ta]) [ta]
private def σ0 : Leaves := fun _ => [Row.empty.set ta 1, Row.empty.set ta 1, Row.empty.set ta 2]

example : tree0.WF := by
  simp [tree0, leaf0, Rel.WF, UOp.appliedColumns, UOp.wfOn, UOp.columnsRequired, Cols.subset, Rel.columns]
example : tree0.minRows = 0 ∧ tree0.maxRows = some 1 := by decide
example : (sem σ0 tree0).length = 1 := by decide

end DafRel.Props.C06
