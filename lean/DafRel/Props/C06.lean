/-
Property C06 — static metadata (columns, row bounds, triviality flags) is truthful.

For every well-formed tree (any depth, all operations incl. join and chain) over truthful leaves.
-/
import DafRel.Lemmas.Metadata
import DafRel.Bridge.Kernel
import DafRel.Bridge.Tables

namespace DafRel.Props.C06

open DafRel

/-- Every row of the result has exactly the relation's columns as keys, and the number of rows
(duplicates included) lies within `[min_rows, max_rows]`. -/
theorem metadata_truthful (σ : Leaves) (t : Rel) (hwf : t.WF) (htr : t.Truthful σ) :
    (∀ r, r ∈ sem σ t → ∀ c, (r c).isSome = true ↔ c ∈ t.columns) ∧
    t.minRows ≤ (sem σ t).length ∧
    (∀ m, t.maxRows = some m → (sem σ t).length ≤ m) :=
  let m := DafRel.metadata_truthful σ t hwf htr
  ⟨m.keys, m.lower, m.upper⟩

/-- The per-operation step the induction rests on (the formulas of `applied_min_rows`,
`applied_max_rows`, `applied_columns` for all seven unary operations, all bounds). -/
theorem unary_metadata_step (op : UOp) (rows : List Row) (tcols : Cols) (mn : Nat) (mx : Option Nat)
    (h : MetaOK rows tcols mn mx) (hwf : op.wfOn tcols = true) :
    MetaOK (op.sem (op.appliedColumns tcols) rows) (op.appliedColumns tcols) (op.appliedMinRows mn)
      (op.appliedMaxRows tcols mx) :=
  UOp.meta_ok op rows tcols mn mx h hwf

/-- `is_join_identity` is truthful: such a relation is exactly one empty row — so eliding a join
with it, or answering `[{}]` without executing, does not change a result. -/
theorem join_identity_sound (σ : Leaves) (t : Rel) (hwf : t.WF) (htr : t.Truthful σ)
    (h : t.isJoinIdentity = true) : sem σ t = [Row.empty] :=
  joinIdentity_sound σ t hwf htr h

/-- `max_rows == 0` is truthful: the relation has no rows — so short-circuiting execution and
dropping such chain branches does not change a result. -/
theorem empty_sound (σ : Leaves) (t : Rel) (hwf : t.WF) (htr : t.Truthful σ)
    (h : t.maxRows = some 0) : sem σ t = [] :=
  maxRows_zero_sound σ t hwf htr h

/-- `is_trivial` therefore pins the content completely. -/
theorem trivial_sound (σ : Leaves) (t : Rel) (hwf : t.WF) (htr : t.Truthful σ)
    (h : t.isTrivial = true) : sem σ t = [Row.empty] ∨ sem σ t = [] := by
  simp only [Rel.isTrivial, Bool.or_eq_true, beq_iff_eq] at h
  rcases h with h | h
  · exact Or.inl (joinIdentity_sound σ t hwf htr h)
  · exact Or.inr (maxRows_zero_sound σ t hwf htr h)

/-- Dropping a statically empty branch of a chain (what the processor does) keeps the rows. -/
theorem chain_prune_sound (σ : Leaves) (l r : Rel) (c : Cols) (hwf : (Rel.binary .chain l r c).WF)
    (htr : (Rel.binary .chain l r c).Truthful σ) :
    (l.maxRows = some 0 → sem σ (.binary .chain l r c) = sem σ r) ∧
    (r.maxRows = some 0 → sem σ (.binary .chain l r c) = sem σ l) := by
  simp only [Rel.WF] at hwf
  simp only [Rel.Truthful] at htr
  constructor
  · intro h
    simp [sem, maxRows_zero_sound σ l hwf.1 htr.1 h]
  · intro h
    simp [sem, maxRows_zero_sound σ r hwf.2.1 htr.2 h]

/-! ### Tie to the source: the row-bound formulas proved about are the ones in the Python code -/

theorem bridge_slice_bounds (s : Nat) (e : Option Nat) (c : Cols) (tmin : Nat) (tmax : Option Nat) :
    Gen.Slice_applied_min_rows (.int s) (Bridge.optN e) (.int tmin)
      = .ok (.int ((UOp.slice s e).appliedMinRows tmin : Nat)) ∧
    Gen.Slice_applied_max_rows (.int s) (Bridge.optN e) (Bridge.optN tmax)
      = .ok (Bridge.optN ((UOp.slice s e).appliedMaxRows c tmax)) :=
  ⟨Bridge.Slice_applied_min_rows_eq s e tmin, Bridge.Slice_applied_max_rows_eq s e c tmax⟩

theorem bridge_dedup_bounds (c : Cols) (tmin : Nat) (tmax : Option Nat) :
    Gen.Deduplication_applied_min_rows (.int tmin) = .ok (.int (UOp.dedup.appliedMinRows tmin : Nat)) ∧
    Gen.Deduplication_applied_max_rows (.bool (!c.isEmpty)) (Bridge.optN tmax)
      = .ok (Bridge.optN (UOp.dedup.appliedMaxRows c tmax)) :=
  ⟨Bridge.Deduplication_applied_min_rows_eq tmin, Bridge.Deduplication_applied_max_rows_eq c tmax⟩

theorem bridge_binary_bounds (a b : Nat) (x y : Option Nat) :
    Gen.Chain_applied_min_rows (.int a) (.int b) = .ok (.int (BOp.chainMinRows a b : Nat)) ∧
    Gen.Chain_applied_max_rows (Bridge.optN x) (Bridge.optN y) = .ok (Bridge.optN (BOp.chainMaxRows x y)) ∧
    Gen.Join_applied_min_rows = .ok (.int 0) ∧
    Gen.Join_applied_max_rows (Bridge.optN x) (Bridge.optN y) = .ok (Bridge.optN (JoinOp.appliedMaxRows x y)) :=
  ⟨Bridge.Chain_applied_min_rows_eq a b, Bridge.Chain_applied_max_rows_eq x y, Bridge.Join_applied_min_rows_eq,
   Bridge.Join_applied_max_rows_eq x y⟩

theorem bridge_passthrough_bounds (p : Pred) (tmin : Nat) (tmax : Option Nat) :
    Gen.Selection_applied_min_rows = .ok (.int ((UOp.sel p).appliedMinRows tmin : Nat)) ∧
    Gen.Projection_applied_min_rows (.int tmin) = .ok (.int tmin) ∧
    Gen.Calculation_applied_min_rows (.int tmin) = .ok (.int tmin) ∧
    Gen.Reordering_applied_min_rows (.int tmin) = .ok (.int tmin) ∧
    Gen.Reordering_applied_max_rows (Bridge.optN tmax) = .ok (Bridge.optN tmax) ∧
    Gen.UnaryOperation_applied_max_rows (Bridge.optN tmax) = .ok (Bridge.optN tmax) :=
  ⟨rfl, rfl, rfl, rfl, rfl, rfl⟩

theorem bridge_triviality_flags (r : Rel) :
    Gen.Relation_is_join_identity (.bool (!r.columns.isEmpty)) (Bridge.optN r.maxRows) (.int r.minRows)
      = .ok (.bool r.isJoinIdentity) ∧
    Gen.Relation_is_trivial (.bool r.isJoinIdentity) (Bridge.optN r.maxRows) = .ok (.bool r.isTrivial) :=
  ⟨Bridge.Relation_is_join_identity_eq r, Bridge.Relation_is_trivial_eq r⟩

/-! ### Non-vacuity: a concrete well-formed tree over a truthful leaf -/

private def ta : Tag := ⟨"a", true⟩
private def leaf0 : Rel := .leaf 1 ⟨0, .iter⟩ [ta] "L" 2 (some 3) true 0
private def tree0 : Rel := .unary (.slice 1 (some 2)) (.unary .dedup leaf0 [ta]) [ta]
private def σ0 : Leaves := fun _ => [Row.empty.set ta 1, Row.empty.set ta 1, Row.empty.set ta 2]

example : tree0.WF := by
  simp [tree0, leaf0, Rel.WF, UOp.appliedColumns, UOp.wfOn, UOp.columnsRequired, Cols.subset, Rel.columns]
example : tree0.minRows = 0 ∧ tree0.maxRows = some 1 := by decide
example : (sem σ0 tree0).length = 1 := by decide

end DafRel.Props.C06
