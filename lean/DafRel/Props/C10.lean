/-
Property C10 — payloads are write-once and materializations are computed at most once.

Quantifiers: every history (of any length) of `attach_payload` and iteration-engine `execute`
calls, on any trees (well-formed or not) that share any materialization nodes, from any starting
store.  The only structural assumption is that the object graph is acyclic (`Rel.Acyclic`: a
materialization does not occur in its own upstream tree), which holds of immutable objects built
bottom-up.

Model.  The payload store is keyed by allocation id (= Python object identity of the marker).
`attachTarget` is `attach_payload`; `exec` is `iteration.Engine.execute`; `ExecState.evals` is a
ghost log that records each evaluation of a materialization's upstream tree (never read by the
engine).  `Processor.process`: `processing_is_write_once` (below) covers one `process` call on the class of
multi-engine trees of C07 (operations in iteration engines; transfers between iteration engines and out of a SQL
engine; materializations of single-engine subtrees and directly after a transfer); `repeated_processing_is_write_once` extends it
to ANY NUMBER of `process` calls on the same tree, each starting in the state the previous one left; `process` on other
trees and histories mixing `process` with `execute` are validated by correspondence and by the C10 oracle
(Model/Processor.lean).
-/
import DafRel.Lemmas.Payload
import DafRel.Lemmas.ProcMulti

namespace DafRel.Props.C10

open DafRel

/-- `attach_payload` succeeds exactly on a marker relation whose payload is `None`; everything
else (operation relations, leaves, markers that already hold a payload) is a `TypeError`. -/
theorem attach_only_on_empty_markers (hasPay : Nat → Bool) (r : Rel) :
    (match r with
     | .mat oid .. | .transfer oid .. | .select oid .. =>
       attachTarget hasPay r = (if hasPay oid then .error .type else .ok oid)
     | .leaf .. | .unary .. | .binary .. => attachTarget hasPay r = .error .type) := by
  cases r <;> rfl

/-- One call of `execute`: nothing already in the store is replaced or cleared; payloads appear
only on materialization nodes of the executed tree; the upstream tree of a materialization that
was evaluated before is not evaluated again. -/
theorem execute_respects_store (σ : Leaves) (r : Rel) (self : Engine) (s : ExecState) (it : Iterable)
    (s' : ExecState) (hac : r.Acyclic) (h : exec σ self r s = .ok (it, s')) : ExecFrame r s s' :=
  exec_frame σ r self s it s' hac h

/-- A materialization that holds a payload is not re-evaluated: `execute` hands back the cached
payload object and changes nothing (no leaf iteration, no evaluation, no store update). -/
theorem cached_materialization_is_reused (σ : Leaves) (oid : Nat) (name : String) (t : Rel)
    (self : Engine) (s : ExecState) (p : Iterable) (hp : s.payload oid = some p)
    (he : t.engine = self) (h0 : t.maxRows ≠ some 0) (hj : (Rel.mat oid name t).isJoinIdentity = false) :
    exec σ self (.mat oid name t) s = .ok (p, s) := by
  rw [exec]
  have h1 : ((Rel.mat oid name t).engine != self) = false := by simp [Rel.engine, he]
  have h2 : ((Rel.mat oid name t).maxRows == some 0) = false := by simpa [Rel.maxRows] using h0
  simp [h1, h2, hj, Rel.payloadIt, Rel.oid, hp]

/-- ... and in the two metadata short-cut cases nothing is evaluated or stored either. -/
theorem shortcut_touches_nothing (σ : Leaves) (r : Rel) (self : Engine) (s : ExecState) (it : Iterable)
    (s' : ExecState) (h : exec σ self r s = .ok (it, s'))
    (hsc : r.maxRows = some 0 ∨ r.isJoinIdentity = true) : s' = s := by
  rw [exec.eq_def] at h
  by_cases he : (r.engine != self) = true
  · simp [he] at h
  · by_cases h0 : (r.maxRows == some 0) = true
    · simp only [he, h0, if_true, if_false] at h
      injection h with h; injection h with _ h; exact h.symm
    · by_cases hj : r.isJoinIdentity = true
      · simp only [he, h0, hj, if_true, if_false] at h
        injection h with h; injection h with _ h; exact h.symm
      · rcases hsc with h | h
        · simp [h] at h0
        · exact absurd h hj

/-! ### Histories -/

/-- One externally issued call. -/
inductive Step where
  | execute (e : Engine) (r : Rel)
  | attach (r : Rel) (payload : Iterable)

def stepAcyclic : Step → Prop
  | .execute _ r => r.Acyclic
  | .attach _ _ => True

/-- A failing call leaves the store as it was (the model's `Except` carries no state; under the
hypotheses of C01 `execute` does not fail). -/
def step (σ : Leaves) (s : ExecState) : Step → ExecState
  | .execute e r =>
    match exec σ e r s with
    | .ok (_, s') => s'
    | .error _ => s
  | .attach r payload =>
    match attachTarget (fun o => (s.payload o).isSome) r with
    | .ok oid => { s with payloads := (oid, payload) :: s.payloads }
    | .error _ => s

theorem step_mono (σ : Leaves) (s : ExecState) (st : Step) (hac : stepAcyclic st) :
    (∀ o p, s.payload o = some p → (step σ s st).payload o = some p) ∧
      (EvalsOK s → EvalsOK (step σ s st)) := by
  cases st with
  | execute e r =>
    simp only [step]
    cases h : exec σ e r s with
    | error _ => exact ⟨fun _ _ h => h, fun h => h⟩
    | ok x =>
      obtain ⟨it, s'⟩ := x
      have f := exec_frame σ r e s it s' hac h
      exact ⟨f.mono, f.evalsOK⟩
  | attach r payload =>
    simp only [step]
    cases h : attachTarget (fun o => (s.payload o).isSome) r with
    | error _ => exact ⟨fun _ _ h => h, fun h => h⟩
    | ok oid =>
      have hfree : s.payload oid = none := by
        cases r <;> simp only [attachTarget] at h <;> try (cases h)
        all_goals
          split at h
          · cases h
          · injection h with h
            subst h
            rename_i hn
            cases hp : s.payload _ with
            | none => rfl
            | some p => simp [hp] at hn
      have hpay : ∀ o, ({ s with payloads := (oid, payload) :: s.payloads } : ExecState).payload o =
          if oid = o then some payload else s.payload o := ExecState.payload_cons s oid payload
      refine ⟨?_, ?_⟩
      · intro o p hp
        rw [hpay]
        have : oid ≠ o := by intro he; subst he; simp [hfree] at hp
        rw [if_neg this]; exact hp
      · intro hok
        refine ⟨hok.1, ?_⟩
        intro o ho
        rw [hpay]
        by_cases he : oid = o
        · simp [he]
        · rw [if_neg he]; exact hok.2 o ho

/-- **C10 over histories.**  Along any history of `attach_payload` and `execute` calls, a payload
that is non-`None` at some point is the same object at every later point, and the upstream tree
of every materialization node is evaluated at most once in the whole history. -/
theorem history_write_once_evaluate_once (σ : Leaves) (hist : List Step)
    (hac : ∀ st, st ∈ hist → stepAcyclic st) (s : ExecState) (hok : EvalsOK s) :
    (∀ o p, s.payload o = some p → (hist.foldl (step σ) s).payload o = some p) ∧
      (hist.foldl (step σ) s).evals.Nodup := by
  induction hist generalizing s with
  | nil => exact ⟨fun _ _ h => h, hok.1⟩
  | cons st rest ih =>
    have h1 := step_mono σ s st (hac st (by simp))
    have h2 := ih (fun x hx => hac x (by simp [hx])) (step σ s st) (h1.2 hok)
    exact ⟨fun o p hp => h2.1 o p (h1.1 o p hp), h2.2⟩

/-- **`Processor.process` is write-once too** (the class of trees of C07, any recursion budget, any starting state
that satisfies the processing invariant): every payload that was in the store is still there afterwards - the same
object, not a recomputed one -; payloads were ADDED only to Materializations of the input tree and to nodes the
Processor created itself; nothing was attached on the database side. -/
theorem processing_is_write_once (σ : Leaves) (sq0 : SqlState) (h0 : sq0.payload 0 = none) (t : Rel)
    (fuel : Nat) (matAs : Option String) (s : ProcState) (reg : Nat → Option (List Row)) (hm : t.MultiIter)
    (hsql : t.SqlSrcOK σ sq0) (T : TreeInv σ reg sq0 t s) (hf : t.size ≤ fuel)
    (res : Res) (b : Bool) (s' : ProcState) (h : (processRec σ fuel t matAs).run.run s = (.ok (res, b), s')) :
    (∀ o p, s.st.payload o = some p → s'.st.payload o = some p) ∧
      (∀ o, (s'.st.payload o).isSome = true → (s.st.payload o).isSome = true ∨ o ∈ t.matOids ∨ s.nextTemp ≤ o) ∧
      s'.sq = s.sq := by
  obtain ⟨reg', _, P⟩ := process_multi_iter σ h0 t fuel matAs s reg hm hsql T hf res b s' h
  exact ⟨P.keep, P.newp, P.inv.sq.trans T.sq.symm⟩

/-- **Any number of `process` calls are write-once** (`ProcRuns`: each call starts in the state the previous one left):
after EVERY call of the sequence, every payload that was in the store before the first call is still there - the same
object -, payloads have only been added on Materializations of the input tree or on nodes the Processor created since
then, and nothing was attached on the database side. -/
theorem repeated_processing_is_write_once (σ : Leaves) (sq0 : SqlState) (h0 : sq0.payload 0 = none) (t : Rel)
    (fuel : Nat) (hm : t.MultiIter) (hsql : t.SqlSrcOK σ sq0) (hf : t.size ≤ fuel)
    (runs : List (Res × ProcState)) (s : ProcState) (reg : Nat → Option (List Row)) (T : TreeInv σ reg sq0 t s)
    (hruns : ProcRuns σ fuel t s runs) :
    ∀ x, x ∈ runs →
      (∀ o p, s.st.payload o = some p → x.2.st.payload o = some p) ∧
      (∀ o, (x.2.st.payload o).isSome = true → (s.st.payload o).isSome = true ∨ o ∈ t.matOids ∨ s.nextTemp ≤ o) ∧
      x.2.sq = s.sq := by
  intro x hx
  obtain ⟨k, n, q, _⟩ := process_repeatedly_write_once σ h0 t fuel hm hsql hf runs s reg T hruns x hx
  exact ⟨k, n, q⟩

/-- The empty store is a valid starting point. -/
theorem evalsOK_empty : EvalsOK {} := by
  refine ⟨List.nodup_nil, ?_⟩
  intro o ho
  cases ho

/-! ### Non-vacuity: executing a materialization twice evaluates its upstream tree once -/

private def ta : Tag := ⟨"a", true⟩
private def e0 : Engine := ⟨0, .iter⟩
private def leaf0 : Rel := .leaf 1 e0 [ta] "L" 2 (some 2) true 0
private def σ0 : Leaves := fun _ => [Row.empty.set ta 2, Row.empty.set ta 1]
private def tree0 : Rel := .mat 5 "m" (.unary (.sort [⟨.ref ta, true⟩]) leaf0 [ta])

example : tree0.Acyclic := by simp [tree0, Rel.Acyclic, Rel.matOids, leaf0]
example : ([Step.execute e0 tree0, Step.execute e0 tree0].foldl (step σ0) {}).evals = [5] := by decide
example : ([Step.execute e0 tree0, Step.execute e0 tree0].foldl (step σ0) {}).log = [1] := by decide

/-- the processing invariant `TreeInv` of `processing_is_write_once` is satisfiable: a materialized leaf, nothing
stored yet, the Processor's first temporary id still to be handed out -/
example : TreeInv (fun _ => []) (fun o => if o = 5 then some [] else none) {}
    (Rel.mat 5 "m" (.leaf 1 ⟨1, .iter⟩ [] "L" 0 none true 0)) { st := {}, sq := {} } ∧
    (Rel.mat 5 "m" (.leaf 1 ⟨1, .iter⟩ [] "L" 0 none true 0)).MultiIter := by
  refine ⟨⟨trivial, ⟨(fun r hr => by cases hr), Nat.zero_le _, (fun m hm => by cases hm)⟩, rfl, ⟨rfl, trivial⟩,
    ⟨by decide, trivial⟩, StoreOK_empty _ _, rfl, ⟨rfl, rfl⟩, fun _ _ => rfl, fun _ _ => rfl,
    ⟨by simp [Rel.matOids], trivial⟩, (fun o ho => by simp [Rel.matOids] at ho; omega), by decide⟩, rfl,
    Or.inl ⟨rfl, rfl⟩⟩

/-- `ProcRuns` of `repeated_processing_is_write_once` is satisfiable from that very state: two consecutive `process`
calls on that tree succeed in the model -/
example : ∃ runs, ProcRuns (fun _ => []) 5 (Rel.mat 5 "m" (.leaf 1 ⟨1, .iter⟩ [] "L" 0 none true 0))
    { st := {}, sq := {} } runs ∧ runs.length = 2 :=
  ⟨[_, _], ProcRuns.cons (b := _) rfl (ProcRuns.cons (b := _) rfl (ProcRuns.nil _)), rfl⟩

end DafRel.Props.C10
