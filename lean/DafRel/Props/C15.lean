/-
Property C15 — transfer/materialize simplifications keep content; locked trees are inviolate.

Proved (model level; all trees, all fuels):
  * `Transfer.simplify`: whatever relation it hands back has the content of the original, lives in
    the requested engine, and is reached from the original through transfers and unlocked (Select)
    markers only - never through a leaf or a materialization (`transferSimplify_sound`);
  * `relation.transferred_to(engine)` towards an iteration engine from an iteration-engine
    relation: the result has the original content and lives in the requested engine; transferring
    a relation to its own engine returns the relation itself when there is nothing to simplify
    (`transfer_between_iteration_engines`, `transfer_to_own_engine_is_same`);
  * `relation.materialized()` of a leaf or of a materialization (also behind same-engine
    transfers/Select markers) adds no materialization, in either engine family
    (`materialize_locked_adds_nothing_*`);
  * back-tracking never goes below a locked node: `backtrack_unary` on a locked tree inserts
    nothing (`backtrack_stops_at_locked`), and every locked node of the tree returned by
    `_finish_apply` (with all its merging) is a locked node of the input, unchanged
    (`finishApply_keeps_locked_nodes`).
  * transfers out of / into / between SQL engines and `materialized()` inside a SQL engine go through
    `conform`: by the tree-building induction of C17 they keep rows and columns, land in the requested
    engine and are well-formed (`transfer_through_sql_keeps_content`, `materialize_sql_keeps_content`).
Partial: a transfer whose `Transfer.simplify` strips a there-and-back pair ending in a SQL relation that
is not a raw tree (the stripped subtree lies below a transfer node, where the theorems assume nothing).
-/
import DafRel.Lemmas.Build
import DafRel.Lemmas.ConformSound
import DafRel.Lemmas.SqlTransfer
import DafRel.Bridge.Tables
import DafRel.Bridge.Dispatch
import DafRel.Bridge.RelOps

namespace DafRel.Props.C15


open DafRel

/-- Reached from `t` through transfer nodes and Select markers only. -/
inductive ThroughUnlocked : Rel → Rel → Prop where
  | refl (t : Rel) : ThroughUnlocked t t
  | transfer (oid : Nat) (d : Engine) (t u : Rel) : ThroughUnlocked t u → ThroughUnlocked (.transfer oid d t) u
  | select (oid : Nat) (so : List SortTerm) (pr : Option Cols) (dd : Bool) (a : Nat) (b : Option Nat)
      (sk : Rel) (ic : Bool) (t u : Rel) : ThroughUnlocked t u → ThroughUnlocked (.select oid so pr dd a b sk ic t) u

theorem ThroughUnlocked.sem_eq (σ : Leaves) {t u : Rel} (h : ThroughUnlocked t u) : sem σ u = sem σ t := by
  induction h with
  | refl => rfl
  | transfer _ _ _ _ _ ih => simpa [sem] using ih
  | select _ _ _ _ _ _ _ _ _ _ _ ih => simpa [sem] using ih

/-- `Transfer.simplify(target, destination)`: content preserved, requested engine, only unlocked
markers crossed. -/
theorem transferSimplify_sound (σ : Leaves) (dest : Engine) : (t u : Rel) → transferSimplify dest t = some u →
    sem σ u = sem σ t ∧ u.engine = dest ∧ ThroughUnlocked t u
  | .transfer oid d t', u, h => by
    simp only [transferSimplify] at h
    split at h
    · rename_i he
      injection h with h; subst h
      exact ⟨by simp [sem], by simpa using (beq_iff_eq.mp he).symm, .transfer _ _ _ _ (.refl _)⟩
    · obtain ⟨h1, h2, h3⟩ := transferSimplify_sound σ dest t' u h
      exact ⟨by simpa [sem] using h1, h2, .transfer _ _ _ _ h3⟩
  | .select oid so pr dd a b sk ic t', u, h => by
    simp only [transferSimplify] at h
    obtain ⟨h1, h2, h3⟩ := transferSimplify_sound σ dest t' u h
    exact ⟨by simpa [sem] using h1, h2, .select _ _ _ _ _ _ _ _ _ _ h3⟩
  | .leaf .., _, h => by simp [transferSimplify] at h
  | .unary .., _, h => by simp [transferSimplify] at h
  | .binary .., _, h => by simp [transferSimplify] at h
  | .mat .., _, h => by simp [transferSimplify] at h

/-- Transfer between iteration engines (including "to another engine and straight back"):
original content, requested engine. -/
theorem transfer_between_iteration_engines (σ : Leaves) (st : Store) (fuel : Nat) (dest : Engine)
    (t : Rel) (res : Res) (hd : dest.kind = .iter)
    (hsrc : ∀ u, ThroughUnlocked t u → u.engine.kind = .iter)
    (h : transferTo st (fuel+2) dest t = .ok res) :
    sem σ (res.get t) = sem σ t ∧ (res.get t).engine = dest := by
  rw [transferTo] at h
  simp only [hd, bind, Except.bind, pure, Except.pure] at h
  cases hs : transferSimplify dest t with
  | some u =>
    obtain ⟨h1, h2, h3⟩ := transferSimplify_sound σ dest t u hs
    have : (u.engine == dest) = true := by simp [h2]
    simp [hs, this] at h
    subst h
    exact ⟨h1, h2⟩
  | none =>
    simp only [hs] at h
    by_cases he : (t.engine == dest) = true
    · simp [he] at h
      subst h
      exact ⟨rfl, by simpa [Res.get] using he⟩
    · have hk := hsrc t (.refl t)
      simp [he, conformIn, hk] at h
      subst h
      exact ⟨by simp [Res.get, sem], rfl⟩

/-- Transferring a relation to its own engine, when there is nothing to simplify, returns the
relation itself (`result is target`). -/
theorem transfer_to_own_engine_is_same (st : Store) (fuel : Nat) (t : Rel)
    (hk : t.engine.kind = .iter) (hs : transferSimplify t.engine t = none) :
    transferTo st (fuel+1) t.engine t = .ok .same := by
  rw [transferTo]
  simp [hs, hk, bind, Except.bind, pure, Except.pure]

/-- Materializing a leaf or an already materialized relation (also behind same-engine transfers
and Select markers) in an iteration engine returns the relation itself. -/
theorem materialize_locked_adds_nothing_iter (st : Store) (fuel : Nat) (t : Rel) (name : String)
    (hk : t.engine.kind = .iter) (hm : matSimplify t = true) :
    materialize st (fuel+1) t name = .ok .same := by
  rw [materialize]; simp [hk, hm]

/-- The same in the SQL engine: the (conformed) relation is returned, no `Materialization` node
is created. -/
theorem materialize_locked_adds_nothing_sql (st : Store) (fuel : Nat) (t : Rel) (name : String)
    (res : Res) (hk : t.engine.kind = .sql) (h : materialize st (fuel+1) t name = .ok res)
    (ct : Res) (hc : conform st fuel t = .ok ct) (hm : matSimplify (ct.get t) = true) : res = ct := by
  rw [materialize] at h
  simp only [hk, hc, bind, Except.bind] at h
  split at h
  · cases h
  · simp [hm, pure, Except.pure] at h
    exact h.symm

/-- **A database engine never back-tracks**: whatever the operation and the tree, `backtrack_unary` of a SQL engine
hands the tree back, so nothing is ever inserted upstream of anything - locked or not - inside a database.  The model
fact (first conjunct) stands for the code through the second: on this run `sql.Engine` inherits `backtrack_unary` from the
base class, whose body is `return tree, False, ...` (re-read from the live classes). -/
theorem sql_engine_never_backtracks (st : Store) (fuel : Nat) (op : AnyOp) (tree : Rel) (pref : Engine)
    (hk : tree.engine.kind = .sql) :
    backtrack st (fuel+1) op tree pref = .ok (.same, false) ∧
    ("sql.Engine", "backtrack_unary", "_engine.Engine") ∈ Gen.dispatch ∧
    ("_engine.Engine", "backtrack_unary:body", "return tree, False") ∈ Gen.dispatch := by
  refine ⟨?_, ?_, ?_⟩
  · rw [backtrack.eq_def]; simp only [hk]
  · rw [Bridge.dispatch_eq]; decide
  · rw [Bridge.dispatch_eq]; decide

/-- Tie to the source: which class defines each engine method the model dispatches on. -/
theorem bridge_engine_dispatch : Gen.dispatch.length = 13 ∧
    (Gen.dispatch.filter (fun r => r.1 == "sql.Engine" && r.2.2 == "_engine.Engine")).map (·.2.1) = ["backtrack_unary"] ∧
    (Gen.dispatch.filter (fun r => r.1 == "iteration.Engine" && r.2.2 != "_engine.Engine")).map (·.2.1) =
      ["backtrack_unary"] := by
  rw [Bridge.dispatch_eq]; decide

/-- Back-tracking never inserts anything upstream of a locked node (leaf or materialization). -/
theorem backtrack_stops_at_locked (st : Store) (fuel : Nat) (op : AnyOp) (tree : Rel) (pref : Engine)
    (h : tree.isLocked = true) : backtrack st (fuel+1) op tree pref = .ok (.same, false) := by
  cases tree with
  | leaf a b c d e f g i =>
    rw [backtrack.eq_def]
    simp only [Rel.isLocked, if_true]
    split <;> rfl
  | mat a b c =>
    rw [backtrack.eq_def]
    simp only [Rel.isLocked, if_true]
    split <;> rfl
  | unary _ _ _ => simp [Rel.isLocked] at h
  | binary _ _ _ _ => simp [Rel.isLocked] at h
  | transfer _ _ _ => simp [Rel.isLocked] at h
  | select _ _ _ _ _ _ _ _ _ => simp [Rel.isLocked] at h

/-- `is_locked` as re-read from the source: exactly leaves and materializations. -/
theorem bridge_locked : Gen.locked =
    [("LeafRelation", true), ("UnaryOperationRelation", false), ("BinaryOperationRelation", false),
     ("Materialization", true), ("Transfer", false), ("Select", false)] := Bridge.locked_eq

/-- `Transfer.simplify` and `Materialization.simplify`, as translated from the current Python source
on this run (translator T-f), are the model's `transferSimplify` / `matSimplify` that the theorems
above are about. -/
theorem bridge_simplify_methods (dest : Engine) (t : Rel) :
    Gen.Transfer_simplify dest t = transferSimplify dest t ∧ Gen.Materialization_simplify t = matSimplify t :=
  ⟨Bridge.Transfer_simplify_eq dest t, Bridge.Materialization_simplify_eq t⟩

/-- The locked nodes (whole subtrees rooted at a leaf or a materialization) of a tree. -/
def lockedNodes : Rel → List Rel
  | .leaf a b c d e f g h => [.leaf a b c d e f g h]
  | .unary _ t _ => lockedNodes t
  | .binary _ l r _ => lockedNodes l ++ lockedNodes r
  | .mat oid n t => .mat oid n t :: lockedNodes t
  | .transfer _ _ t => lockedNodes t
  | .select _ _ _ _ _ _ _ _ t => lockedNodes t

/-- Every locked node of the tree `_finish_apply` returns - after any amount of merging and
elision - is a locked node of the input, unchanged down to its leaves. -/
theorem finishApply_keeps_locked_nodes (t : Rel) (op : UOp) (res : Res) (h : op.finishApply t = .ok res) :
    ∀ n, n ∈ lockedNodes (res.get t) → n ∈ lockedNodes t := by
  have := finishApply_pres (fun r => ∀ n, n ∈ lockedNodes r → n ∈ lockedNodes t) (fun _ => True) (fun _ => True)
    (fun up t' c hp => ⟨by simpa [lockedNodes] using hp, trivial⟩)
    (fun op t' c hp _ _ => by simpa [lockedNodes] using hp)
    (fun _ _ _ _ _ _ => trivial) t op res (fun _ hn => hn) trivial h
  exact this

/-! ### Non-vacuity -/

private def ta : Tag := ⟨"a", true⟩
private def e0 : Engine := ⟨0, .iter⟩
private def e1 : Engine := ⟨1, .iter⟩
private def leaf0 : Rel := .leaf 1 e0 [ta] "L" 0 none true 0
/-- to `e1` and straight back to `e0`: the original leaf -/
example : (transferTo [] defaultFuel e0 (.transfer 0 e1 leaf0)).toOption.map (fun r => (r.get (.transfer 0 e1 leaf0)).oid)
    = some 1 := by decide
example : materialize [] defaultFuel leaf0 "m" = .ok .same := by rfl

/-- `relation.transferred_to(dest)` when the source or the destination is a SQL engine (nothing to strip
by `Transfer.simplify`): same rows and columns, requested engine, well-formed. -/
theorem transfer_through_sql_keeps_content (σ : Leaves) (st : Store) (fuel : Nat) (dest : Engine) (t : Rel)
    (res : Res) (hwf : t.WF) (htr : t.Truthful σ) (hraw : t.engine.kind = .sql → t.RawSql)
    (hs : transferSimplify dest t = none) (h : transferTo st fuel dest t = .ok res) :
    sem σ (res.get t) = sem σ t ∧ (∀ c, c ∈ (res.get t).columns ↔ c ∈ t.columns) ∧
      (res.get t).WF ∧ (t.engine ≠ dest → (res.get t).engine = dest) :=
  let T := transferTo_sql_sound σ st fuel dest t res hwf htr hraw hs h
  ⟨T.1, T.2.1, T.2.2.1, T.2.2.2.2.1⟩

/-- `relation.materialized(name)` inside a SQL engine: same rows and columns, same engine, well-formed. -/
theorem materialize_sql_keeps_content (σ : Leaves) (st : Store) (fuel : Nat) (t : Rel) (name : String)
    (res : Res) (hwf : t.WF) (htr : t.Truthful σ) (hraw : t.RawSql) (h : materialize st fuel t name = .ok res) :
    sem σ (res.get t) = sem σ t ∧ (∀ c, c ∈ (res.get t).columns ↔ c ∈ t.columns) ∧
      (res.get t).WF ∧ (res.get t).engine = t.engine := by
  have hk := Rel.RawSql.engine t hraw
  cases fuel with
  | zero => rw [materialize] at h; cases h
  | succ fuel =>
    rw [materialize] at h
    simp only [hk, bind, Except.bind, pure, Except.pure] at h
    cases hc : conform st fuel t with
    | error e => simp [hc] at h
    | ok ct =>
      simp only [hc] at h
      obtain ⟨g, C⟩ := (treeBuild_sound σ st fuel).conform t ct (raw_good σ t hwf htr hraw) hc
      split at h
      · cases h
      · split at h
        · injection h with h; subst h
          exact ⟨C.sem_eq, C.cols, C.ok.wf, C.engine⟩
        · cases ha : applySkip (Rel.mat 0 name (ct.get t)) {} with
          | error e => simp [ha] at h
          | ok r =>
            simp only [ha] at h
            injection h with h; subst h
            have gM : Good NodeInv.triv σ (Rel.mat 0 name (ct.get t)) :=
              Good.atom _ rfl C.ok.wf C.ok.truthful (by show (ct.get t).engine.kind = _; rw [C.engine]; exact hk) trivial
            obtain ⟨_, W⟩ := good_wrap σ _ r gM rfl rfl ha
            show sem σ r = _ ∧ (∀ c, c ∈ r.columns ↔ _) ∧ r.WF ∧ r.engine = _
            exact ⟨by rw [W.sem_eq]; exact C.sem_eq, fun c => (W.cols c).trans (C.cols c), W.ok.wf,
              by rw [W.engine]; exact C.engine⟩

end DafRel.Props.C15
