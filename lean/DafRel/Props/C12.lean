/-
Property C12 — column expressions mean the same thing in every engine.

Three evaluators of the model:
  * `Expr.val` / `Pred.val`   : direct evaluation (the specification; total),
  * `Expr.eval` / `Pred.eval` : the callable the iteration engine builds
                                (`convert_column_expression` / `convert_predicate` of
                                `iteration/_engine.py`; `none` = it raises),
  * `convExpr` / `convPred` followed by `SqlExpr.eval` / `SqlPred.eval` : the SQL engine's
    translation evaluated by the database (SQLite's integer arithmetic and truncating `%`).

Quantifiers: all expression / predicate trees over the portable operator set (column references,
integer literals, negation, +, -, *, the six comparisons, AND/OR/NOT of any arity, membership in a
literal range with ANY start/stop/step and in a sequence of expressions), all NULL-free integer
rows that have the required columns.

The SQL evaluator is a model of the database (validated by running every generated expression on
SQLite in the correspondence check); what is proved here is that the *translation* preserves
meaning under that model, in particular the range arithmetic with its negative-step,
negative-start and single-element special cases.
-/
import DafRel.Lemmas.SqlConv

namespace DafRel.Props.C12

open DafRel

/-- The iteration engine's callable computes the direct value (and never raises) on every row that
has the required columns. -/
theorem iteration_expression_agrees (r : Row) (e : Expr) (ha : e.arityOk = true)
    (hr : r.hasAll e.columnsRequired) : e.eval r = some (e.val r) := Expr.eval_eq_val r e ha hr

theorem iteration_predicate_agrees (r : Row) (p : Pred) (ha : p.arityOk = true)
    (hr : r.hasAll p.columnsRequired) : p.eval r = some (p.val r) := Pred.eval_eq_val r p ha hr

/-- The SQL translation of an expression evaluates to the direct value. -/
theorem sql_expression_agrees (avail : List (Tag × SqlExpr)) (env : PEnv) (r : Row)
    (hav : AvailOK avail env r) (e : Expr) (x : SqlExpr) (hc : convExpr avail e = .ok x)
    (ha : e.arityOk = true) (hr : r.hasAll e.columnsRequired) : x.eval env = some (e.val r) := by
  rw [convExpr_eval avail env r hav e x hc]
  exact Expr.eval_eq_val r e ha hr

/-- The SQL translation of a predicate evaluates to the direct truth value. -/
theorem sql_predicate_agrees (avail : List (Tag × SqlExpr)) (env : PEnv) (r : Row)
    (hav : AvailOK avail env r) (p : Pred) (q : SqlPred) (hc : convPred avail p = .ok q)
    (ha : p.arityOk = true) (hr : r.hasAll p.columnsRequired) : q.eval env = p.val r :=
  convPred_eval avail env r hav p q (p.val r) hc (Pred.eval_eq_val r p ha hr)

/-- Hence all three agree. -/
theorem three_way_agreement (avail : List (Tag × SqlExpr)) (env : PEnv) (r : Row)
    (hav : AvailOK avail env r) (p : Pred) (q : SqlPred) (hc : convPred avail p = .ok q)
    (ha : p.arityOk = true) (hr : r.hasAll p.columnsRequired) :
    p.eval r = some (p.val r) ∧ q.eval env = p.val r :=
  ⟨Pred.eval_eq_val r p ha hr, sql_predicate_agrees avail env r hav p q hc ha hr⟩

/-- `item in range(a, b, s)` in SQL (`=`, `BETWEEN`, `%` with SQLite's truncating remainder and
the start's Python-style residue) is Python's `range` membership, for ALL `a`, `b`, `s`. -/
theorem sql_range_membership (env : PEnv) (x : SqlExpr) (v a b s : Int) (hx : x.eval env = some v) :
    (convRange x a b s).eval env = inRange v a b s := convRange_sound env x v a b s hx

/-- The translation of an expression cannot fail when every referenced column is available. -/
theorem sql_expression_translates (avail : List (Tag × SqlExpr)) (e : Expr)
    (h : ∀ t, t ∈ e.columnsRequired → (SqlPayload.lookup avail t).isSome = true) :
    ∃ x, convExpr avail e = .ok x := convExpr_total avail e h

/-! ### Non-vacuity -/

private def ta : Tag := ⟨"a", true⟩
private def row0 : Row := Row.empty.set ta (-7)
private def avail0 : List (Tag × SqlExpr) := [(ta, .col "t" ta)]
private def env0 : PEnv := rowEnv "t" row0
/-- `a in range(5, -20, -4)`: members 5, 1, -3, -7, -11, -15, -19 -/
private def p0 : Pred := .inC (.ref ta) (.range 5 (-20) (-4))

example : AvailOK avail0 env0 row0 := by
  intro t x h
  simp only [avail0, SqlPayload.lookup, List.find?_cons] at h
  by_cases ht : ta = t
  · subst ht; simp at h; subst h; simp [SqlExpr.eval, env0, rowEnv]
  · have : (ta == t) = false := by simpa using ht
    simp [this] at h
example : p0.val row0 = true := by decide
example : (convPred avail0 p0).toOption.map (fun q => q.eval env0) = some true := by decide

end DafRel.Props.C12
