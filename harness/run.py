"""Run line-protocol programs on the real library (impl.py under /venv) and on the Lean model
(compiled driver), in parallel chunks, and hand back the two observation streams per program."""
from __future__ import annotations

import os
import re
import subprocess
import sys
from concurrent.futures import ThreadPoolExecutor

HERE = os.path.dirname(os.path.abspath(__file__))
VERIF = os.path.dirname(HERE)
DRIVER = os.path.join(VERIF, "lean", ".lake", "build", "bin", "driver")
PY = "/venv/bin/python"
IMPL = os.path.join(HERE, "impl.py")
NPROC = int(os.environ.get("VERIF_JOBS", "16"))

MODEL_ONLY_FIELDS = re.compile(r" (spec|kd|total|det|order|tree|f04|ready)=\S+")
IMPL_ONLY_FIELDS = re.compile(r" (shared|ja|jb|la|lb)=\S+")
HOOK_SERIALS = re.compile(r"#[0-9?]+\+?")
MODEL_ONLY_CMDS = ("(sem ", "(seqsem ")


def _run(cmd: list[str], text: str, env=None, timeout=3600) -> str:
    p = subprocess.run(cmd, input=text, capture_output=True, text=True, env=env, timeout=timeout)
    if p.returncode != 0:
        raise RuntimeError(f"{cmd[0]} failed ({p.returncode}): {p.stderr[-2000:]}")
    return p.stdout


def split_outputs(programs: list[str], out: str) -> list[list[str]]:
    lines = out.splitlines()
    res: list[list[str]] = []
    pos = 0
    for prog in programs:
        n = sum(1 for ln in prog.splitlines() if ln.strip())
        res.append(lines[pos:pos + n])
        pos += n + 1  # the "(reset)" answer
    return res


def run_side(side: str, programs: list[str], jobs: int = NPROC) -> list[list[str]]:
    """side = 'impl' or 'model'."""
    if not programs:
        return []
    jobs = max(1, min(jobs, len(programs)))
    chunks = [programs[i::jobs] for i in range(jobs)]
    env = dict(os.environ)
    env["PYTHONHASHSEED"] = "0"
    env.setdefault("LSST_DAF_RELATION_VERIF", "1")

    def work(chunk: list[str]) -> list[list[str]]:
        text = "".join(p + "(reset)\n" for p in chunk)
        if side == "impl":
            out = _run([PY, IMPL], text, env=env)
        else:
            out = _run([DRIVER], text)
        return split_outputs(chunk, out)

    with ThreadPoolExecutor(max_workers=jobs) as ex:
        results = list(ex.map(work, chunks))
    merged: list[list[str]] = [[] for _ in programs]
    for j, chunk_res in enumerate(results):
        for k, r in enumerate(chunk_res):
            merged[j + k * jobs] = r
    return merged


def normalise(line: str, order_any: bool = False) -> str:
    line = MODEL_ONLY_FIELDS.sub("", line)
    line = IMPL_ONLY_FIELDS.sub("", line)
    if line.startswith("err "):
        line = re.sub(r" pulls_exec=\S+", "", line)      # diagnostic detail of the implementation side
    line = re.sub(r"SQLError:\w+", "SQLError", line)
    if " || hooks=" in line:
        head, hooks = line.split(" || hooks=", 1)
        line = head + " || hooks=" + HOOK_SERIALS.sub("#", hooks)
    if order_any:
        m = re.search(r"rows=(\[[^ ]*\])", line)
        if m and m.group(1) != "[]":
            rows = sorted(m.group(1)[1:-1].split(";"))
            line = line[:m.start(1)] + "[" + ";".join(rows) + "]" + line[m.end(1):]
    return line


def field(line: str, name: str) -> str | None:
    m = re.search(r"(?:^| )" + re.escape(name) + r"=(\S+)", line)
    return m.group(1) if m else None


class Disagreement:
    def __init__(self, prog_index: int, line_no: int, cmd: str, impl: str, model: str):
        self.prog_index = prog_index
        self.line_no = line_no
        self.cmd = cmd
        self.impl = impl
        self.model = model

    def __repr__(self) -> str:
        return f"#{self.prog_index}:{self.line_no} {self.cmd}\n   impl : {self.impl}\n   model: {self.model}"


def correspondence(programs: list[str], impl: list[list[str]], model: list[list[str]]) -> list[Disagreement]:
    out = []
    for i, prog in enumerate(programs):
        cmds = [ln for ln in prog.splitlines() if ln.strip()]
        il, ml = impl[i], model[i]
        if len(il) != len(cmds) or len(ml) != len(cmds):
            out.append(Disagreement(i, -1, "<stream length>", str(len(il)), str(len(ml))))
            continue
        alias: dict[str, str] = {}      # pool name -> the name under which the same OBJECT was first seen

        def root(n: str) -> str:
            while n in alias:
                n = alias[n]
            return n

        for k, cmd in enumerate(cmds):
            toks = cmd.strip("()").split()
            if len(toks) >= 3 and il[k].startswith("ok same") and toks[0] in ("apply", "join", "joinon", "joinp", "joinpl", "joinmax",
                                                                             "mat", "transfer", "transferp", "conform"):
                alias[toks[1]] = root(toks[2])
            if cmd.startswith(MODEL_ONLY_CMDS):
                continue
            if cmd.startswith("(sqlexec "):
                continue  # compared by the SQL oracle (multiset / order aware)
            if ml[k].startswith(("err Unspecified", "unspecified")):
                break  # outside the model: the two sides may legitimately diverge from here on
            any_order = " order=any" in ml[k]
            a, b = normalise(il[k], any_order), normalise(ml[k], any_order)
            if " det=F" in ml[k] and cmd.startswith("(exec "):
                # the model says the rows depend on the order in which a database delivered them
                # (positional slice / key-based deduplication of rows that are not key-determined):
                # only the shape of the answer is compared
                a, b = re.sub(r"rows=\S+", "rows=*", a), re.sub(r"rows=\S+", "rows=*", b)
            if toks[0] in ("join", "joinon", "joinb", "joinp", "joinpl", "joinmax") and len(toks) >= 4 and root(toks[2]) == root(toks[3]):
                # both operands are ONE Python object: whether the result "is" the left operand cannot be
                # expressed by the model for operation nodes (object identity is tracked for markers and
                # leaves only); the trees are still compared
                a, b = re.sub(r"^ok (same|new) ", "ok * ", a), re.sub(r"^ok (same|new) ", "ok * ", b)
            if a != b:
                out.append(Disagreement(i, k, cmd, il[k], ml[k]))
                break  # later lines of the same program depend on this one
    return out


if __name__ == "__main__":
    # debugging aid:  run.py prog.txt  -> prints both streams side by side
    prog = open(sys.argv[1]).read()
    a = run_side("impl", [prog])[0]
    b = run_side("model", [prog])[0]
    for cmd, x, y in zip([ln for ln in prog.splitlines() if ln.strip()], a, b):
        flag = "  " if normalise(x) == normalise(y) or cmd.startswith(MODEL_ONLY_CMDS) else "!!"
        print(f"{flag} {cmd}\n     I {x}\n     M {y}")
