"""Translator T-e: the `commute`, `simplify` and `_begin_apply` methods of the unary operation classes
-> Lean functions over the MODEL's own types (lean/DafRel/Gen/Ops.lean), regenerated from /repo's
current source on every run.

Unlike T-a (PyLite, dynamically typed), this is a *typed* translation through a fixed dictionary:

  Python                                          Lean (model types)
  ----------------------------------------------  ------------------------------------------------
  self                                            the operation value  (UOp.calc tag expression, ...)
  self.<dataclass field>                          the field variable
  X.columns_required / .is_count_dependent / ...  X.columnsRequired / X.isCountDependent / ...
  current.operation / .target.columns / .columns  cur / tcols / ccols
  target.columns / target.engine                  tcols / teng
  A <= B, A >= B, A == B  (sets)                  Cols.subset A B, Cols.subset B A, Cols.seteq A B
  A | B, A | {x}, A - {x}, x in A                 Cols.union, Cols.insert, Cols.diff A [x], decide (x ∈ A)
  isinstance(X, K) / match X: case K(f=v)         pattern match on the UOp constructor
  UnaryCommutator(first, second, done=True)       ⟨first, second, done⟩     (messages dropped)
  Projection(S) / Identity() / Selection(p)       UOp.proj S / UOp.identity / UOp.mkSel p
  a.logical_and(b)                                Pred.and [a, b]
  upstream.then(self)                             UOp.thenOf upstream self   (Slice.then / Sort.then)
  return upstream / self / None   (simplify)      keepUpstream / replace self / no
  raise ColumnError(...)                          Except.error Err.column
  super()._begin_apply(target, preferred_engine)  Except.ok (self, pref.getD teng)
  for t in self.terms: if not C(t): raise E       if terms.all (fun t => C t) then <rest> else error

Statements are translated in continuation-passing style (an `if`/`match` branch that does not
return falls through to the statements that follow), local assignments become `let`.
Anything outside this grammar is reported as UNTRANSLATABLE and a stub is emitted that makes the
bridge lemma fail (so the obligation is reported broken and the failing-input search runs).
The dictionary above is part of the trusted base.

T-f (classes further down, each with its own small dictionary in its docstring / DICT table): `PartialJoin.columns_required`,
`PartialJoin.commute`, `Materialization.simplify`, `Transfer.simplify`, `Chain._begin_apply` -> Gen/RelOps.lean;
`PartialJoin._begin_apply` (monadic, self-recursive: generated with a recursion budget), `Join.applied_common_columns`
(set comprehension over key columns), `Join._begin_apply`, `Join._finish_apply` -> Gen/JoinOps.lean;
`sql.Select.apply_skip` (over the model's `Slots` record) -> Gen/SqlOps.lean.  `REL_JOB_MODULE` says which generated
module a method goes to; translation problems are attributed per module.
"""
from __future__ import annotations

import ast
import inspect
import textwrap


class Untranslatable(Exception):
    pass


FIELDS = {
    "Calculation": [("tag", "Tag"), ("expression", "Expr")],
    "Deduplication": [],
    "Projection": [("columns", "Cols")],
    "Selection": [("predicate", "Pred")],
    "Slice": [("start", "Nat"), ("stop", "Option Nat")],
    "Sort": [("terms", "List SortTerm")],
}
CTOR = {
    "Calculation": "UOp.calc tag expression",
    "Deduplication": "UOp.dedup",
    "Projection": "UOp.proj columns",
    "Selection": "UOp.sel predicate",
    "Slice": "UOp.slice start stop",
    "Sort": "UOp.sort terms",
}
PATTERN = {  # class -> (lean constructor pattern with wildcards, {keyword: position})
    "Calculation": ("calc", ["tag", "expression"]),
    "Deduplication": ("dedup", []),
    "Projection": ("proj", ["columns"]),
    "Selection": ("sel", ["predicate"]),
    "Slice": ("slice", ["start", "stop"]),
    "Sort": ("sort", ["terms"]),
    "Identity": ("identity", []),
}
OP_FIELDS = {   # field name -> (accessor in Gen/OpsSupport.lean, type); each belongs to exactly one class
    "tag": ("calcTag", "tag"),
    "expression": ("calcExpr", "expr"),
    "columns": ("projColumns", "cols"),
    "predicate": ("selPred", "pred"),
    "start": ("sliceStart", "nat"),
    "stop": ("sliceStop", "optnat"),
    "terms": ("sortTerms", "terms"),
}
OP_ATTRS = {
    "columns_required": ("columnsRequired", "cols"),
    "is_count_dependent": ("isCountDependent", "bool"),
    "is_order_dependent": ("isOrderDependent", "bool"),
    "is_empty_invariant": ("isEmptyInvariant", "bool"),
    "is_count_invariant": ("isCountInvariant", "bool"),
}


class Method:
    def __init__(self, cls, name: str):
        self.cls = cls
        self.cname = cls.__name__
        self.name = name
        f = inspect.getattr_static(cls, name)
        src = textwrap.dedent(inspect.getsource(f))
        self.fdef = next(n for n in ast.walk(ast.parse(src)) if isinstance(n, ast.FunctionDef))
        self.env: dict[str, tuple[str, str]] = {}   # python local -> (lean text, type)
        self.counter = 0
        for fname, fty in FIELDS[self.cname]:
            pass

    # ------------------------------------------------------------------ expressions
    def self_field(self, attr: str) -> tuple[str, str]:
        for fname, fty in FIELDS[self.cname]:
            if fname == attr:
                ty = {"Cols": "cols", "Tag": "tag", "Pred": "pred", "Expr": "expr", "Nat": "nat",
                      "Option Nat": "optnat", "List SortTerm": "terms"}[fty]
                return fname, ty
        raise Untranslatable(f"self.{attr}")

    def expr(self, e) -> tuple[str, str]:
        """-> (lean text, type) with type in cols/bool/op/tag/pred/expr/nat/optnat/terms/term/optop/commutator"""
        if isinstance(e, ast.Name):
            if e.id == "self":
                return f"({CTOR[self.cname]})", "op"
            if e.id in self.env:
                return self.env[e.id]
            if e.id == "upstream" and self.name == "simplify":
                return "cur", "op"
            raise Untranslatable(f"free name {e.id}")
        if isinstance(e, ast.Constant):
            if e.value is None:
                return "none", "none"
            if isinstance(e.value, bool):
                return ("true" if e.value else "false"), "bool"
            raise Untranslatable(f"constant {e.value!r}")
        if isinstance(e, ast.Attribute):
            src = ast.unparse(e)
            special = self.special(src)
            if special is not None:
                return special
            if src == "current.target.columns" or src == "target.columns":
                return "tcols", "cols"
            if src == "current.columns":
                return "ccols", "cols"
            if src == "current.operation":
                return "cur", "op"
            if src == "target.engine":
                return "teng", "engine"
            if src == "current.operation.columns":
                return "(UOp.projColumns cur)", "cols"
            if isinstance(e.value, ast.Name) and e.value.id == "self":
                if e.attr in OP_ATTRS:
                    nm, ty = OP_ATTRS[e.attr]
                    return f"({CTOR[self.cname]}).{nm}", ty
                return self.self_field(e.attr)
            base, bty = self.expr(e.value)
            if bty == "op" and e.attr in OP_ATTRS:
                nm, ty = OP_ATTRS[e.attr]
                return f"({base}).{nm}", ty
            if bty == "op" and e.attr in OP_FIELDS:
                # a field that only ONE operation class has (read under an `isinstance` test in the source):
                # the total accessor of Gen/OpsSupport.lean
                nm, ty = OP_FIELDS[e.attr]
                return f"(UOp.{nm} {base})", ty
            if bty in ("expr", "pred") and e.attr == "columns_required":
                return f"({base}).columnsRequired", "cols"
            if bty == "term" and e.attr == "expression":
                return f"({base}).expr", "expr"
            raise Untranslatable(f"attribute {src}")
        if isinstance(e, ast.Set) and len(e.elts) == 1:
            x, xt = self.expr(e.elts[0])
            if xt != "tag":
                raise Untranslatable("set literal of a non-tag")
            return f"[{x}]", "cols1"
        if isinstance(e, ast.BinOp):
            l, lt = self.expr(e.left)
            r, rt = self.expr(e.right)
            if isinstance(e.op, ast.BitOr) and lt == "cols" and rt == "cols1":
                return f"(Cols.insert {l} {r[1:-1]})", "cols"
            if isinstance(e.op, ast.BitOr) and lt == "cols" and rt == "cols":
                return f"(Cols.union {l} {r})", "cols"
            if isinstance(e.op, ast.BitAnd) and lt == "cols" and rt == "cols":
                return f"(Cols.inter {l} {r})", "cols"
            if isinstance(e.op, ast.Sub) and lt == "cols" and rt in ("cols", "cols1"):
                return f"(Cols.diff {l} {r})", "cols"
            raise Untranslatable(f"binary operator in {ast.unparse(e)}")
        if isinstance(e, ast.Compare) and len(e.ops) == 1:
            l, lt = self.expr(e.left)
            r, rt = self.expr(e.comparators[0])
            op = e.ops[0]
            if lt == "cols" and rt == "cols":
                if isinstance(op, ast.LtE):
                    return f"(Cols.subset {l} {r})", "bool"
                if isinstance(op, ast.GtE):
                    return f"(Cols.subset {r} {l})", "bool"
                if isinstance(op, ast.Eq):
                    return f"(Cols.seteq {l} {r})", "bool"
            if lt == "cols" and rt == "cols" and isinstance(op, ast.NotEq):
                return f"(!(Cols.seteq {l} {r}))", "bool"
            if lt == "engine" and rt == "engine" and isinstance(op, (ast.Eq, ast.NotEq)):
                return f"({l} {'==' if isinstance(op, ast.Eq) else '!='} {r})", "bool"
            if lt == "tag" and rt == "cols" and isinstance(op, ast.In):
                return f"(decide ({l} ∈ {r}))", "bool"
            if lt == "tag" and rt == "cols" and isinstance(op, ast.NotIn):
                return f"(!decide ({l} ∈ {r}))", "bool"
            if rt == "none" and isinstance(op, ast.Is) and lt == "optnat":
                return f"(Option.isNone {l})", "bool"
            if isinstance(op, ast.Is) and rt == "bool" and lt == "opttriv":
                return f"({l} == some {r})", "bool"
            raise Untranslatable(f"comparison {ast.unparse(e)}")
        if isinstance(e, ast.UnaryOp) and isinstance(e.op, ast.Not):
            x, xt = self.expr(e.operand)
            if xt == "bool":
                return f"(!{x})", "bool"
            if xt == "nat":
                return f"({x} == 0)", "bool"
            if xt == "terms":
                return f"(List.isEmpty {x})", "bool"
            raise Untranslatable(f"not of {xt}")
        if isinstance(e, ast.BoolOp):
            parts = [self.expr(v) for v in e.values]
            if any(t != "bool" for _, t in parts):
                raise Untranslatable("boolean operator on non-booleans")
            j = " && " if isinstance(e.op, ast.And) else " || "
            return "(" + j.join(p for p, _ in parts) + ")", "bool"
        if isinstance(e, ast.IfExp):
            c, ct = self.expr(e.test)
            a, at = self.expr(e.body)
            b, bt = self.expr(e.orelse)
            if ct != "bool" or at != bt:
                raise Untranslatable("conditional expression")
            return f"(if {c} then {a} else {b})", at
        if isinstance(e, ast.Call):
            fn = ast.unparse(e.func)
            special = self.special(ast.unparse(e))
            if special is not None:
                return special
            if fn == "set" and len(e.args) == 1:
                return self.expr(e.args[0])
            if fn == "isinstance" and len(e.args) == 2:
                x, xt = self.expr(e.args[0])
                ks = ([ast.unparse(k) for k in e.args[1].elts] if isinstance(e.args[1], ast.Tuple)
                      else [ast.unparse(e.args[1])])
                if xt == "op" and ks and all(k in PATTERN for k in ks):
                    # `isinstance(x, (A, B))` is `isinstance(x, A) or isinstance(x, B)`
                    tests = [f"(UOp.is{k} {x})" for k in ks]
                    return (tests[0] if len(tests) == 1 else "(" + " || ".join(tests) + ")"), "bool"
                raise Untranslatable(f"isinstance {ast.unparse(e)}")
            if (isinstance(e.func, ast.Attribute) and isinstance(e.func.value, ast.Name) and e.func.value.id == "self"
                    and not e.keywords and e.func.attr.startswith("_")):
                # a small private helper of the same class (statements of the accepted grammar, returning a
                # value): inlined, its parameters bound to the translated arguments
                inl = self.inline_helper(e.func.attr, e.args)
                if inl is not None:
                    return inl
            if fn == "Projection" and len(e.args) == 1:
                x, xt = self.expr(e.args[0])
                if xt != "cols":
                    raise Untranslatable("Projection of non-set")
                return f"(UOp.proj {x})", "op"
            if fn == "Identity" and not e.args:
                return "UOp.identity", "op"
            if fn == "Selection":
                arg = e.args[0] if e.args else next(k.value for k in e.keywords if k.arg == "predicate")
                x, xt = self.expr(arg)
                if xt != "pred":
                    raise Untranslatable("Selection of non-predicate")
                return f"(UOp.mkSel {x})", "op"
            if fn.endswith(".logical_and") and len(e.args) == 1:
                a, at = self.expr(e.func.value)
                b, bt = self.expr(e.args[0])
                if at == bt == "pred":
                    return f"(Pred.and [{a}, {b}])", "pred"
            if fn.endswith(".as_trivial") and not e.args:
                a, at = self.expr(e.func.value)
                if at == "pred":
                    return f"(Pred.asTrivial {a})", "opttriv"
            if fn == "UnaryCommutator":
                kw = {k.arg: k.value for k in e.keywords}
                pos = list(e.args)
                first = kw.get("first", pos[0] if pos else None)
                second = kw.get("second", pos[1] if len(pos) > 1 else None)
                done = kw.get("done", pos[2] if len(pos) > 2 else None)
                if first is None or second is None:
                    raise Untranslatable("UnaryCommutator without first/second")
                f, ft = self.expr(first)
                s, st = self.expr(second)
                d = "true"
                if done is not None:
                    d, dt = self.expr(done)
                    if dt != "bool":
                        raise Untranslatable("done is not a bool")
                if ft == "none":
                    f = "none"
                elif ft == "op":
                    f = f"(some {f})"
                else:
                    raise Untranslatable("first is not an operation")
                if st != "op":
                    raise Untranslatable("second is not an operation")
                return f"(UOp.Commutator.mk {f} {s} {d})", "commutator"
            if fn == "frozenset" and len(e.args) == 1:
                return self.expr(e.args[0])
            raise Untranslatable(f"call {ast.unparse(e)[:60]}")
        raise Untranslatable(f"expression {ast.unparse(e)[:60]}")

    def special(self, src: str):
        """Subclass hook: dictionary entries specific to one kind of method."""
        return None

    def inline_helper(self, name: str, args: list):
        """Translate `self.<name>(args)` by inlining the helper's body; None if there is no such plain method."""
        cls = getattr(self, "cls", None)
        if cls is None:
            return None
        try:
            f = inspect.getattr_static(cls, name)
            if isinstance(f, (property, staticmethod, classmethod)):
                return None
            tree = ast.parse(textwrap.dedent(inspect.getsource(f)))
        except (AttributeError, OSError, TypeError, SyntaxError):
            return None
        fdef = next((n for n in ast.walk(tree) if isinstance(n, ast.FunctionDef)), None)
        if fdef is None or fdef.args.kwonlyargs or fdef.args.vararg or fdef.args.kwarg:
            return None
        params = [a.arg for a in fdef.args.args][1:]
        if len(params) != len(args):
            return None
        depth = getattr(self, "_inline_depth", 0)
        if depth > 3:
            raise Untranslatable(f"helper {name}: nesting too deep")
        # the parameters are replaced by the argument expressions in a copy of the helper's body
        import copy

        subst = dict(zip(params, args))

        class Subst(ast.NodeTransformer):
            def visit_Name(self, node):
                if isinstance(node.ctx, ast.Load) and node.id in subst:
                    return copy.deepcopy(subst[node.id])
                return node

        body = [Subst().visit(copy.deepcopy(b)) for b in fdef.body]
        saved_env, saved_ret, saved_end = dict(self.env), self.ret, self.default_end
        holder: dict = {}

        def ret(x):
            code, t = self.expr(x)
            if holder.setdefault("type", t) != t:
                raise Untranslatable(f"helper {name} returns values of different kinds")
            return code

        def end():
            raise Untranslatable(f"control reaches the end of helper {name}")

        try:
            self._inline_depth = depth + 1
            self.ret, self.default_end = ret, end
            code = self.block(body, end)
        finally:
            self.env, self.ret, self.default_end = saved_env, saved_ret, saved_end
            self._inline_depth = depth
        if "type" not in holder:
            raise Untranslatable(f"helper {name} returns nothing")
        return code, holder["type"]

    def helper_return(self, name: str):
        """The expression returned by the zero-argument private method `name` of the class being translated when
        its body is a single `return <expression>`; None otherwise."""
        cls = getattr(self, "cls", None)
        if cls is None:
            return None
        try:
            f = inspect.getattr_static(cls, name)
            if isinstance(f, property):
                return None
            tree = ast.parse(textwrap.dedent(inspect.getsource(f)))
        except (AttributeError, OSError, TypeError, SyntaxError):
            return None
        fdef = next((n for n in ast.walk(tree) if isinstance(n, ast.FunctionDef)), None)
        if fdef is None or len(fdef.args.args) != 1:
            return None
        body = [b for b in fdef.body
                if not (isinstance(b, ast.Expr) and isinstance(b.value, ast.Constant) and isinstance(b.value.value, str))]
        if len(body) == 1 and isinstance(body[0], ast.Return) and body[0].value is not None:
            return body[0].value
        return None

    # ------------------------------------------------------------------ statements (CPS)
    def ret(self, e) -> str:
        """Translate `return e` for the method kind."""
        if isinstance(e, ast.IfExp):
            # `return a if c else b`  is  `if c: return a` / `return b`
            c, ct = self.expr(e.test)
            if ct != "bool":
                raise Untranslatable("condition is not a bool")
            return f"(if {c} then {self.ret(e.body)} else {self.ret(e.orelse)})"
        if self.name == "commute":
            x, t = self.expr(e)
            if t != "commutator":
                raise Untranslatable("commute returns a non-commutator")
            return x
        if self.name == "simplify":
            src = ast.unparse(e)
            if src == "None":
                return "(Except.ok UOp.Simplified.no)"
            if src == "upstream":
                return "(Except.ok UOp.Simplified.keepUpstream)"
            if src == "upstream.then(self)":
                return f"(UOp.thenOf cur ({CTOR[self.cname]}))"
            x, t = self.expr(e)
            if t != "op":
                raise Untranslatable("simplify returns a non-operation")
            return f"(Except.ok (UOp.Simplified.replace {x}))"
        if self.name == "_begin_apply":
            src = ast.unparse(e)
            if src == "super()._begin_apply(target, preferred_engine)":
                return f"(Except.ok (({CTOR[self.cname]}), pref.getD teng))"
            if isinstance(e, ast.Tuple) and len(e.elts) == 2:
                a, at = self.expr(e.elts[0])
                b, bt = self.expr(e.elts[1])
                if at == "op" and bt == "engine":
                    return f"(Except.ok ({a}, {b}))"
            raise Untranslatable(f"return {src[:60]}")
        raise Untranslatable("method kind")

    def default_end(self) -> str:
        if self.name == "simplify":
            return "(Except.ok UOp.Simplified.no)"      # falling off the end returns None
        raise Untranslatable("control reaches the end of the function")

    def block(self, stmts: list, rest_k) -> str:
        """Translate a statement list; `rest_k()` produces the code that runs if the list falls through."""
        if not stmts:
            return rest_k()
        s, tail = stmts[0], stmts[1:]
        k = lambda: self.block(tail, rest_k)   # noqa: E731
        if isinstance(s, (ast.Import, ast.ImportFrom)):
            return k()
        if isinstance(s, ast.Expr) and isinstance(s.value, ast.Constant) and isinstance(s.value.value, str):
            return k()
        if isinstance(s, ast.Return):
            return self.ret(s.value)
        if isinstance(s, ast.Raise):
            exc = ast.unparse(s.exc)
            for name, err in (("ColumnError", "column"), ("EngineError", "engine")):
                if exc.startswith(name + "("):
                    return f"(Except.error Err.{err})"
            raise Untranslatable(f"raise {exc[:40]}")
        if isinstance(s, ast.If):
            c, ct = self.expr(s.test)
            if ct != "bool":
                raise Untranslatable("condition is not a bool")
            saved = dict(self.env)
            a = self.block(s.body, k)
            self.env = dict(saved)
            b = self.block(s.orelse, k)
            self.env = saved
            return f"(if {c} then {a} else {b})"
        if isinstance(s, ast.AnnAssign) and s.value is None:
            return k()       # a bare annotation `x: T` does nothing
        if isinstance(s, (ast.Assign, ast.AnnAssign)):
            target = s.targets[0] if isinstance(s, ast.Assign) else s.target
            if not isinstance(target, ast.Name):
                raise Untranslatable("assignment target")
            x, t = self.expr(s.value)
            self.counter += 1
            v = f"{target.id}_{self.counter}"
            self.env[target.id] = (v, t)
            return f"(let {v} := {x}; {k()})"
        if isinstance(s, ast.AugAssign) and isinstance(s.target, ast.Name) and isinstance(s.op, ast.Sub):
            cur, ct = self.env.get(s.target.id, (None, None))
            x, t = self.expr(s.value)
            if ct != "cols" or t not in ("cols", "cols1"):
                raise Untranslatable("augmented assignment")
            self.counter += 1
            v = f"{s.target.id}_{self.counter}"
            self.env[s.target.id] = (v, "cols")
            return f"(let {v} := Cols.diff {cur} {x}; {k()})"
        if isinstance(s, ast.Expr) and isinstance(s.value, ast.Call) and isinstance(s.value.func, ast.Attribute) \
                and isinstance(s.value.func.value, ast.Name) and s.value.func.value.id in self.env \
                and len(s.value.args) == 1:
            name = s.value.func.value.id
            cur, ct = self.env[name]
            x, t = self.expr(s.value.args[0])
            meth = s.value.func.attr
            if ct == "cols" and t == "cols" and meth in ("difference_update", "update", "intersection_update"):
                fn = {"difference_update": "Cols.diff", "update": "Cols.union", "intersection_update": "Cols.inter"}[meth]
                self.counter += 1
                v = f"{name}_{self.counter}"
                self.env[name] = (v, "cols")
                return f"(let {v} := {fn} {cur} {x}; {k()})"
            if ct == "cols" and t == "tag" and meth == "add":
                self.counter += 1
                v = f"{name}_{self.counter}"
                self.env[name] = (v, "cols")
                return f"(let {v} := Cols.insert {cur} {x}; {k()})"
            raise Untranslatable(f"method call statement {ast.unparse(s)[:50]}")
        if isinstance(s, ast.Match):
            return self.match_stmt(s, k)
        if isinstance(s, ast.For) and isinstance(s.target, ast.Name):
            it, itt = self.expr(s.iter)
            if itt == "terms" and len(s.body) == 1 and isinstance(s.body[0], ast.If) and not s.body[0].orelse \
                    and len(s.body[0].body) == 1 and isinstance(s.body[0].body[0], ast.Raise):
                saved = dict(self.env)
                self.env[s.target.id] = (s.target.id, "term")
                c, ct = self.expr(s.body[0].test)
                self.env = saved
                raise_code = self.block([s.body[0].body[0]], k)
                # `if C(t): raise`  for every t   ==   if all t satisfy (not C) continue, else raise
                return f"(if {it}.all (fun {s.target.id} => !{c}) then {k()} else {raise_code})"
            raise Untranslatable("for loop")
        raise Untranslatable(f"statement {type(s).__name__}: {ast.unparse(s)[:50]}")

    def match_stmt(self, s, k) -> str:
        subj, st = self.expr(s.subject)
        if st not in ("op", "rel"):
            raise Untranslatable("match on a non-operation")
        arms = []
        has_default = False
        for case in s.cases:
            pats = self.patterns(case.pattern)
            saved = dict(self.env)
            for lean_pat, binds in pats:
                self.env = dict(saved)
                self.env.update(binds)
                body = self.block(case.body, k)
                if case.guard is not None:
                    g, gt = self.expr(case.guard)
                    if gt != "bool":
                        raise Untranslatable("guard is not a bool")
                    # a failed guard falls through to the statements after the match
                    # (sound because no later case of the matches in the source overlaps)
                    body = f"(if {g} then {body} else {k()})"
                arms.append(f"| {lean_pat} => {body}")
                if lean_pat == "_":
                    has_default = True
            self.env = saved
        if not has_default:
            arms.append(f"| _ => {k()}")
        return f"(match {subj} with {' '.join(arms)})"

    def patterns(self, p) -> list[tuple[str, dict]]:
        if isinstance(p, ast.MatchAs) and p.pattern is None and p.name is None:
            return [("_", {})]
        if isinstance(p, ast.MatchOr):
            out = []
            for q in p.patterns:
                out += self.patterns(q)
            return out
        if isinstance(p, ast.MatchClass):
            k = ast.unparse(p.cls)
            if k not in PATTERN or p.patterns:
                raise Untranslatable(f"class pattern {ast.unparse(p)}")
            ctor, fields = PATTERN[k]
            slots = ["_"] * len(fields)
            binds = {}
            for attr, sub in zip(p.kwd_attrs, p.kwd_patterns):
                if attr not in fields or not (isinstance(sub, ast.MatchAs) and sub.pattern is None and sub.name):
                    raise Untranslatable(f"keyword pattern {attr}")
                i = fields.index(attr)
                slots[i] = sub.name
                ty = dict((f, t) for f, t in FIELDS[k])[attr] if k in FIELDS else "?"
                tmap = {"Cols": "cols", "Tag": "tag", "Pred": "pred", "Expr": "expr", "Nat": "nat",
                        "Option Nat": "optnat", "List SortTerm": "terms"}
                binds[sub.name] = (sub.name, tmap[ty])
            return [(f".{ctor}" + "".join(" " + x for x in slots), binds)]
        raise Untranslatable(f"pattern {ast.unparse(p)}")

    # ------------------------------------------------------------------ whole method
    def lean(self) -> str:
        params = " ".join(f"({f} : {t})" for f, t in FIELDS[self.cname])
        if self.name == "commute":
            sig = f"def {self.cname}_commute {params} (cur : UOp) (tcols ccols : Cols) : UOp.Commutator :="
        elif self.name == "simplify":
            sig = f"def {self.cname}_simplify {params} (cur : UOp) : Except Err UOp.Simplified :="
        else:
            sig = (f"def {self.cname}_begin_apply {params} (tcols : Cols) (teng : Engine) (pref : Option Engine) : "
                   "Except Err (UOp × Engine) :=")
        body = self.block(self.fdef.body, self.default_end)
        return sig + "\n  " + body


class PJoinMethod(Method):
    """`PartialJoin.columns_required` / `PartialJoin.commute` (T-f): `self` is a model `PJoin` value `p`."""

    DICT = {
        "self": ("p", "pjoin"),
        "self.binary.predicate.columns_required": ("p.join.pred.columnsRequired", "cols"),
        "self.fixed.columns": ("p.fixed.columns", "cols"),
        "self.binary.min_columns": ("p.join.minCols", "cols"),
        "self.columns_required": ("(PartialJoin_columns_required p)", "cols"),
        "self.applied_columns(current)": ("(p.appliedColumns ccols)", "cols"),
    }

    def __init__(self, cls, name):
        self.cls = cls
        self.cname = "PartialJoin"
        self.name = name
        f = inspect.getattr_static(cls, name)
        if isinstance(f, property):
            f = f.fget
        src = textwrap.dedent(inspect.getsource(f))
        self.fdef = next(n for n in ast.walk(ast.parse(src)) if isinstance(n, ast.FunctionDef))
        self.env = {}
        self.counter = 0

    def special(self, src):
        return self.DICT.get(src)

    def expr(self, e):
        if isinstance(e, ast.Name) and e.id == "self":
            return "p", "pjoin"
        if isinstance(e, ast.Call) and ast.unparse(e.func) == "UnaryCommutator":
            kw = {k.arg: k.value for k in e.keywords}
            pos = list(e.args)
            first = kw.get("first", pos[0] if pos else None)
            second = kw.get("second", pos[1] if len(pos) > 1 else None)
            done = kw.get("done", pos[2] if len(pos) > 2 else None)
            f, ft = self.expr(first)
            s2, st = self.expr(second)
            d = "true"
            if done is not None:
                d, dt = self.expr(done)
            if ft == "none":
                f = "none"
            elif ft == "pjoin":
                f = f"(some {f})"
            else:
                raise Untranslatable("first of a PartialJoin commutator")
            if st != "op":
                raise Untranslatable("second is not an operation")
            return f"({f}, {s2}, {d})", "commutator"
        return super().expr(e)

    def ret(self, e):
        x, t = self.expr(e)
        if self.name == "commute" and t == "commutator":
            return x
        if self.name == "columns_required" and t == "cols":
            return x
        raise Untranslatable(f"return {ast.unparse(e)[:50]}")

    def default_end(self):
        raise Untranslatable("control reaches the end of the function")

    def lean(self):
        if self.name == "commute":
            sig = "def PartialJoin_commute (p : PJoin) (cur : UOp) (tcols ccols : Cols) : Option PJoin × UOp × Bool :="
        else:
            sig = "def PartialJoin_columns_required (p : PJoin) : Cols :="
        return sig + "\n  " + self.block(self.fdef.body, self.default_end)


class PJoinBeginMethod(PJoinMethod):
    """`PartialJoin._begin_apply` (T-f).  The method is monadic (`applied_common_columns` may raise) and calls itself
    on the replacement whose common columns are resolved; it is translated with an explicit recursion budget.  Accepted
    beyond the common grammar: the test `self.binary.max_columns != self.binary.min_columns`, the assignment from
    `self.binary.applied_common_columns(self.fixed, target)`, `dataclasses.replace(self, binary=dataclasses.replace(
    self.binary, min_columns=A, max_columns=B))`, the idiom `if preferred_engine is None: preferred_engine = E`, and
    the two returns `<replacement>._begin_apply(target, preferred_engine)` / `super()._begin_apply(target,
    preferred_engine)`."""

    DICT = dict(PJoinMethod.DICT, **{
        "target.columns": ("(Rel.columns target)", "cols"),
        "self.fixed.engine": ("(Rel.engine p.fixed)", "engine"),
        "target.engine": ("(Rel.engine target)", "engine"),
    })

    def __init__(self, cls):
        super().__init__(cls, "_begin_apply")
        self.env = {"preferred_engine": ("pref", "optengine")}

    def block(self, stmts, rest_k):
        if stmts:
            s, tail = stmts[0], stmts[1:]
            k = lambda: self.block(tail, rest_k)   # noqa: E731
            if isinstance(s, ast.If) and ast.unparse(s.test) == "self.binary.max_columns != self.binary.min_columns":
                saved = dict(self.env)
                a = self.block(s.body, k)
                self.env = dict(saved)
                b = self.block(s.orelse, k)
                self.env = saved
                return f"(if (!JoinOp.resolved p.join) then {a} else {b})"
            if isinstance(s, ast.Assign) and isinstance(s.targets[0], ast.Name):
                name, vsrc = s.targets[0].id, ast.unparse(s.value)
                if vsrc == "self.binary.applied_common_columns(self.fixed, target)":
                    self.counter += 1
                    v = f"{name}_{self.counter}"
                    self.env[name] = (v, "cols")
                    return ("(match JoinOp.appliedCommonColumns p.join (Rel.columns p.fixed) (Rel.columns target) with "
                            f"| Except.error e => Except.error e | Except.ok {v} => {k()})")
                if isinstance(s.value, ast.Call) and ast.unparse(s.value.func) == "dataclasses.replace":
                    c = s.value
                    kws = {kw.arg: kw.value for kw in c.keywords}
                    inner = kws.get("binary")
                    if (len(c.args) == 1 and ast.unparse(c.args[0]) == "self" and set(kws) == {"binary"}
                            and isinstance(inner, ast.Call) and ast.unparse(inner.func) == "dataclasses.replace"
                            and len(inner.args) == 1 and ast.unparse(inner.args[0]) == "self.binary"
                            and {kw.arg for kw in inner.keywords} == {"min_columns", "max_columns"}):
                        ik = {kw.arg: kw.value for kw in inner.keywords}
                        a, at = self.expr(ik["min_columns"])
                        b, bt = self.expr(ik["max_columns"])
                        if at != "cols" or bt != "cols":
                            raise Untranslatable("replaced common columns are not column sets")
                        self.counter += 1
                        v = f"{name}_{self.counter}"
                        self.env[name] = (v, "pjoin")
                        return (f"(let {v} : PJoin := {{ p with join := {{ p.join with minCols := {a}, "
                                f"maxCols := some {b} }} }}; {k()})")
                    raise Untranslatable(f"dataclasses.replace: {vsrc[:60]}")
            if (isinstance(s, ast.If) and ast.unparse(s.test) == "preferred_engine is None" and not s.orelse
                    and len(s.body) == 1 and isinstance(s.body[0], ast.Assign)
                    and ast.unparse(s.body[0].targets[0]) == "preferred_engine"):
                cur = self.env.get("preferred_engine")
                if cur is None or cur[1] != "optengine":
                    raise Untranslatable("preferred_engine re-assigned twice")
                e, et = self.expr(s.body[0].value)
                if et != "engine":
                    raise Untranslatable("default preferred engine is not an engine")
                self.counter += 1
                v = f"preferred_engine_{self.counter}"
                self.env["preferred_engine"] = (v, "engine")
                return f"(let {v} : Engine := Option.getD {cur[0]} {e}; {k()})"
        return super().block(stmts, rest_k)

    def ret(self, e):
        src = ast.unparse(e)
        pe = self.env.get("preferred_engine")
        if src.endswith("._begin_apply(target, preferred_engine)") and not src.startswith("super()"):
            who = src[: -len("._begin_apply(target, preferred_engine)")]
            if who in self.env and self.env[who][1] == "pjoin" and pe is not None and pe[1] == "optengine":
                return f"(PartialJoin_begin_apply fuel {self.env[who][0]} target {pe[0]})"
            raise Untranslatable(f"recursive call {src[:60]}")
        if src == "super()._begin_apply(target, preferred_engine)":
            if pe is not None and pe[1] == "engine":
                return f"(Except.ok (p, {pe[0]}))"
            raise Untranslatable("super()._begin_apply with an optional preferred engine")
        raise Untranslatable(f"return {src[:60]}")

    def lean(self):
        return ("def PartialJoin_begin_apply : Nat → PJoin → Rel → Option Engine → Except Err (PJoin × Engine)\n"
                "  | 0, _, _, _ => Except.error Err.fuel\n"
                "  | fuel+1, p, target, pref =>\n    " + self.block(self.fdef.body, self.default_end))


class JoinBeginMethod(Method):
    """`Join._begin_apply(lhs, rhs)` (T-f): `self` is a model `JoinOp` value `j`.  Monadic: `applied_common_columns`
    and the property `common_columns` may raise.  Accepted beyond the common grammar: the unresolved test
    `self.max_columns != self.min_columns`, the assignment from `self.applied_common_columns(lhs, rhs)`,
    `dataclasses.replace(self, min_columns=A, max_columns=B)`, a guard `if not <operand>.columns >= self.common_columns:
    raise ...`, the test `self.predicate.as_trivial() is True`, and returns of `IgnoreOne(<bool>)` / a join value."""

    DICT = {
        "self.predicate.columns_required": ("(Pred.columnsRequired j.pred)", "cols"),
        "self.applied_columns(lhs, rhs)": ("(Cols.union (Rel.columns lhs) (Rel.columns rhs))", "cols"),
        "lhs.columns": ("(Rel.columns lhs)", "cols"), "rhs.columns": ("(Rel.columns rhs)", "cols"),
        "lhs.engine": ("(Rel.engine lhs)", "engine"), "rhs.engine": ("(Rel.engine rhs)", "engine"),
        "lhs.is_join_identity": ("(Rel.isJoinIdentity lhs)", "bool"),
        "rhs.is_join_identity": ("(Rel.isJoinIdentity rhs)", "bool"),
    }

    def __init__(self, cls):
        self.cls = cls
        self.cname = "Join"
        self.name = "_begin_apply"
        f = inspect.getattr_static(cls, "_begin_apply")
        src = textwrap.dedent(inspect.getsource(f))
        self.fdef = next(n for n in ast.walk(ast.parse(src)) if isinstance(n, ast.FunctionDef))
        self.env = {}
        self.counter = 0

    def special(self, src):
        return self.DICT.get(src)

    def expr(self, e):
        if isinstance(e, ast.Name) and e.id == "self":
            return "j", "joinop"
        src = ast.unparse(e)
        if src in self.DICT:
            return self.DICT[src]
        return super().expr(e)

    def block(self, stmts, rest_k):
        if stmts:
            s, tail = stmts[0], stmts[1:]
            k = lambda: self.block(tail, rest_k)   # noqa: E731
            if isinstance(s, ast.If):
                tsrc = ast.unparse(s.test)
                cond = None
                if tsrc == "self.max_columns != self.min_columns":
                    cond = "(!JoinOp.resolved j)"
                elif tsrc == "self.predicate.as_trivial() is True":
                    cond = "(Pred.asTrivial j.pred == some true)"
                if cond is not None:
                    saved = dict(self.env)
                    a = self.block(s.body, k)
                    self.env = dict(saved)
                    b = self.block(s.orelse, k)
                    self.env = saved
                    return f"(if {cond} then {a} else {b})"
                for side in ("lhs", "rhs"):
                    if (tsrc == f"not {side}.columns >= self.common_columns" and not s.orelse and len(s.body) == 1
                            and isinstance(s.body[0], ast.Raise)):
                        raised = self.block(s.body, k)
                        self.counter += 1
                        v = f"common_{self.counter}"
                        return (f"(match JoinOp.commonColumns j with | Except.error e => Except.error e "
                                f"| Except.ok {v} => (if (!(Cols.subset {v} (Rel.columns {side}))) then {raised} "
                                f"else {k()}))")
            if isinstance(s, ast.Assign) and isinstance(s.targets[0], ast.Name):
                name, vsrc = s.targets[0].id, ast.unparse(s.value)
                if vsrc == "self.applied_common_columns(lhs, rhs)":
                    self.counter += 1
                    v = f"{name}_{self.counter}"
                    self.env[name] = (v, "cols")
                    return ("(match JoinOp.appliedCommonColumns j (Rel.columns lhs) (Rel.columns rhs) with "
                            f"| Except.error e => Except.error e | Except.ok {v} => {k()})")
                if vsrc == "self":
                    self.env[name] = ("j", "joinop")
                    return k()
                if isinstance(s.value, ast.Call) and ast.unparse(s.value.func) == "dataclasses.replace":
                    c = s.value
                    kws = {kw.arg: kw.value for kw in c.keywords}
                    if len(c.args) == 1 and ast.unparse(c.args[0]) == "self" and set(kws) == {"min_columns", "max_columns"}:
                        a, at = self.expr(kws["min_columns"])
                        b, bt = self.expr(kws["max_columns"])
                        if at != "cols" or bt != "cols":
                            raise Untranslatable("replaced common columns are not column sets")
                        self.counter += 1
                        v = f"{name}_{self.counter}"
                        self.env[name] = (v, "joinop")
                        return f"(let {v} : JoinOp := {{ j with minCols := {a}, maxCols := some {b} }}; {k()})"
                    raise Untranslatable(f"dataclasses.replace: {vsrc[:60]}")
        return super().block(stmts, rest_k)

    def ret(self, e):
        src = ast.unparse(e)
        if src == "IgnoreOne(True)":
            return "(Except.ok (BOp.ignoreOne true))"
        if src == "IgnoreOne(False)":
            return "(Except.ok (BOp.ignoreOne false))"
        x, t = self.expr(e)
        if t == "joinop":
            return f"(Except.ok (BOp.join {x}))"
        raise Untranslatable(f"return {src[:60]}")

    def default_end(self):
        raise Untranslatable("control reaches the end of the function")

    def lean(self):
        return ("def Join_begin_apply (j : JoinOp) (lhs rhs : Rel) : Except Err BOp :=\n  "
                + self.block(self.fdef.body, self.default_end))


class JoinFinishMethod(JoinBeginMethod):
    """`Join._finish_apply(lhs, rhs)` (T-f): the join-identity short-cuts, the engine and predicate-support checks;
    `super()._finish_apply(lhs, rhs)` is the base-class construction of the `BinaryOperationRelation` with
    `columns = lhs.columns | rhs.columns`."""

    DICT = dict(JoinBeginMethod.DICT, **{
        "self.predicate.is_supported_by(lhs.engine)": ("(Pred.isSupportedBy (Rel.engine lhs).kind j.pred)", "bool"),
    })

    def __init__(self, cls):
        super().__init__(cls)
        self.name = "_finish_apply"
        f = inspect.getattr_static(cls, "_finish_apply")
        src = textwrap.dedent(inspect.getsource(f))
        self.fdef = next(n for n in ast.walk(ast.parse(src)) if isinstance(n, ast.FunctionDef))

    def ret(self, e):
        src = ast.unparse(e)
        if src == "rhs":
            return "(Except.ok BRes.rhs)"
        if src == "lhs":
            return "(Except.ok BRes.lhs)"
        if src == "super()._finish_apply(lhs, rhs)":
            return ("(Except.ok (BRes.new (Rel.binary (BOp.join j) lhs rhs "
                    "(Cols.union (Rel.columns lhs) (Rel.columns rhs)))))")
        raise Untranslatable(f"return {src[:60]}")

    def lean(self):
        return ("def Join_finish_apply (j : JoinOp) (lhs rhs : Rel) : Except Err BRes :=\n  "
                + self.block(self.fdef.body, self.default_end))


class JoinCommonMethod(JoinBeginMethod):
    """`Join.applied_common_columns(lhs, rhs)` (T-f), over the operands' column sets: the automatic common columns are
    the KEY columns both operands have (`{tag for tag in lhs.columns & rhs.columns if tag.is_key}`), capped by
    `max_columns` when that is given, and must contain `min_columns`."""

    DICT = {
        "lhs.columns": ("lcols", "cols"), "rhs.columns": ("rcols", "cols"),
        "self.min_columns": ("j.minCols", "cols"),
    }

    def __init__(self, cls):
        super().__init__(cls)
        self.name = "applied_common_columns"
        f = inspect.getattr_static(cls, "applied_common_columns")
        src = textwrap.dedent(inspect.getsource(f))
        self.fdef = next(n for n in ast.walk(ast.parse(src)) if isinstance(n, ast.FunctionDef))

    def block(self, stmts, rest_k):
        if stmts:
            s, tail = stmts[0], stmts[1:]
            k = lambda: self.block(tail, rest_k)   # noqa: E731
            if isinstance(s, ast.Assign) and isinstance(s.targets[0], ast.Name) and isinstance(s.value, ast.SetComp):
                c = s.value
                g = c.generators[0] if len(c.generators) == 1 else None
                if (g is not None and isinstance(c.elt, ast.Name) and isinstance(g.target, ast.Name)
                        and c.elt.id == g.target.id and len(g.ifs) == 1
                        and ast.unparse(g.ifs[0]) == f"{g.target.id}.is_key" and isinstance(g.iter, ast.BinOp)
                        and isinstance(g.iter.op, ast.BitAnd)):
                    a, at = self.expr(g.iter.left)
                    b, bt = self.expr(g.iter.right)
                    if at == "cols" and bt == "cols":
                        self.counter += 1
                        v = f"{s.targets[0].id}_{self.counter}"
                        self.env[s.targets[0].id] = (v, "cols")
                        return f"(let {v} : Cols := Cols.keys (Cols.inter {a} {b}); {k()})"
                raise Untranslatable("set comprehension")
            if (isinstance(s, ast.If) and ast.unparse(s.test) == "self.max_columns is not None" and not s.orelse
                    and len(s.body) == 1 and isinstance(s.body[0], ast.AugAssign)
                    and isinstance(s.body[0].op, ast.BitAnd) and isinstance(s.body[0].target, ast.Name)
                    and ast.unparse(s.body[0].value) == "self.max_columns"):
                name = s.body[0].target.id
                cur = self.env.get(name)
                if cur is None or cur[1] != "cols":
                    raise Untranslatable("capped variable is not a column set")
                self.counter += 1
                v = f"{name}_{self.counter}"
                self.env[name] = (v, "cols")
                return (f"(let {v} : Cols := (match j.maxCols with | some m => Cols.inter {cur[0]} m "
                        f"| none => {cur[0]}); {k()})")
        return super().block(stmts, rest_k)

    def ret(self, e):
        src = ast.unparse(e)
        if isinstance(e, ast.Call) and ast.unparse(e.func) == "frozenset" and len(e.args) == 1:
            x, t = self.expr(e.args[0])
            if t == "cols":
                return f"(Except.ok {x})"
        x, t = self.expr(e)
        if t == "cols":
            return f"(Except.ok {x})"
        raise Untranslatable(f"return {src[:60]}")

    def lean(self):
        return ("def Join_applied_common_columns (j : JoinOp) (lcols rcols : Cols) : Except Err Cols :=\n  "
                + self.block(self.fdef.body, self.default_end))


class SelectApplySkipMethod(Method):
    """`sql.Select.apply_skip(skip_to, sort, projection, deduplication, slice)` (T-f) over the model's `Slots` record
    (`sort=None` and `Sort()` are both the empty term list, `slice=None` and `Slice()` both `(0, none)` - the two
    normalising statements at the top of the method are therefore accepted and dropped).  Each
    `target = <op>._finish_apply(target)` is monadic (`_finish_apply` may raise) and yields the new relation or the
    target itself."""

    COND = {
        "sort.terms": "(!sl.sort.isEmpty)",
        "projection is not None": "sl.proj.isSome",
        "deduplication is not None": "sl.dedup",
        "slice.start or slice.limit is not None": "(sl.sliceStart != 0 || sl.sliceStop.isSome)",
    }
    OPS = {
        "sort": "(UOp.sort sl.sort)", "projection": "(UOp.proj (sl.proj.getD []))", "deduplication": "UOp.dedup",
        "slice": "(UOp.slice sl.sliceStart sl.sliceStop)",
    }

    def __init__(self, cls):
        self.cls = cls
        self.cname = "Select"
        self.name = "apply_skip"
        f = inspect.getattr_static(cls, "apply_skip")
        f = getattr(f, "__func__", f)
        src = textwrap.dedent(inspect.getsource(f))
        self.fdef = next(n for n in ast.walk(ast.parse(src)) if isinstance(n, ast.FunctionDef))
        self.env = {}
        self.counter = 0
        self.compound = "false"

    def block(self, stmts, rest_k):
        if not stmts:
            return rest_k()
        s, tail = stmts[0], stmts[1:]
        k = lambda: self.block(tail, rest_k)   # noqa: E731
        src = ast.unparse(s)
        if isinstance(s, ast.Expr) and isinstance(s.value, ast.Constant):
            return k()
        if src == "target = skip_to":
            self.env["target"] = "skipTo"
            return k()
        if src in ("if sort is None:\n    sort = Sort()", "if slice is None:\n    slice = Slice()"):
            return k()
        if src == "is_compound = False":
            self.compound = "false"
            return k()
        if isinstance(s, ast.Match) and ast.unparse(s.subject) == "skip_to" and len(s.cases) == 1 \
                and ast.unparse(s.cases[0].pattern) == "BinaryOperationRelation(operation=Chain())" \
                and len(s.cases[0].body) == 1 and ast.unparse(s.cases[0].body[0]) == "is_compound = True":
            self.compound = "(isChain skipTo)"
            return k()
        if isinstance(s, ast.If) and not s.orelse and len(s.body) == 1 and ast.unparse(s.test) in self.COND:
            b = s.body[0]
            bsrc = ast.unparse(b)
            for name, op in self.OPS.items():
                if bsrc == f"target = {name}._finish_apply(target)":
                    cur = self.env["target"]
                    self.counter += 1
                    v = f"target_{self.counter}"
                    cond = self.COND[ast.unparse(s.test)]
                    # both branches continue with the same code, over the new or the old target
                    self.env["target"] = v
                    rest = k()
                    return (f"(match (if {cond} then (match UOp.finishApply {op} {cur} with "
                            f"| Except.error e => Except.error e | Except.ok r => Except.ok (r.get {cur})) "
                            f"else Except.ok {cur}) with | Except.error e => Except.error e "
                            f"| Except.ok {v} => {rest})")
            raise Untranslatable(f"conditional statement {bsrc[:50]}")
        if isinstance(s, ast.Return):
            c = s.value
            if isinstance(c, ast.Call) and ast.unparse(c.func) == "cls":
                kw = {x.arg: ast.unparse(x.value) for x in c.keywords}
                want = {"target": "target", "projection": "projection", "deduplication": "deduplication",
                        "sort": "sort", "slice": "slice", "skip_to": "skip_to", "is_compound": "is_compound"}
                if kw == want and not c.args:
                    return (f"(Except.ok (Rel.select 0 sl.sort sl.proj sl.dedup sl.sliceStart sl.sliceStop skipTo "
                            f"{self.compound} {self.env['target']}))")
            raise Untranslatable(f"return {src[:60]}")
        raise Untranslatable(f"statement {src[:60]}")

    def default_end(self):
        raise Untranslatable("control reaches the end of the function")

    def lean(self):
        return ("def Select_apply_skip (skipTo : Rel) (sl : Slots) : Except Err Rel :=\n  "
                + self.block(self.fdef.body, self.default_end))


REL_CTORS = {
    "LeafRelation": ".leaf _ _ _ _ _ _ _ _",
    "Materialization": ".mat _ _ {t}",
    "Transfer": ".transfer _ _ {t}",
    "Select": ".select _ _ _ _ _ _ _ _ {t}",
}
MARKERS = ["Materialization", "Transfer", "Select"]


class RelMethod(Method):
    """Recursive classmethods over relation classes: `Materialization.simplify`, `Transfer.simplify` (T-f)."""

    def __init__(self, cls, name, lean_name, sig, rec_call, ret_kind):
        self.cls = cls
        self.cname = cls.__name__
        self.name = name
        self.lean_name = lean_name
        self.sig = sig
        self.rec_call = rec_call          # python source of the recursive call -> lean prefix
        self.ret_kind = ret_kind          # "bool" | "optrel"
        f = inspect.getattr_static(cls, name)
        f = getattr(f, "__func__", f)
        src = textwrap.dedent(inspect.getsource(f))
        self.fdef = next(n for n in ast.walk(ast.parse(src)) if isinstance(n, ast.FunctionDef))
        self.env = {"target": ("target", "rel")}
        self.counter = 0
        self.covered: set[str] = set()

    def special(self, src):
        if src == "target.is_locked":
            return "(Rel.isLocked target)", "bool"
        if src == "destination":
            return "dest", "engine"
        m = {"target.engine": ("(Rel.engine target)", "engine")}
        if src in m:
            return m[src]
        if src.endswith(".engine") and src[:-7] in self.env and self.env[src[:-7]][1] == "rel":
            return f"(Rel.engine {self.env[src[:-7]][0]})", "engine"
        for py, lean in self.rec_call.items():
            if src.startswith(py + "(") and src.endswith(")"):
                args = [a.strip() for a in src[len(py) + 1:-1].split(",")]
                if args[0] in self.env and self.env[args[0]][1] == "rel":
                    return f"({lean} {self.env[args[0]][0]})", self.ret_kind
        return None

    def expr(self, e):
        if isinstance(e, ast.Name) and e.id == "destination":
            return "dest", "engine"
        return super().expr(e)

    def ret(self, e):
        src = ast.unparse(e)
        if self.ret_kind == "bool":
            x, t = self.expr(e)
            if t == "bool":
                return x
        else:
            if src == "None":
                return "none"
            x, t = self.expr(e)
            if t == "rel":
                return f"(some {x})"
            if t == "optrel":
                return x
        raise Untranslatable(f"return {src[:50]}")

    def default_end(self):
        raise Untranslatable("control reaches the end of the function")

    def match_stmt(self, s, k):
        if ast.unparse(s.subject) != "target":
            raise Untranslatable("match subject")
        arms = []
        covered: set[str] = set()
        for case in s.cases:
            p = case.pattern
            if not isinstance(p, ast.MatchClass) or p.patterns:
                raise Untranslatable(f"relation pattern {ast.unparse(p)}")
            kname = ast.unparse(p.cls)
            bind = None
            for attr, sub in zip(p.kwd_attrs, p.kwd_patterns):
                if attr != "target" or not (isinstance(sub, ast.MatchAs) and sub.name and sub.pattern is None):
                    raise Untranslatable(f"relation keyword pattern {attr}")
                bind = sub.name
            kinds = MARKERS if kname == "MarkerRelation" else [kname]
            for kd in kinds:
                if kd in covered or kd not in REL_CTORS:
                    if kd not in REL_CTORS:
                        raise Untranslatable(f"relation class {kd}")
                    continue
                covered.add(kd)
                saved = dict(self.env)
                pat = REL_CTORS[kd].format(t=bind or "_")
                if bind:
                    self.env[bind] = (bind, "rel")
                body = self.block(case.body, k)
                self.env = saved
                # `target` stays the whole matched value: the arm re-binds it with an as-pattern
                arms.append(f"| target@({pat}) => {body}")
        arms.append(f"| _ => {k()}")
        return f"(match target with {' '.join(arms)})"

    def lean(self):
        return self.sig + "\n  " + self.block(self.fdef.body, self.default_end)


class ChainMethod(Method):
    def __init__(self, cls):
        self.cls = cls
        self.cname = "Chain"
        self.name = "_begin_apply"
        f = inspect.getattr_static(cls, "_begin_apply")
        src = textwrap.dedent(inspect.getsource(f))
        self.fdef = next(n for n in ast.walk(ast.parse(src)) if isinstance(n, ast.FunctionDef))
        self.env = {}
        self.counter = 0

    def special(self, src):
        return {"lhs.engine": ("(Rel.engine lhs)", "engine"), "rhs.engine": ("(Rel.engine rhs)", "engine"),
                "lhs.columns": ("(Rel.columns lhs)", "cols"), "rhs.columns": ("(Rel.columns rhs)", "cols")}.get(src)

    def ret(self, e):
        if ast.unparse(e) == "self":
            return "(Except.ok BOp.chain)"
        raise Untranslatable("return in Chain._begin_apply")

    def default_end(self):
        raise Untranslatable("control reaches the end of the function")

    def lean(self):
        return ("def Chain_begin_apply (lhs rhs : Rel) : Except Err BOp :=\n  "
                + self.block(self.fdef.body, self.default_end))


# which generated module each T-f job goes to: a translation problem (and a broken bridge) then concerns only the
# properties whose theorems depend on that module
REL_JOB_MODULE = {
    "PartialJoin._begin_apply": "JoinOps", "Join.applied_common_columns": "JoinOps", "Join._begin_apply": "JoinOps",
    "Join._finish_apply": "JoinOps", "Select.apply_skip": "SqlOps",
}


def gen_rel_ops(problems: list[str], module: str = "RelOps") -> str:
    import lsst.daf.relation as r
    from lsst.daf.relation._operations._join import PartialJoin

    out = ["/- GENERATED by harness/extract_ops.py from the current source -- do not edit. -/",
           "import DafRel.Gen.OpsSupport", "import DafRel.Model.Apply"]
    if module != "RelOps":
        out.append("import DafRel.Gen.RelOps")
    out += ["", "set_option linter.unusedVariables false", "", "namespace DafRel.Gen", "open DafRel", ""]
    jobs = [
        ("PartialJoin.columns_required", lambda: PJoinMethod(PartialJoin, "columns_required"),
         "def PartialJoin_columns_required (p : PJoin) : Cols :=\n  []"),
        ("PartialJoin.commute", lambda: PJoinMethod(PartialJoin, "commute"),
         "def PartialJoin_commute (p : PJoin) (cur : UOp) (tcols ccols : Cols) : Option PJoin × UOp × Bool :=\n"
         "  (none, UOp.identity, true)"),
        ("Materialization.simplify",
         lambda: RelMethod(r.Materialization, "simplify", "Materialization_simplify",
                           "def Materialization_simplify (target : Rel) : Bool :=",
                           {"cls.simplify": "Materialization_simplify"}, "bool"),
         "def Materialization_simplify (target : Rel) : Bool :=\n  false"),
        ("Transfer.simplify",
         lambda: RelMethod(r.Transfer, "simplify", "Transfer_simplify",
                           "def Transfer_simplify (dest : Engine) (target : Rel) : Option Rel :=",
                           {"cls.simplify": "Transfer_simplify dest"}, "optrel"),
         "def Transfer_simplify (dest : Engine) (target : Rel) : Option Rel :=\n  none"),
        ("PartialJoin._begin_apply", lambda: PJoinBeginMethod(PartialJoin),
         "def PartialJoin_begin_apply (fuel : Nat) (p : PJoin) (target : Rel) (pref : Option Engine) : "
         "Except Err (PJoin × Engine) :=\n  Except.error Err.fuel"),
        ("Select.apply_skip", lambda: SelectApplySkipMethod(__import__("lsst.daf.relation.sql", fromlist=["Select"]).Select),
         "def Select_apply_skip (skipTo : Rel) (sl : Slots) : Except Err Rel :=\n  Except.error Err.fuel"),
        ("Join.applied_common_columns", lambda: JoinCommonMethod(r.Join),
         "def Join_applied_common_columns (j : JoinOp) (lcols rcols : Cols) : Except Err Cols :=\n"
         "  Except.error Err.fuel"),
        ("Join._begin_apply", lambda: JoinBeginMethod(r.Join),
         "def Join_begin_apply (j : JoinOp) (lhs rhs : Rel) : Except Err BOp :=\n  Except.error Err.fuel"),
        ("Join._finish_apply", lambda: JoinFinishMethod(r.Join),
         "def Join_finish_apply (j : JoinOp) (lhs rhs : Rel) : Except Err BRes :=\n  Except.error Err.fuel"),
        ("Chain._begin_apply", lambda: ChainMethod(r.Chain),
         "def Chain_begin_apply (lhs rhs : Rel) : Except Err BOp :=\n  Except.error Err.fuel"),
    ]
    for what, make, stub in jobs:
        if REL_JOB_MODULE.get(what, "RelOps") != module:
            continue
        try:
            out.append(make().lean())
        except Untranslatable as e:
            problems.append(f"{what}: {' '.join(str(e).split())}")
            out.append(stub + "  -- UNTRANSLATABLE: " + " ".join(str(e).split()))
        except Exception as e:  # noqa: BLE001
            problems.append(f"{what}: translator error {type(e).__name__}: {e}")
            out.append(stub + "  -- UNTRANSLATABLE")
        out.append("")
    out.append("end DafRel.Gen")
    return "\n".join(out) + "\n"


STUB = {
    "commute": "(UOp.Commutator.mk none UOp.identity true)",
    "simplify": "(Except.error Err.fuel)",
    "_begin_apply": "(Except.error Err.fuel)",
}


def gen_ops(problems: list[str]) -> str:
    import lsst.daf.relation as r

    classes = [r.Calculation, r.Deduplication, r.Projection, r.Selection, r.Slice, r.Sort]
    out = ["/- GENERATED by harness/extract_ops.py from the current source -- do not edit. -/",
           "import DafRel.Gen.OpsSupport", "", "namespace DafRel.Gen", "open DafRel", ""]
    for cls in classes:
        for name in ("commute", "simplify", "_begin_apply"):
            if name not in cls.__dict__:
                continue      # inherited default: not this class's code
            m = Method(cls, name)
            try:
                out.append(m.lean())
            except Untranslatable as e:
                problems.append(f"{cls.__name__}.{name}: {e}")
                params = " ".join(f"({f} : {t})" for f, t in FIELDS[cls.__name__])
                if name == "commute":
                    sig = f"def {cls.__name__}_commute {params} (cur : UOp) (tcols ccols : Cols) : UOp.Commutator :="
                elif name == "simplify":
                    sig = f"def {cls.__name__}_simplify {params} (cur : UOp) : Except Err UOp.Simplified :="
                else:
                    sig = (f"def {cls.__name__}_begin_apply {params} (tcols : Cols) (teng : Engine) "
                           "(pref : Option Engine) : Except Err (UOp × Engine) :=")
                out.append(sig + "\n  " + STUB[name] + "  -- UNTRANSLATABLE: " + str(e))
            out.append("")
    out.append("end DafRel.Gen")
    return "\n".join(out) + "\n"


if __name__ == "__main__":
    import sys
    probs: list[str] = []
    print(gen_rel_ops(probs) if len(sys.argv) > 1 and sys.argv[1] == "rel" else gen_ops(probs))
    for p in probs:
        print("UNTRANSLATABLE", p)
