"""Translator: regenerates `lean/DafRel/Gen/*.lean` from /repo's CURRENT source on every run.

  T-a  straight-line integer/None methods  ->  PyLite terms          (Gen/Kernel.lean)
  T-b  constant operation flags            ->  a table               (Gen/Flags.lean)
  T-c  dataclass schema (frozen/eq/hash)   ->  a table               (Gen/Schema.lean)
  T-d  the relation-name f-string          ->  a list of parts       (Gen/Names.lean)
  T-e  commute / simplify / _begin_apply of the operation classes -> Lean functions over the model's
       own types, through a typed dictionary (harness/extract_ops.py) (Gen/Ops.lean)

Files are rewritten only when their content changes (so `lake build` stays incremental).
A method that no longer fits the accepted grammar is reported on stdout as
`UNTRANSLATABLE <what>`; the corresponding definition is emitted as a stub that makes the
bridge lemma fail, so the obligation is reported as broken and the failing-input search runs.
"""
from __future__ import annotations

import ast
import dataclasses
import inspect
import os
import sys
import textwrap

HERE = os.path.dirname(os.path.abspath(__file__))
VERIF = os.path.dirname(HERE)
GEN = os.path.join(VERIF, "lean", "DafRel", "Gen")

PROBLEMS: list[str] = []


class Untranslatable(Exception):
    pass


# --------------------------------------------------------------------------- T-a
def ident(s: str) -> str:
    return s.replace(".", "_")


class Fn:
    """Translate one function body into a PyLite term."""

    def __init__(self, cls, name: str, ctor_classes=()):
        self.cls = cls
        self.name = name
        self.params: list[str] = []
        self.ctor_classes = ctor_classes
        f = inspect.getattr_static(cls, name)
        if isinstance(f, property):
            f = f.fget
        src = textwrap.dedent(inspect.getsource(f))
        tree = ast.parse(src)
        self.fdef = next(n for n in ast.walk(tree) if isinstance(n, ast.FunctionDef))
        self.locals: set[str] = set()

    def param(self, p: str) -> str:
        if p not in self.params:
            self.params.append(p)
        return p

    # expressions -------------------------------------------------------------
    def expr(self, e) -> str:
        if isinstance(e, ast.Constant):
            if e.value is None:
                return "(pure PyV.none)"
            if isinstance(e.value, bool):
                return f"(pure (PyV.bool {'true' if e.value else 'false'}))"
            if isinstance(e.value, int):
                return f"(pure (PyV.int ({e.value})))"
            raise Untranslatable(f"constant {e.value!r}")
        if isinstance(e, ast.Name):
            if e.id in self.locals:
                return f"(pure {ident(e.id)})"
            raise Untranslatable(f"free name {e.id}")
        if isinstance(e, ast.Attribute) and isinstance(e.value, ast.Name):
            return f"(pure {self.param(e.value.id + '_' + e.attr)})"
        if isinstance(e, ast.BinOp):
            op = {ast.Add: "add", ast.Sub: "sub", ast.Mult: "mul"}.get(type(e.op))
            if op is None:
                raise Untranslatable(f"operator {type(e.op).__name__}")
            return f"(bind2 {op} {self.expr(e.left)} {self.expr(e.right)})"
        if isinstance(e, ast.Compare) and len(e.ops) == 1:
            o = e.ops[0]
            left, right = e.left, e.comparators[0]
            if isinstance(o, (ast.Is, ast.IsNot)):
                if not (isinstance(right, ast.Constant) and right.value is None):
                    raise Untranslatable("`is` with a non-None operand")
                return f"({self.expr(left)} >>= {'isNone' if isinstance(o, ast.Is) else 'isNotNone'})"
            op = {ast.Lt: "lt", ast.LtE: "le", ast.Gt: "gt", ast.GtE: "ge", ast.Eq: "eq", ast.NotEq: "ne"}.get(type(o))
            if op is None:
                raise Untranslatable(f"comparison {type(o).__name__}")
            return f"(bind2 {op} {self.expr(left)} {self.expr(right)})"
        if isinstance(e, ast.BoolOp):
            vals = [self.expr(v) for v in e.values]
            comb = "pyAnd" if isinstance(e.op, ast.And) else "pyOr"
            out = vals[-1]
            for v in reversed(vals[:-1]):
                out = f"({comb} {v} {out})"
            return out
        if isinstance(e, ast.UnaryOp) and isinstance(e.op, ast.Not):
            return f"({self.expr(e.operand)} >>= pyNot)"
        if isinstance(e, ast.UnaryOp) and isinstance(e.op, ast.USub) and isinstance(e.operand, ast.Constant):
            return f"(pure (PyV.int (-{e.operand.value})))"
        if isinstance(e, ast.IfExp):
            return f"(pyIf {self.expr(e.test)} {self.expr(e.body)} {self.expr(e.orelse)})"
        if (isinstance(e, ast.Call) and isinstance(e.func, ast.Attribute) and isinstance(e.func.value, ast.Name)
                and e.func.value.id == "self" and not e.args and not e.keywords):
            # a call of a small private helper of the same class, `self._helper()`, whose body is a single
            # `return <expression>`: inlined (the expression is read in the same `self`)
            helper = self.helper_return(e.func.attr)
            if helper is not None:
                return self.expr(helper)
            raise Untranslatable(f"call self.{e.func.attr}()")
        if isinstance(e, ast.Call) and isinstance(e.func, ast.Name):
            if e.func.id in ("min", "max") and len(e.args) == 2 and not e.keywords:
                return f"(bind2 {e.func.id}2 {self.expr(e.args[0])} {self.expr(e.args[1])})"
            if e.func.id in self.ctor_classes and len(e.args) == 2 and not e.keywords:
                return f"(bind2 {e.func.id}_new {self.expr(e.args[0])} {self.expr(e.args[1])})"
        raise Untranslatable(ast.dump(e)[:80])

    def helper_return(self, name: str):
        """The expression returned by the zero-argument method/property `name` of the class when its body
        is a single `return <expression>` (after an optional docstring); None otherwise."""
        try:
            f = inspect.getattr_static(self.cls, name)
            if isinstance(f, property):
                return None          # a property is read as an attribute, not called
            tree = ast.parse(textwrap.dedent(inspect.getsource(f)))
        except (AttributeError, OSError, TypeError, SyntaxError):
            return None
        fdef = next((n for n in ast.walk(tree) if isinstance(n, ast.FunctionDef)), None)
        if fdef is None or len(fdef.args.args) != 1:
            return None
        body = [b for b in fdef.body
                if not (isinstance(b, ast.Expr) and isinstance(b.value, ast.Constant) and isinstance(b.value.value, str))]
        if len(body) == 1 and isinstance(body[0], ast.Return) and body[0].value is not None:
            return body[0].value
        return None

    # statements (continuation-passing: the rest of the block is duplicated into both branches)
    def block(self, stmts) -> str:
        if not stmts:
            return "(pure PyV.none)"
        s, rest = stmts[0], stmts[1:]
        if isinstance(s, ast.Expr) and isinstance(s.value, ast.Constant) and isinstance(s.value.value, str):
            return self.block(rest)  # docstring
        if isinstance(s, ast.Return):
            return self.expr(s.value) if s.value is not None else "(pure PyV.none)"
        if isinstance(s, ast.Raise):
            exc = s.exc.func.id if isinstance(s.exc, ast.Call) else getattr(s.exc, "id", "?")
            name = {"ValueError": "valueError", "TypeError": "typeError", "ColumnError": "columnError"}.get(exc)
            return f"(Except.error PyExc.{name})" if name else f'(Except.error (PyExc.other "{exc}"))'
        if isinstance(s, ast.Assign) and len(s.targets) == 1 and isinstance(s.targets[0], ast.Name):
            v = s.targets[0].id
            rhs = self.expr(s.value)
            self.locals.add(v)
            return f"({rhs} >>= fun {ident(v)} => {self.block(rest)})"
        if isinstance(s, ast.AnnAssign) and isinstance(s.target, ast.Name):
            # `x: T = value` is `x = value`; a bare annotation `x: T` does nothing
            if s.value is None:
                return self.block(rest)
            v = s.target.id
            rhs = self.expr(s.value)
            self.locals.add(v)
            return f"({rhs} >>= fun {ident(v)} => {self.block(rest)})"
        if isinstance(s, ast.If):
            saved = set(self.locals)
            t = self.block(list(s.body) + rest)
            self.locals = set(saved)
            f = self.block(list(s.orelse) + rest)
            self.locals = saved | self.locals
            return f"(pyIf {self.expr(s.test)} {t} {f})"
        raise Untranslatable(f"statement {type(s).__name__}")

    def lean(self, lean_name: str) -> str:
        try:
            body = self.block(self.fdef.body)
            params = " ".join(f"({p} : PyV)" for p in sorted(self.params))
            self.sorted_params = sorted(self.params)
            return f"def {lean_name} {params} : PyM PyV :=\n  {body}\n"
        except Untranslatable as e:
            PROBLEMS.append(f"{self.cls.__name__}.{self.name}: {e}")
            return (f"-- UNTRANSLATABLE: {e}\n"
                    f"def {lean_name} : Unit := ()\n")


def gen_kernel() -> str:
    import lsst.daf.relation as r
    from lsst.daf.relation._relation import BaseRelation
    from lsst.daf.relation._unary_operation import Reordering, RowFilter, UnaryOperation

    out = ["/- GENERATED by harness/extract.py from /repo/python/lsst/daf/relation -- do not edit. -/",
           "import DafRel.PyLite", "", "namespace DafRel.Gen", "open DafRel.PyLite", "",
           "def bind2 (f : PyV → PyV → PyM PyV) (a b : PyM PyV) : PyM PyV := a >>= fun x => b >>= fun y => f x y",
           "def pyIf (c t e : PyM PyV) : PyM PyV := c >>= fun v => if truthy v then t else e",
           "def pyAnd (a b : PyM PyV) : PyM PyV := a >>= fun v => if truthy v then b else pure v",
           "def pyOr (a b : PyM PyV) : PyM PyV := a >>= fun v => if truthy v then pure v else b", ""]
    f = Fn(r.Slice, "__post_init__")
    out.append(f.lean("Slice_post_init"))
    out.append("def Slice_new (a b : PyV) : PyM PyV :=\n"
               "  Slice_post_init a b >>= fun _ => pure (PyV.obj \"Slice\" a b)\n")
    targets = [
        (r.Slice, "then", "Slice_then"),
        (r.Slice, "limit", "Slice_limit"),
        (r.Slice, "applied_min_rows", "Slice_applied_min_rows"),
        (r.Slice, "applied_max_rows", "Slice_applied_max_rows"),
        (r.Deduplication, "applied_min_rows", "Deduplication_applied_min_rows"),
        (r.Deduplication, "applied_max_rows", "Deduplication_applied_max_rows"),
        (r.Chain, "applied_min_rows", "Chain_applied_min_rows"),
        (r.Chain, "applied_max_rows", "Chain_applied_max_rows"),
        (r.Join, "applied_min_rows", "Join_applied_min_rows"),
        (r.Join, "applied_max_rows", "Join_applied_max_rows"),
        (RowFilter, "applied_min_rows", "RowFilter_applied_min_rows"),
        (r.Selection, "applied_min_rows", "Selection_applied_min_rows"),
        (r.Projection, "applied_min_rows", "Projection_applied_min_rows"),
        (r.Calculation, "applied_min_rows", "Calculation_applied_min_rows"),
        (Reordering, "applied_min_rows", "Reordering_applied_min_rows"),
        (Reordering, "applied_max_rows", "Reordering_applied_max_rows"),
        (UnaryOperation, "applied_max_rows", "UnaryOperation_applied_max_rows"),
        (BaseRelation, "is_join_identity", "Relation_is_join_identity"),
        (BaseRelation, "is_trivial", "Relation_is_trivial"),
    ]
    sigs = []
    for cls, name, lean_name in targets:
        # which class actually defines the method the objects use?
        f = Fn(cls, name, ctor_classes=("Slice",))
        out.append(f.lean(lean_name))
        sigs.append((lean_name, getattr(f, "sorted_params", None)))
    out.append("end DafRel.Gen")
    # parameter lists are part of the contract with the bridge lemmas
    out.insert(3, "-- signatures: " + "; ".join(f"{n}({', '.join(p) if p is not None else '?'})" for n, p in sigs))
    return "\n".join(out) + "\n"


# --------------------------------------------------------------------------- T-b
FLAG_NAMES = ["is_empty_invariant", "is_count_invariant", "is_order_dependent", "is_count_dependent"]
OP_CLASSES = ["Calculation", "Deduplication", "Identity", "Projection", "Selection", "Slice", "Sort", "PartialJoin"]


def const_flag(cls, flag: str):
    f = inspect.getattr_static(cls, flag)
    if isinstance(f, property):
        f = f.fget
    src = textwrap.dedent(inspect.getsource(f))
    fdef = next(n for n in ast.walk(ast.parse(src)) if isinstance(n, ast.FunctionDef))
    body = [s for s in fdef.body
            if not (isinstance(s, ast.Expr) and isinstance(s.value, ast.Constant) and isinstance(s.value.value, str))]
    if len(body) == 1 and isinstance(body[0], ast.Return) and isinstance(body[0].value, ast.Constant) \
            and isinstance(body[0].value.value, bool):
        return body[0].value.value
    raise Untranslatable(f"{cls.__name__}.{flag} is not `return <constant>`")


def gen_flags() -> str:
    import lsst.daf.relation as r

    rows = []
    for cn in OP_CLASSES:
        cls = getattr(r, cn)
        for flag in FLAG_NAMES:
            try:
                v = const_flag(cls, flag)
                rows.append(f'  ("{cn}", "{flag}", {"true" if v else "false"})')
            except Untranslatable as e:
                PROBLEMS.append(str(e))
    # is_locked of the relation classes
    lrows = []
    for cn in ["LeafRelation", "UnaryOperationRelation", "BinaryOperationRelation", "Materialization", "Transfer"]:
        cls = getattr(r, cn)
        try:
            v = const_flag(cls, "is_locked")
            lrows.append(f'  ("{cn}", {"true" if v else "false"})')
        except Untranslatable as e:
            PROBLEMS.append(str(e))
    try:
        from lsst.daf.relation.sql import Select
        lrows.append(f'  ("Select", {"true" if const_flag(Select, "is_locked") else "false"})')
    except Untranslatable as e:
        PROBLEMS.append(str(e))
    # which class DEFINES each engine method the model dispatches on (`match engine.kind with ...`): read through the MRO
    drows = []
    from lsst.daf.relation import iteration as _it, sql as _sq
    for ecls in (_it.Engine, _sq.Engine):
        ename = ecls.__module__.split(".")[-2] + "." + ecls.__name__
        for m in ("backtrack_unary", "append_unary", "append_binary", "transfer", "materialize", "conform"):
            definer = next((c for c in ecls.__mro__ if m in c.__dict__), None)
            dname = "-" if definer is None else \
                definer.__module__.split("lsst.daf.relation.")[-1] + "." + definer.__name__
            drows.append(f'  ("{ename}", "{m}", "{dname}")')
    # the base-class `backtrack_unary` (the one a database engine inherits) hands the tree back: `return tree, False, ...`
    try:
        import ast as _ast
        import inspect as _inspect
        import textwrap as _tw
        from lsst.daf.relation._engine import Engine as _Base
        fdef = next(n for n in _ast.walk(_ast.parse(_tw.dedent(_inspect.getsource(_Base.__dict__["backtrack_unary"]))))
                    if isinstance(n, _ast.FunctionDef))
        body = [b for b in fdef.body if not (isinstance(b, _ast.Expr) and isinstance(b.value, _ast.Constant))]
        ok = (len(body) == 1 and isinstance(body[0], _ast.Return) and isinstance(body[0].value, _ast.Tuple)
              and len(body[0].value.elts) == 3 and _ast.unparse(body[0].value.elts[0]) == "tree"
              and _ast.unparse(body[0].value.elts[1]) == "False")
        drows.append(f'  ("_engine.Engine", "backtrack_unary:body", "{"return tree, False" if ok else "other"}")')
    except Exception as e:  # noqa: BLE001
        PROBLEMS.append(f"[Flags] base backtrack_unary: {type(e).__name__}: {e}")
    return ("/- GENERATED by harness/extract.py -- do not edit. -/\nnamespace DafRel.Gen\n\n"
            "/-- (engine class, method, defining class): the method resolution the model's dispatch on the engine\n"
            "kind stands for. -/\n"
            "def dispatch : List (String × String × String) := [\n" + ",\n".join(drows) + "]\n\n"
            "/-- (operation class, flag, value): every flag is `return <constant>` in the source. -/\n"
            "def flags : List (String × String × Bool) := [\n" + ",\n".join(rows) + "]\n\n"
            "/-- (relation class, is_locked) -/\n"
            "def locked : List (String × Bool) := [\n" + ",\n".join(lrows) + "]\n\nend DafRel.Gen\n")


# --------------------------------------------------------------------------- T-c
def hashable_kind(cls) -> str:
    """How instances of a dataclass hash, by Python's dataclass rules."""
    p = cls.__dataclass_params__
    if "__hash__" in cls.__dict__ and cls.__dict__["__hash__"] is not None and not (p.eq and not p.frozen and not p.unsafe_hash):
        explicit = True
    else:
        explicit = False
    if cls.__hash__ is None:
        return "unhashable"
    if p.eq and p.frozen:
        return "fieldhash"
    if p.unsafe_hash:
        return "fieldhash"
    if not p.eq:
        return "identity"
    return "explicit" if explicit else "unhashable"


def field_category(cls, f) -> str:
    """Coarse category of the *runtime coercion* of a compared field (is its value hashable?)."""
    t = str(f.type)
    if "frozenset" in t or "tuple" in t or t in ("int", "str", "bool", "int | None", "type | None", "str | None"):
        return "hashable"
    if "Sequence" in t or "list" in t.lower():
        return "sequence"  # hashable only if the factory coerces it
    if t.startswith("Set[") or "Set[" in t:
        return "set"
    return "object"


def factory_coerces_sequence() -> bool:
    """Does ColumnContainer.sequence coerce `items` to a tuple?"""
    import lsst.daf.relation as r

    src = textwrap.dedent(inspect.getsource(r.ColumnContainer.sequence.__func__))
    tree = ast.parse(src)
    ret = next(n for n in ast.walk(tree) if isinstance(n, ast.Return))
    call = ret.value
    if isinstance(call, ast.Call) and call.args:
        a0 = call.args[0]
        return isinstance(a0, ast.Call) and isinstance(a0.func, ast.Name) and a0.func.id == "tuple"
    return False


def gen_schema() -> str:
    import lsst.daf.relation as r
    from lsst.daf.relation._binary_operation import IgnoreOne
    from lsst.daf.relation.sql import Select

    classes = [r.LeafRelation, r.UnaryOperationRelation, r.BinaryOperationRelation, r.Materialization, r.Transfer,
               Select, r.Calculation, r.Deduplication, r.Projection, r.Selection, r.Slice, r.Sort, r.SortTerm,
               r.Join, r.Chain, r.ColumnLiteral, r.ColumnReference, r.ColumnFunction, r.PredicateFunction,
               r.PredicateLiteral, r.PredicateReference, r.LogicalNot, r.LogicalAnd, r.LogicalOr,
               r.ColumnInContainer, r.ColumnRangeLiteral, r.ColumnExpressionSequence]
    rows = []
    for cls in classes:
        p = cls.__dataclass_params__
        fields = []
        for f in dataclasses.fields(cls):
            if f.compare:
                cat = field_category(cls, f)
                if cls is r.ColumnExpressionSequence and f.name == "items":
                    cat = "hashable" if factory_coerces_sequence() else "sequence"
                fields.append(f'("{f.name}", "{cat}")')
        rows.append(f'  ("{cls.__name__}", {"true" if p.frozen else "false"}, {"true" if p.eq else "false"}, '
                    f'"{hashable_kind(cls)}", [{", ".join(fields)}])')
    return ("/- GENERATED by harness/extract.py -- do not edit. -/\nnamespace DafRel.Gen\n\n"
            "/-- (class, frozen, eq, how instances hash, compared fields with the category of their value) -/\n"
            "def schema : List (String × Bool × Bool × String × List (String × String)) := [\n"
            + ",\n".join(rows) + "]\n\nend DafRel.Gen\n")


# --------------------------------------------------------------------------- T-d
def gen_names() -> str:
    from lsst.daf.relation._engine import GenericConcreteEngine

    src = textwrap.dedent(inspect.getsource(GenericConcreteEngine.get_relation_name))
    fdef = next(n for n in ast.walk(ast.parse(src)) if isinstance(n, ast.FunctionDef))
    body = [s for s in fdef.body
            if not (isinstance(s, ast.Expr) and isinstance(s.value, ast.Constant) and isinstance(s.value.value, str))]
    parts = None
    order = []
    inc = None
    try:
        for s in body:
            if isinstance(s, ast.Assign) and isinstance(s.value, ast.JoinedStr):
                order.append("format")
                parts = []
                for v in s.value.values:
                    if isinstance(v, ast.Constant):
                        parts.append(f'.lit "{v.value}"')
                    elif isinstance(v, ast.FormattedValue):
                        e = v.value
                        if isinstance(e, ast.Name) and e.id == "prefix":
                            parts.append(".pfx")
                        elif isinstance(e, ast.Attribute) and e.attr == "relation_name_counter":
                            spec = "".join(c.value for c in v.format_spec.values) if v.format_spec else ""
                            width = int(spec[1:-1]) if spec.startswith("0") and spec.endswith("d") and spec[1:-1].isdigit() else 0
                            parts.append(f".counter {width}")
                        elif ast.unparse(e) == "uuid.uuid4().hex":
                            parts.append(".uuidHex")
                        else:
                            raise Untranslatable("name part " + ast.unparse(e))
            elif isinstance(s, ast.AugAssign) and isinstance(s.op, ast.Add) and isinstance(s.value, ast.Constant):
                order.append("increment")
                inc = s.value.value
            elif isinstance(s, ast.Return):
                order.append("return")
            else:
                raise Untranslatable("statement in get_relation_name: " + ast.unparse(s)[:60])
        if parts is None:
            raise Untranslatable("no f-string found in get_relation_name")
    except Untranslatable as e:
        PROBLEMS.append(str(e))
        parts, order, inc = [], [], 0
    return ("/- GENERATED by harness/extract.py -- do not edit. -/\nimport DafRel.Model.Names\n\n"
            "namespace DafRel.Gen\nopen DafRel.Names\n\n"
            f"def nameFormat : List Part := [{', '.join(parts)}]\n"
            f"def nameSteps : List String := [{', '.join(chr(34) + o + chr(34) for o in order)}]\n"
            f"def nameIncrement : Int := {inc}\n\nend DafRel.Gen\n")


def write_if_changed(path: str, content: str) -> bool:
    if os.path.exists(path) and open(path).read() == content:
        return False
    os.makedirs(os.path.dirname(path), exist_ok=True)
    with open(path, "w") as f:
        f.write(content)
    return True


def main() -> None:
    changed = []
    import extract_ops

    def gen_ops_file() -> str:
        return ("set_option linter.unusedVariables false\n" + extract_ops.gen_ops(PROBLEMS)).replace(
            "set_option linter.unusedVariables false\n/- GENERATED", "/- GENERATED", 1).replace(
            "import DafRel.Gen.OpsSupport\n", "import DafRel.Gen.OpsSupport\n\nset_option linter.unusedVariables false\n", 1)

    for name, gen in (("Kernel", gen_kernel), ("Flags", gen_flags), ("Schema", gen_schema), ("Names", gen_names),
                      ("Ops", gen_ops_file), ("RelOps", lambda: extract_ops.gen_rel_ops(PROBLEMS)),
                      ("JoinOps", lambda: extract_ops.gen_rel_ops(PROBLEMS, "JoinOps")),
                      ("SqlOps", lambda: extract_ops.gen_rel_ops(PROBLEMS, "SqlOps"))):
        before = len(PROBLEMS)
        try:
            content = gen()
        except Exception as e:  # noqa: BLE001
            PROBLEMS.append(f"{name}: translator could not read the source ({type(e).__name__}: {e})")
            content = f"/- GENERATED: translation failed -/\nnamespace DafRel.Gen\nend DafRel.Gen\n"
        # tag every problem with the generated module it belongs to: it only concerns the properties whose
        # theorems depend on that module
        PROBLEMS[before:] = [f"[{name}] {q}" for q in PROBLEMS[before:]]
        if write_if_changed(os.path.join(GEN, name + ".lean"), content):
            changed.append(name)
    for p in PROBLEMS:
        print("UNTRANSLATABLE " + p)
    print("generated:", ", ".join(changed) if changed else "(no change)")


if __name__ == "__main__":
    main()
