"""Which programs each property's check generates per tier (quick / thorough / search)."""
from __future__ import annotations

import gen

COMMON_TB = [
    "harness/impl.py + harness/proto.py: canonicalisation of real objects into protocol text",
    "harness/gen.py: the generated inputs bound what the correspondence check sees",
    "CPython 3.12 runtime semantics (dict order, list.sort stability, generators) as modelled in Model/IterExec.lean",
]
COMMON_ASSUME = [
    "leaves are truthful (declared columns = row keys, min_rows <= #rows <= max_rows)",
    "NULL-free integer data, unbounded integers",
]


class Plan:
    level = "proof"
    trusted_base: list[str] = COMMON_TB
    assumptions: list[str] = COMMON_ASSUME
    nontrivial_rule = "the tree/case has at least two operation kinds and a non-empty result"

    def programs(self, tier: str, seed: int):
        raise NotImplementedError


QUICK_SCALE = 2     # the quick tier runs twice the nominal number of programs: detection of the stored seeded changes
                    # turned out to depend on the seed for rarely reached triggers; the programs of a run are seeded
                    # `seed * 1000003 + i`, so a larger run only ADDS programs


def _n(tier: str, quick: int, thorough: int, search: int | None = None) -> int:
    return {"quick": quick * QUICK_SCALE, "thorough": thorough, "search": search or thorough}[tier]


class IterationPlan(Plan):
    assumptions = COMMON_ASSUME + [
        "deduplication theorems and oracle assume key-determined data (documented contract of ColumnTag.is_key); "
        "the correspondence itself also covers non-key-determined data",
    ]

    def __init__(self, eager=True, quick=1500, thorough=40000):
        self.eager = eager
        self.quick = quick
        self.thorough = thorough

    def programs(self, tier, seed):
        n = _n(tier, self.quick, self.thorough, self.thorough // 4)
        progs = []
        for i in range(n):
            depth = 4 + (i % 9)
            progs.append(gen.prog_iteration(seed * 1000003 + i, depth, eager=self.eager or (i % 2 == 0)).text())
        rule = (f"{n} random iteration-engine programs (1-3 leaves of 0-6 rows over values 0..2, 4-12 factory calls: "
                "calculation/projection/selection/deduplication/sort/slice/chain/materialization/transfer), "
                "each relation executed and iterated twice")
        return progs, False, rule


class CommutePlan(Plan):
    nontrivial_rule = "the operation pair for which commute() reported a (possibly partial) move"

    def programs(self, tier, seed):
        progs = []
        n = _n(tier, 300, 3000, 1500)
        for i in range(n):
            progs.append(gen.prog_commute_random(seed * 1000003 + i, 30).text())
        m = max(30, n // 5)
        for i in range(m):
            progs.append(gen.prog_commute_join(seed * 1000003 + i, 12).text())
        exhaustive = False
        rule = (f"{n} programs x 30 random (new, existing) operation pairs on random targets; {m} programs x 12 "
                "PartialJoin.commute probes (explicit common columns, incl. a calculation creating a common column)")
        if tier in ("thorough", "search"):
            nch = 32
            progs.extend(gen.prog_commute_enum(c, nch).text() for c in range(nch))
            exhaustive = True
            rule += "; plus ALL ordered pairs of the 33-operation universe on two fixed 3-column targets"
        return progs, exhaustive, rule


class MergePlan(Plan):
    nontrivial_rule = "an adjacent pair that simplify() actually merged or elided"

    def programs(self, tier, seed):
        n = _n(tier, 600, 6000, 3000)
        progs = [gen.prog_merge_random(seed * 1000003 + i, 12).text() for i in range(n)]
        exhaustive = False
        rule = f"{n} programs x 12 random adjacent operation pairs applied through the public API"
        if tier in ("thorough", "search"):
            nch = 32
            progs.extend(gen.prog_adjacent_enum(c, nch).text() for c in range(nch))
            exhaustive = True
            rule += ("; plus ALL slice pairs with start in {0,1,2,3,5}, stop in {None,0,1,2,3,4,6} and ALL ordered "
                     "pairs of the operation universe")
        return progs, exhaustive, rule


class PredicatePlan(Plan):
    nontrivial_rule = "the predicate has a logical connective at the root (expressions: a function at the root)"

    def __init__(self, with_sql=False):
        self.with_sql = with_sql

    def programs(self, tier, seed):
        n = _n(tier, 400, 4000, 2000)
        progs = [gen.prog_predicates(seed * 1000003 + i, 40).text() for i in range(n)]
        m = max(20, n // 10)
        progs += [gen.prog_pred_use(seed * 1000003 + i).text() for i in range(m)]
        exhaustive = False
        rule = (f"{n} programs x 40 random predicates/expressions (depth <= 3, 0-3 operands) x one random row over -4..4"
                f"; {m} programs x 8 predicate objects used in a join and inspected again")
        if self.with_sql:
            progs.append(gen.prog_range_edges().text())
            rule += "; every strided range start -4..5, step +-2/+-3, seven strides long, against every value -6..8"
        if tier in ("thorough", "search"):
            nch = 32
            progs.extend(gen.prog_pred_enum(c, nch, depth=2, limit=60000).text() for c in range(nch))
            exhaustive = True
            rule += "; plus every predicate shape to depth 2 (0-2 operands) over a 5-atom alphabet x 3 rows"
            if self.with_sql:
                progs.extend(gen.prog_range_enum(c, nch).text() for c in range(nch))
                rule += "; plus EVERY range with |start|,|stop| <= 4, 0 < |step| <= 3 against every value -5..5"
        return progs, exhaustive, rule


class SqlPlan(Plan):
    nontrivial_rule = "the tree has at least two operation kinds and the query returned rows"
    trusted_base = COMMON_TB + [
        "the SQL list semantics and SQLite-acceptance judgement of lean/DafRel/Model/Sql.lean are MODELLED, "
        "not verified: they are validated against SQLite 3.40 on every generated query (both scan orders)",
        "SQLAlchemy 2.0.52 rendering of the expression objects the engine builds",
    ]
    assumptions = COMMON_ASSUME + [
        "results are compared only where determinate (every OFFSET/LIMIT over a total order); multiset "
        "comparison unless the outermost level carries a total sort",
        "join operands share key columns only (shared non-key columns have no defined join semantics)",
    ]

    def __init__(self, quick=500, thorough=12000, sorts=1.0):
        self.quick, self.thorough, self.sorts = quick, thorough, sorts

    def programs(self, tier, seed):
        n = _n(tier, self.quick, self.thorough, self.thorough // 4)
        progs = [gen.prog_sql(seed * 1000003 + i, 4 + (i % 8), sorts=self.sorts).text() for i in range(n)]
        rule = (f"{n} random SQL-engine programs (2-3 tables of 0-5 rows, 4-11 factory calls over the six unary "
                "operations, join with/without predicate, chain), each compiled and run on SQLite under both "
                "physical scan orders")
        return progs, False, rule


class CombinedPlan(Plan):
    """Programs of several plans in one check (each keeps its share of the budget)."""

    def __init__(self, *parts: Plan):
        self.parts = parts
        self.trusted_base = sorted({t for p in parts for t in p.trusted_base})
        self.assumptions = sorted({t for p in parts for t in p.assumptions})
        self.nontrivial_rule = " / ".join(dict.fromkeys(p.nontrivial_rule for p in parts))

    def programs(self, tier, seed):
        progs, rules, exhaustive = [], [], True
        for p in self.parts:
            ps, ex, rule = p.programs(tier, seed)
            progs += ps
            rules.append(rule)
            exhaustive = exhaustive and ex
        return progs, exhaustive and bool(progs), " + ".join(rules)


class MultiPlan(Plan):
    nontrivial_rule = "the tree spans at least two operation kinds and processing invoked at least one hook"
    trusted_base = SqlPlan.trusted_base + [
        "harness/sqlproc.py: the real Processor subclass used on the implementation side (hooks evaluate the "
        "source in its own engine only and wrap the rows as a payload of the destination engine)",
    ]
    assumptions = SqlPlan.assumptions

    def __init__(self, quick=600, thorough=15000, gen_name="prog_multi"):
        self.quick, self.thorough, self.gen_name = quick, thorough, gen_name

    def programs(self, tier, seed):
        n = _n(tier, self.quick, self.thorough, self.thorough // 4)
        f = getattr(gen, self.gen_name)
        progs = [f(seed * 1000003 + i, 3 + (i % 8)).text() for i in range(n)]
        rule = (f"{n} random programs from gen.{self.gen_name}: SQL + iteration engine(s), leaves of 0-5 rows, "
                "3-10 factory calls with every preferred-engine option combination, transfers, materializations, "
                "chains, joins; every result processed by a real Processor and executed in its final engine")
        return progs, False, rule


class SimplePlan(Plan):
    def __init__(self, gen_name, quick, thorough, rule, nontrivial):
        self.gen_name, self.quick, self.thorough, self.rule, self.nontrivial_rule = gen_name, quick, thorough, rule, nontrivial

    def programs(self, tier, seed):
        n = _n(tier, self.quick, self.thorough, self.thorough // 4)
        f = getattr(gen, self.gen_name)
        progs = [f(seed * 1000003 + i).text() for i in range(n)]
        return progs, False, f"{n} programs from gen.{self.gen_name}: {self.rule}"


class NamesPlan(Plan):
    nontrivial_rule = "every generated name counts (all are distinct requests)"
    rule = ("real name requests: sequential (direct, via leaf construction, via materialized()) on three engines; "
            "8-16 real threads with sys.setswitchinterval(1e-6); and forced races in which uuid4 is wrapped in a "
            "2-party barrier so both threads have read the counter before either increments it; every name is "
            "parsed and re-formatted by the Lean model")
    trusted_base = COMMON_TB + ["uuid.uuid4 returns pairwise distinct values (FreshUuids; collision probability "
                                "2^-122 per pair)", "granularity of CPython thread switches"]
    assumptions = ["FreshUuids", "name-request steps are atomic at the granularity modelled in Model/Names.lean"]

    def custom(self, tier, seed):
        import names_check

        return names_check.run_names(tier if tier != "search" else "thorough", seed)

    def programs(self, tier, seed):
        return [], False, self.rule


PLANS: dict[str, Plan] = {
    "C01": IterationPlan(eager=True),
    "C04": CommutePlan(),
    "C05": MergePlan(),
    "C06": CombinedPlan(IterationPlan(eager=True, quick=900, thorough=30000), SqlPlan(quick=300, thorough=6000),
                        SimplePlan("prog_shortcuts", 250, 6000,
                                   "chains with statically empty / join-identity / zero-column operands, joins with a "
                                   "join identity, in one engine and across engines, processed by a real Processor and "
                                   "executed (the short-cuts keyed on static metadata must not change a result)",
                                   "the tree contains a chain or a join")),
    "C12": PredicatePlan(with_sql=True),
    "C13": PredicatePlan(),
    "C18": IterationPlan(eager=False, quick=1500),
    "C02": SqlPlan(quick=500),
    "C08": CombinedPlan(SqlPlan(quick=330, thorough=10000), IterationPlan(eager=True, quick=250, thorough=6000)),
    "C11": SqlPlan(quick=500),
    "C03": MultiPlan(quick=700),
    "C07": MultiPlan(quick=600),
    "C14": MultiPlan(quick=600),
    "C15": MultiPlan(quick=600),
    "C09": SimplePlan("prog_values", 500, 12000,
                      "the same operation sequence built twice from the same leaves (hash/equality of the twins), "
                      "interleaved with to_executable/execute/process/diagnostics over the shared pool; after EVERY "
                      "step a fingerprint (structure, columns, bounds, str, hash, leaf payload content) of EVERY "
                      "pool relation is compared with the previous one",
                      "a snapshot taken after a command, or a hash comparison of independently built twins"),
    "C10": SimplePlan("prog_history", 800, 20000,
                      "histories of attach/execute/process over trees sharing materialization nodes",
                      "the relation touched by the event contains a materialization"),
    "C16": SimplePlan("prog_diag", 800, 20000,
                      "trees with doomed/identity leaves, trivially false predicates, zero-limit slices, both "
                      "engines, diagnosed without and with a truthful executor",
                      "the diagnosed tree has at least two node kinds"),
    "C17": SimplePlan("prog_conform", 800, 20000,
                      "raw SQL trees assembled bottom-up with the dataclass constructors (no engine), conformed, "
                      "compiled and run; API-built trees conformed again; every Select of every tree walked",
                      "a raw (unconformed) tree was conformed"),
    "C19": NamesPlan(),
    "C20": SimplePlan("prog_illformed", 1000, 25000,
                      "a well-typed multi-engine program plus ONE injected ill-formed request (missing column, "
                      "existing tag, chain column mismatch, engine mismatch, unsupported expression, bad slice) "
                      "with random preferred-engine options, followed by a dump of every pool relation",
                      "every injected request counts"),
}
