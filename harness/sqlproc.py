"""SQLite world (tables for SQL-engine leaves, query execution under both physical scan orders)
and a real `Processor` subclass moving rows between the SQL and iteration engines."""
from __future__ import annotations

from typing import Any

import sqlalchemy
from lsst.daf.relation import Processor, iteration, sql

import proto


class SqlWorld:
    def __init__(self) -> None:
        self.db = sqlalchemy.create_engine("sqlite://")
        self.conn = self.db.connect()
        self.metadata = sqlalchemy.MetaData()
        self.tmp = 0

    def close(self) -> None:
        try:
            self.conn.close()
            self.db.dispose()
        except Exception:  # noqa: BLE001
            pass

    def make_table(self, engine, name: str, cols, rows) -> sql.Payload:
        columns = [sqlalchemy.Column(c.qualified_name, sqlalchemy.Integer) for c in cols]
        if not columns:
            columns = [sqlalchemy.Column("dummy_", sqlalchemy.Integer)]
        table = sqlalchemy.Table(name, self.metadata, *columns)
        table.create(self.conn)
        if rows:
            if cols:
                self.conn.execute(table.insert(), [{c.qualified_name: v for c, v in r.items()} for r in rows])
            else:
                self.conn.execute(table.insert(), [{"dummy_": 0} for _ in rows])
        return sql.Payload(table, columns_available={c: table.columns[c.qualified_name] for c in cols})

    def eval_on_row(self, engine, row: dict, predicate=None, expression=None) -> str:
        """Value of the engine's SQL translation of a predicate/expression on ONE row, computed
        by the database (a one-row table holding the row)."""
        cols = sorted(row, key=str)
        key = tuple(c.qualified_name for c in cols)
        cache = getattr(self, "_rowtables", None)
        if cache is None:
            cache = self._rowtables = {}
        if key not in cache:
            name = self.fresh_name("row")
            table = sqlalchemy.Table(
                name, self.metadata, *[sqlalchemy.Column(c.qualified_name, sqlalchemy.Integer) for c in cols]
            ) if cols else None
            if table is not None:
                table.create(self.conn)
            cache[key] = table
        table = cache[key]
        try:
            if table is not None:
                self.conn.execute(table.delete())
                self.conn.execute(table.insert(), [{c.qualified_name: v for c, v in row.items()}])
                avail = {c: table.columns[c.qualified_name] for c in cols}
            else:
                avail = {}
            if predicate is not None:
                sqlp = engine.convert_predicate(predicate, avail)
                q = sqlalchemy.select(sqlalchemy.literal(1)).where(sqlp)
                if table is not None:
                    q = q.select_from(table)
                return "T" if self.conn.execute(q).fetchall() else "F"
            sqle = engine.convert_column_expression(expression, avail)
            q = sqlalchemy.select(sqle)
            if table is not None:
                q = q.select_from(table)
            return str(int(self.conn.execute(q).fetchall()[0][0]))
        except Exception as e:  # noqa: BLE001
            return "err:" + type(e).__name__

    def count_rows(self, from_clause) -> int:
        try:
            q = sqlalchemy.select(sqlalchemy.func.count()).select_from(from_clause)
            return int(self.conn.execute(q).scalar())
        except Exception:  # noqa: BLE001
            return -1

    def fresh_name(self, prefix: str = "tmp") -> str:
        self.tmp += 1
        return f"{prefix}{self.tmp}"

    def fetch_raw(self, executable, cols, reverse: bool = False) -> list[dict]:
        self.conn.exec_driver_sql(f"PRAGMA reverse_unordered_selects = {'ON' if reverse else 'OFF'}")
        try:
            result = self.conn.execute(executable)
            out = []
            for row in result.mappings():
                out.append({c: row[c.qualified_name] for c in cols})
            return out
        finally:
            self.conn.exec_driver_sql("PRAGMA reverse_unordered_selects = OFF")

    def fetch(self, engine, rel, reverse: bool = False) -> list[dict]:
        return self.fetch_raw(engine.to_executable(rel), rel.columns, reverse)

    def run(self, world, rel) -> str:
        """`sqlexec`: compile, then run under both scan orders; phases are reported separately."""
        if not isinstance(rel.engine, sql.Engine):
            return "bad-sqlexec"
        try:
            executable = rel.engine.to_executable(rel)
            again = rel.engine.to_executable(rel)
            same_sql = str(executable.compile(self.db)) == str(again.compile(self.db))
        except Exception as e:  # noqa: BLE001
            from impl import exc_name

            return "err compile " + exc_name(e)
        try:
            rows0 = self.fetch_raw(executable, rel.columns, False)
            rows1 = self.fetch_raw(executable, rel.columns, True)
        except Exception as e:  # noqa: BLE001
            from impl import exc_name

            return "err database " + exc_name(e)
        return f"ok rows0={proto.show_rows(rows0)} rows1={proto.show_rows(rows1)} sqlsame={proto.show_bool(same_sql)}"


class NoSerials:
    """Serial-free printing inside hook logs (numbering must not be disturbed mid-processing)."""

    def of(self, obj) -> str:
        return "?"


def short(rel, world) -> str:
    return proto.show_rel(rel, NoSerials(), world.engine_names)


class HarnessProcessor(Processor):
    """A real processor: every hook evaluates its source *in the source's own engine only*."""

    def __init__(self, world, quiet: bool = False) -> None:
        self.world = world
        self.log: list[str] = []
        self.quiet = quiet

    def eval_single(self, rel) -> list[dict]:
        if isinstance(rel.engine, iteration.Engine):
            return [dict(r) for r in rel.engine.execute(rel)]
        return self.world.sqlw.fetch(rel.engine, rel)

    def transfer(self, source, destination, materialize_as: str | None) -> Any:
        if not self.quiet:
            dn = self.world.engine_names.get(id(destination), "e?")
            self.log.append(
                f"<transfer {short(source, self.world)} {dn} {materialize_as or '-'} "
                f"triv={proto.show_bool(source.is_trivial)}>"
            )
        rows = self.eval_single(source)
        if isinstance(destination, iteration.Engine):
            return iteration.RowSequence(rows)
        name = self.world.sqlw.fresh_name("xfer")
        return self.world.sqlw.make_table(destination, name, sorted(source.columns, key=str), rows)

    def materialize(self, target, name: str) -> Any:
        if not self.quiet:
            self.log.append(
                f"<materialize {short(target, self.world)} {name} triv={proto.show_bool(target.is_trivial)}>"
            )
        rows = self.eval_single(target)
        if isinstance(target.engine, iteration.Engine):
            return iteration.RowSequence(rows)
        tname = self.world.sqlw.fresh_name("mat")
        return self.world.sqlw.make_table(target.engine, tname, sorted(target.columns, key=str), rows)
