"""Property oracles: each evaluates ONE property on the observations of the REAL library
(impl stream), using the Lean model's reference semantics (`sem`, `seqsem`, `spec=`) as the
specification.  They are independent of the model/impl correspondence diff."""
from __future__ import annotations

import hashlib
import re
from collections import Counter

import proto
from run import field

DOCUMENTED_EXEC_ERRORS = {"EngineError"}


class Violation:
    def __init__(self, prop: str, kind: str, detail: str, lines=None):
        self.prop = prop
        self.kind = kind
        self.detail = detail
        self.prog_index = -1
        self.lines = lines  # indices of the commands the violation was observed on

    def __repr__(self) -> str:
        return f"Violation({self.prop}, {self.kind}, {self.detail})"


class Stats:
    def __init__(self) -> None:
        self.evaluations = 0
        self.distinct: set[str] = set()
        self.hist: Counter = Counter()
        self.samples: list = []

    def note(self, case: str, nontrivial: bool, *tags: str) -> None:
        self.evaluations += 1
        if nontrivial:
            self.distinct.add(hashlib.sha1(case.encode()).hexdigest()[:16])
            if len(self.samples) < 5:
                self.samples.append(case[:600])
        for t in tags:
            self.hist[t] += 1

    def merge(self, other: "Stats") -> None:
        self.evaluations += other.evaluations
        self.distinct |= other.distinct
        self.hist.update(other.hist)
        self.samples.extend(other.samples[: max(0, 5 - len(self.samples))])


# ------------------------------------------------------------------------------ helpers
BUILD_CMDS = {"leaf", "doomed", "joinid", "apply", "join", "joinon", "joinb", "joinp", "joinpl", "joinmax", "chain", "mat", "transfer",
              "transferp", "process",
              "unwrap", "rawu", "rawchain", "rawjoin", "conform"}


def parse_cmd(cmd: str):
    return proto.parse_line(cmd)[0]


def parse_build_line(line: str):
    """'ok new|same TREE | cols=.. min=.. max=.. eng=.. ji=.. triv=..' -> dict or None."""
    if not line.startswith("ok "):
        return None
    m = re.match(r"ok (\S+) (.*) \| (cols=.*?)(?: \|\| .*)?$", line)
    if not m:
        return None
    how, tree, meta = m.group(1), m.group(2), m.group(3)
    d = {"how": how, "tree_text": tree, "tree": proto.parse_line(tree)[0]}
    for kv in meta.split(" "):
        k, v = kv.split("=", 1)
        d[k] = v
    d["colset"] = set(filter(None, d["cols"].strip("[]").split(",")))
    return d


def parse_rows(text: str):
    """'[{a=1,b=2};{a=3,b=4}]' -> list of dicts."""
    text = text.strip()
    assert text.startswith("[") and text.endswith("]"), text
    inner = text[1:-1]
    if not inner:
        return []
    rows = []
    for r in inner.split(";"):
        r = r.strip("{}")
        rows.append(dict(kv.split("=") for kv in r.split(",")) if r else {})
    return rows


def tree_nodes(t, into_skip=False):
    """Yield (kind, node) for every node of a printed tree (select: target only unless into_skip)."""
    if not isinstance(t, list) or not t:
        return
    h = t[0]
    if h == "leaf":
        yield ("leaf", t)
    elif h == "u":
        yield ("u:" + t[1][0], t)
        yield from tree_nodes(t[3], into_skip)
    elif h == "b":
        yield ("b:" + t[1][0], t)
        yield from tree_nodes(t[3], into_skip)
        yield from tree_nodes(t[4], into_skip)
    elif h == "mat":
        yield ("mat", t)
        yield from tree_nodes(t[3], into_skip)
    elif h == "xfer":
        yield ("xfer", t)
        yield from tree_nodes(t[3], into_skip)
    elif h.startswith("select"):
        yield ("select", t)
        if into_skip:
            yield from tree_nodes(t[-2], into_skip)
        yield from tree_nodes(t[-1], into_skip)


def leaf_counts(t) -> Counter:
    return Counter(n[1] for k, n in tree_nodes(t) if k == "leaf")


EAGER = {"u:dedup", "u:sort", "mat"}


def leaves_outside_eager(t) -> Counter:
    """Leaf occurrences that are not beneath any eager node (sort, dedup, materialization)."""
    c: Counter = Counter()

    def go(x):
        if not isinstance(x, list) or not x:
            return
        h = x[0]
        if h == "leaf":
            c[x[1]] += 1
        elif h == "u":
            if "u:" + x[1][0] in EAGER:
                return
            go(x[3])
        elif h == "b":
            go(x[3])
            go(x[4])
        elif h == "mat":
            # materialized() of an already materialized payload is that payload itself: a leaf
            # reached through marker relations only is handed through, not consumed
            y = x[3]
            while isinstance(y, list) and y and (y[0] in ("mat", "xfer") or y[0].startswith("select")):
                y = y[-1] if y[0].startswith("select") else y[3]
            if isinstance(y, list) and y and y[0] == "leaf":
                c[y[1]] += 1
            return
        elif h == "xfer":
            go(x[3])
        elif h.startswith("select"):
            go(x[-1])

    go(t)
    return c


class Ctx:
    """Per-program bookkeeping: metadata of every pool relation as reported by the real library."""

    def __init__(self, cmds, impl, model):
        self.cmds = [parse_cmd(c) for c in cmds]
        self.impl = impl
        self.model = model
        self.meta: dict[str, dict] = {}
        self.meta_at: list[dict | None] = []
        for c, line in zip(self.cmds, impl):
            m = None
            if c[0] in BUILD_CMDS:
                m = parse_build_line(line)
                if m is not None:
                    self.meta[c[1]] = m
            self.meta_at.append(m)


# ------------------------------------------------------------------------------ C01 / C06 / C18
def _exec_pairs(ctx: Ctx):
    """Yield (k, name, impl exec line, model sem line) for '(exec r)' immediately followed by '(sem r)'."""
    for k, c in enumerate(ctx.cmds):
        if c[0] == "exec" and k + 1 < len(ctx.cmds) and ctx.cmds[k + 1][0] == "sem" and ctx.cmds[k + 1][1] == c[1]:
            yield k, c[1], ctx.impl[k], ctx.model[k + 1]


def oracle_C01(cmds, impl, model, stats: Stats):
    ctx = Ctx(cmds, impl, model)
    out = []
    for k, name, il, sem in _exec_pairs(ctx):
        m = ctx.meta.get(name)
        if m is None or il == "bad-ref":
            continue
        kinds = {kd for kd, _ in tree_nodes(m["tree"])}
        tags = sorted(kinds)
        if il.startswith("err ") or il.startswith("ok exec err"):
            e = il.split()[1] if il.startswith("err ") else il.split()[-1]
            stats.note(m["tree_text"], False, "exec-error:" + e)
            continue  # failures to execute belong to C08
        rows = field(il, "rows")
        want = field(sem, "rows")
        kd = field(sem, "kd")
        nontrivial = len(kinds - {"leaf"}) >= 2 and rows not in ("[]",)
        if kd != "T":
            stats.note(m["tree_text"], False, "not-key-determined")
            continue
        stats.note(m["tree_text"] + rows, nontrivial, *tags)
        if rows != want:
            out.append(Violation("C01", "exec-differs-from-direct-evaluation",
                                 f"{name}: executed {rows} but direct evaluation gives {want}; tree {m['tree_text']}", [k, k + 1]))
        if field(il, "again") != "same":
            out.append(Violation("C01", "second-iteration-differs", f"{name}: tree {m['tree_text']}", [k, k + 1]))
    return out


def oracle_C06(cmds, impl, model, stats: Stats):
    ctx = Ctx(cmds, impl, model)
    out = []
    for k, c in enumerate(ctx.cmds):
        if c[0] not in ("exec", "sqlexec"):
            continue
        name = c[1]
        m = ctx.meta.get(name)
        il = impl[k]
        if m is None or not il.startswith("ok rows"):
            continue
        rows_text = field(il, "rows") or field(il, "rows0")
        rows = parse_rows(rows_text)
        n = len(rows)
        mn = int(m["min"])
        mx = None if m["max"] == "-" else int(m["max"])
        tagl = [("bounds:exact" if mx == mn else "bounds:unbounded" if mx is None else "bounds:loose"),
                "ji" if m["ji"] == "T" else "triv" if m["triv"] == "T" else "plain"]
        stats.note(m["tree_text"] + rows_text, n > 0 and len(list(tree_nodes(m["tree"]))) > 2, *tagl)
        for r in rows:
            if set(r.keys()) != m["colset"]:
                out.append(Violation("C06", "row-keys-differ-from-columns",
                                     f"{name}: row {r} vs columns {m['cols']}; tree {m['tree_text']}"))
                break
        if n < mn or (mx is not None and n > mx):
            out.append(Violation("C06", "row-count-outside-bounds",
                                 f"{name}: {n} rows, declared [{mn},{m['max']}]; tree {m['tree_text']}"))
        if m["ji"] == "T" and rows != [{}]:
            out.append(Violation("C06", "join-identity-flag-wrong", f"{name}: rows {rows_text}; tree {m['tree_text']}"))
        # the flags must agree with the REAL content (direct evaluation), so that the short-cuts keyed
        # on them cannot change a result
        sem = sem_line_for(ctx, k, name)
        if sem is not None and field(sem, "kd") == "T" and c[0] == "exec" and field(model[k], "det") != "F":
            drows = parse_rows(field(sem, "rows"))
            dn = len(drows)
            if dn < mn or (mx is not None and dn > mx):
                out.append(Violation("C06", "real-row-count-outside-declared-bounds",
                                     f"{name}: direct evaluation gives {dn} rows, declared [{mn},{m['max']}]; "
                                     f"tree {m['tree_text']}"))
            if m["ji"] == "T" and drows != [{}]:
                out.append(Violation("C06", "join-identity-flag-disagrees-with-content",
                                     f"{name}: direct evaluation gives {field(sem, 'rows')}; tree {m['tree_text']}"))
    # the short-cuts the Processor takes on static metadata (pruned chain branches, trivial payloads instead of hook
    # calls) must not change a result: rows of the processed tree against direct evaluation
    if any(c[0] == "process" for c in ctx.cmds):
        for v in _process_checks("C06", ctx, Stats(), cmds):
            if v.kind.startswith(("processed-rows-differ", "processed-tree-not-executable")):
                out.append(Violation("C06", "short-cut-changed-a-result:" + v.kind, v.detail))
    # join elision must keep the predicate: compared through `sem` by C02/C01 oracles
    return out


def oracle_C18(cmds, impl, model, stats: Stats):
    ctx = Ctx(cmds, impl, model)
    out = []
    # an execute call that RAISED may still have consumed an input a second time
    for k, c in enumerate(ctx.cmds):
        if c[0] == "exec" and impl[k].startswith("err ") and " pulls_exec=" in impl[k] and \
                k < len(model) and model[k].startswith("ok rows"):
            t = field(impl[k], "pulls_exec").strip("[]")
            pi = Counter(t.split(",")) if t else Counter()
            tm = field(model[k], "pulls_exec").strip("[]")
            pm = Counter(tm.split(",")) if tm else Counter()
            m = ctx.meta.get(c[1])
            for leaf, cnt in pi.items():
                if cnt > pm.get(leaf, 0):
                    out.append(Violation("C18", "eager-input-consumed-again-at-a-later-execute",
                                         f"{c[1]}: execute (which then raised {impl[k].split()[1]}) started {cnt} "
                                         f"iterations of {leaf}, at most {pm.get(leaf, 0)} can be needed; "
                                         f"{m['tree_text'] if m else ''}"))
    for k, name, il, sem in _exec_pairs(ctx):
        m = ctx.meta.get(name)
        if m is None or not il.startswith("ok rows"):
            continue
        tree = m["tree"]
        kinds = {kd for kd, _ in tree_nodes(tree)}
        occ = leaf_counts(tree)
        lazy_only = kinds <= {"leaf", "u:calc", "u:proj", "u:sel", "u:slice", "b:chain"}

        def pulls(fieldname):
            t = field(il, fieldname).strip("[]")
            return Counter(t.split(",")) if t else Counter()

        pe, p1, p2 = pulls("pulls_exec"), pulls("pulls_iter1"), pulls("pulls_iter2")
        stats.note(m["tree_text"] + il, len(kinds) >= 3, "lazy-only" if lazy_only else "has-eager",
                   "pulled-at-exec" if pe else "no-pull-at-exec")
        if lazy_only and pe:
            out.append(Violation("C18", "execute-iterated-a-leaf-of-a-lazy-tree", f"{name}: {dict(pe)}; {m['tree_text']}"))
        for label, p in (("execute", pe), ("first iteration", p1), ("second iteration", p2)):
            for leaf, cnt in p.items():
                if cnt > occ.get(leaf, 0):
                    out.append(Violation("C18", "leaf-iterated-more-than-once-per-occurrence",
                                         f"{name}: {label} started {cnt} iterations of {leaf} "
                                         f"({occ.get(leaf, 0)} occurrences); {m['tree_text']}"))
        lazy_occ = leaves_outside_eager(tree)
        for label, p in (("first iteration", p1), ("second iteration", p2)):
            for leaf, cnt in p.items():
                if cnt > lazy_occ.get(leaf, 0):
                    out.append(Violation("C18", "eager-input-consumed-again-after-execute",
                                         f"{name}: {label} re-iterated {leaf} beneath a sort/deduplication/"
                                         f"materialization; {m['tree_text']}"))
        # a materialization that was evaluated by an EARLIER execute call must not be evaluated again: the
        # model (whose payload cache is proved write-once / evaluate-once, Props/C10, C18) says which leaf
        # iterations this execute call may start
        if k < len(model) and model[k].startswith("ok rows"):
            tm = field(model[k], "pulls_exec").strip("[]")
            pm = Counter(tm.split(",")) if tm else Counter()
            for leaf, cnt in pe.items():
                if cnt > pm.get(leaf, 0) and ({"mat", "u:sort", "u:dedup"} & kinds):
                    out.append(Violation("C18", "eager-input-consumed-again-at-a-later-execute",
                                         f"{name}: execute started {cnt} iterations of {leaf}, at most "
                                         f"{pm.get(leaf, 0)} can be needed (cached materialization / consumed input); "
                                         f"{m['tree_text']}"))
        if field(il, "again") != "same":
            out.append(Violation("C18", "repeated-iteration-differs", f"{name}: {m['tree_text']}"))
        # "results can be iterated repeatedly with identical rows": also across executions of other
        # relations in between -- an input consumed by an eager operation must not be disturbed
        if field(sem, "kd") == "T" and field(il, "rows") != field(sem, "rows") and field(model[k], "det") != "F":
            out.append(Violation("C18", "rows-changed-by-an-earlier-evaluation",
                                 f"{name}: {field(il, 'rows')} but the operation sequence gives {field(sem, 'rows')}; "
                                 f"{m['tree_text']}"))
    return out


# ------------------------------------------------------------------------------ C04
def oracle_C04(cmds, impl, model, stats: Stats):
    ctx = Ctx(cmds, impl, model)
    out = []
    for k, c in enumerate(ctx.cmds):
        if c[0] == "commute":
            il = impl[k]
            if not il.startswith("ok "):
                continue
            first, second, cur = field(il, "first"), None, None
            m = re.match(r"ok first=(.*) second=(.*) done=(\S) cur=(.*)$", il)
            first, second, done, cur = m.groups()
            pair = f"{c[1][0]}>{c[2][0]}"
            stats.note(cmds[k], first != "-", "pair:" + pair, "moved" if first != "-" else "refused",
                       "partial" if (first != "-" and done == "F") else "full")
            if first == "-" and second != cur:
                out.append(Violation("C04", "refusal-does-not-return-existing-operation",
                                     f"{cmds[k]}: second={second} cur={cur}"))
        elif c[0] == "commutej":
            il = impl[k]
            if not il.startswith("ok "):
                continue
            first = field(il, "first")
            curk = c[4][0]
            stats.note(cmds[k], first != "-", "pair:join>" + curk, "moved" if first != "-" else "refused")
            m = re.match(r"ok first=(\S+) second=(.*) done=(\S) cur=(.*?)(?: wf=(\S))?(?: ja=\S+ jb=\S+ la=\S+ lb=\S+)?$", il)
            if m:
                _, second, _, cur, wf = m.groups()
                if first == "-" and second != cur:
                    out.append(Violation("C04", "refusal-does-not-return-existing-operation",
                                         f"{cmds[k]}: second={second} cur={cur}"))
                if first != "-" and wf != "T":
                    out.append(Violation("C04", f"commuted-operations-ill-formed:join>{curk}",
                                         f"{cmds[k]}: the reported first (the join) or second operation is not "
                                         "well-formed on the relation it would be applied to"))
            # the property itself, evaluated on the implementation's rows (a join defines no order: multisets)
            ja, jb, la, lb = (field(il, x) for x in ("ja", "jb", "la", "lb"))
            if first != "-" and ja is not None:
                if ja.startswith("[!"):
                    out.append(Violation("C04", f"commuted-operations-fail:join>{curk}", f"{cmds[k]}: {ja}"))
                elif ja != jb:
                    out.append(Violation("C04", f"join-commutation-changes-rows:join>{curk}",
                                         f"{cmds[k]}: (target on the left) existing;join gives {ja}, "
                                         f"join;second gives {jb}"))
                elif la != lb:
                    out.append(Violation("C04", f"join-commutation-changes-rows:join>{curk}",
                                         f"{cmds[k]}: (fixed relation on the left) existing;join gives {la}, "
                                         f"join;second gives {lb}"))
        elif c[0] == "commutesem":
            il, ml = impl[k], model[k]
            if not il.startswith("ok a="):
                continue
            kd = field(ml, "kd")
            if kd is None:
                # the model refused to commute here (the two sides disagree): key-determinedness only
                # matters when a deduplication is involved
                kd = "F" if "dedup" in (c[1][0], c[2][0]) else "T"
            a, b, wf = field(il, "a"), field(il, "b"), field(il, "wf")
            pair = f"{c[1][0]}>{c[2][0]}"
            if wf != "T":
                out.append(Violation("C04", f"commuted-operations-ill-formed:{pair}", f"{cmds[k]}"))
                continue
            if kd != "T":
                continue
            if a != b:
                out.append(Violation("C04", f"commutation-changes-rows:{pair}",
                                     f"{cmds[k]}: existing;new gives {a}, commuted sequence gives {b}"))
    return out


# ------------------------------------------------------------------------------ C05
def oracle_C05(cmds, impl, model, stats: Stats):
    ctx = Ctx(cmds, impl, model)
    out = []
    applies: dict[str, tuple] = {}   # name -> (target, op sexp, line index)
    execs: dict[str, int] = {}
    sems: dict[str, int] = {}
    simpl: dict[str, int] = {}
    for k, c in enumerate(ctx.cmds):
        if c[0] == "apply":
            applies[c[1]] = (c[2], c[3], k)
        elif c[0] == "exec":
            execs[c[1]] = k
        elif c[0] == "sem":
            sems[c[1]] = k
        elif c[0] == "simplify":
            simpl[proto.sx(c[1]) + proto.sx(c[2])] = k
        if c[0] != "seqsem":
            continue
        t, first, second = c[1], c[2], c[3]
        r2 = next((n for n, (tg, op, _) in reversed(list(applies.items()))
                   if op == second and tg in applies and applies[tg][0] == t and applies[tg][1] == first), None)
        if r2 is None:
            continue
        r1 = applies[r2][0]
        k1, k2 = applies[r1][2], applies[r2][2]
        a1, a2 = impl[k1], impl[k2]
        pair = f"{second[0]}-after-{first[0]}"
        ks = simpl.get(proto.sx(second) + proto.sx(first))
        sl = impl[ks] if ks is not None else "ok none"
        merged = sl != "ok none"
        stats.note(cmds[k1] + cmds[k2], merged, "pair:" + pair, "merged" if merged else "not-merged")
        if not a1.startswith("ok "):
            continue  # first operation rejected: not a merge
        if a2.startswith("err "):
            out.append(Violation("C05", f"merge-raised:{pair}:{a2.split()[1]}",
                                 f"{cmds[k2]} after {cmds[k1]} raised {a2.split()[1]}"))
            continue
        if sl.startswith("err "):
            out.append(Violation("C05", f"merge-raised:{pair}:{sl.split()[1]}", f"{cmds[ks]}"))
        ke = execs.get(r2)
        if ke is None or not impl[ke].startswith("ok rows"):
            continue
        want = field(model[k], "rows")
        kd = field(model[sems[r2]], "kd") if r2 in sems else "T"
        if kd != "T":
            continue
        got = field(impl[ke], "rows")
        if got != want:
            out.append(Violation("C05", f"merged-result-differs:{pair}",
                                 f"{cmds[k2]} after {cmds[k1]}: merged tree gives {got}, sequence gives {want}"))
    return out


# ------------------------------------------------------------------------------ C12 / C13
def oracle_C13(cmds, impl, model, stats: Stats):
    out = []
    for k, cmd in enumerate(cmds):
        c = parse_cmd(cmd)
        il = impl[k]
        if c[0] == "predjoin" and il.startswith("ok "):
            before, after, fresh = field(il, "before"), field(il, "after"), field(il, "fresh")
            stats.note(cmd, True, "predjoin:" + field(il, "used").split(":")[0])
            if after != fresh or before != fresh:
                out.append(Violation("C13", "declared-required-columns-changed-by-use",
                                     f"{cmd}: declared {before} before the join, {after} after it; an equal "
                                     f"freshly built predicate declares {fresh}"))
            continue
        if c[0] == "pred" and il.startswith("ok "):
            triv, it, restricted = field(il, "triv"), field(il, "iter"), field(il, "restricted")
            flat = re.search(r" flat=(.*?) norm=", il).group(1)
            flatval, normval = field(il, "flatval"), field(il, "normval")
            shape = c[1][0]
            stats.note(cmd, shape in ("and", "or", "not"), "shape:" + shape, "triv:" + triv,
                       "flat:" + ("F" if flat == "F" else "list"))
            if it == "err":
                continue
            if triv in ("T", "F") and it != triv:
                out.append(Violation("C13", "as_trivial-unsound", f"{cmd}: as_trivial={triv}, value {it}"))
            if flat == "F" and it != "F":
                out.append(Violation("C13", "flatten-false-unsound", f"{cmd}: flatten=False but value {it}"))
            if flat != "F" and flatval != it:
                out.append(Violation("C13", "flatten-not-equivalent", f"{cmd}: conjuncts give {flatval}, predicate {it}"))
            if normval != it:
                out.append(Violation("C13", "selection-normalisation-not-equivalent",
                                     f"{cmd}: stored predicate gives {normval}, supplied {it}"))
            if restricted != it:
                out.append(Violation("C13", "required-columns-insufficient",
                                     f"{cmd}: on the restricted row {restricted}, on the full row {it}"))
        elif c[0] == "expr" and il.startswith("ok "):
            it, restricted = field(il, "iter"), field(il, "restricted")
            stats.note(cmd, c[1][0] == "fn", "shape:expr-" + c[1][0])
            if it != "err" and restricted != it:
                out.append(Violation("C13", "required-columns-insufficient",
                                     f"{cmd}: on the restricted row {restricted}, on the full row {it}"))
    return out


def oracle_C12(cmds, impl, model, stats: Stats):
    out = []
    for k, cmd in enumerate(cmds):
        c = parse_cmd(cmd)
        il, ml = impl[k], model[k]
        if c[0] in ("pred", "expr") and il.startswith("ok ") and ml.startswith("ok "):
            it = field(il, "iter")
            spec = field(ml, "spec")
            sqlv = field(il, "sql")
            stats.note(cmd, c[1][0] not in ("plit", "lit", "ref", "pref"), "shape:" + c[1][0],
                       "sql:" + ("n/a" if sqlv is None else "ok" if not sqlv.startswith("err") else "err"))
            if it != "err" and it != spec:
                out.append(Violation("C12", "iteration-callable-differs-from-direct-evaluation",
                                     f"{cmd}: callable {it}, direct {spec}"))
            if sqlv is not None and sqlv != spec:
                kind = "sql-translation-differs-from-direct-evaluation"
                if c[0] == "pred" and "(range " in cmd:
                    kind += ":range"
                out.append(Violation("C12", kind, f"{cmd}: database {sqlv}, direct {spec}"))
    return out


ORACLES = {
    "C01": oracle_C01,
    "C04": oracle_C04,
    "C05": oracle_C05,
    "C06": oracle_C06,
    "C12": oracle_C12,
    "C13": oracle_C13,
    "C18": oracle_C18,
}


# ------------------------------------------------------------------------------ SQL: C02 / C08 / C11
def _sql_pairs(ctx: Ctx):
    for k, c in enumerate(ctx.cmds):
        if c[0] == "sqlexec":
            sem = None
            if k + 1 < len(ctx.cmds) and ctx.cmds[k + 1][0] == "sem" and ctx.cmds[k + 1][1] == c[1]:
                sem = ctx.model[k + 1]
            yield k, c[1], ctx.impl[k], ctx.model[k], sem


def _ms(text: str):
    return sorted(proto.show_row_dict(r) for r in parse_rows(text))


def sql_correspondence(ctx: Ctx, stats: Stats, cmds):
    """Model-vs-implementation comparison of `sqlexec` lines (multiset / order aware)."""
    diffs = []
    for k, name, il, ml, sem in _sql_pairs(ctx):
        if ml.startswith("unspecified"):
            continue
        if il.startswith("err compile") or ml.startswith("err compile"):
            if il != ml:
                diffs.append((k, cmds[k], il, ml))
            continue
        if il.startswith("err database") or ml.startswith("err database"):
            if not (il.startswith("err database") and ml.startswith("err database")):
                diffs.append((k, cmds[k], il, ml))
            continue
        if il.startswith("bad-") or ml.startswith("bad-"):
            if il != ml:
                diffs.append((k, cmds[k], il, ml))
            continue
        rows0, rows1, mrows = field(il, "rows0"), field(il, "rows1"), field(ml, "rows")
        det, total = field(ml, "det"), field(ml, "total")
        if det == "T":
            if not (_ms(rows0) == _ms(mrows) == _ms(rows1)):
                diffs.append((k, cmds[k], il, ml))
                continue
        if det == "T" and total == "T":
            if not (rows0 == mrows == rows1):
                diffs.append((k, cmds[k], il, ml))
    return diffs


def oracle_C02(cmds, impl, model, stats: Stats):
    ctx = Ctx(cmds, impl, model)
    out = []
    stats.corr_diffs = getattr(stats, "corr_diffs", []) + sql_correspondence(ctx, stats, cmds)
    for k, name, il, ml, sem in _sql_pairs(ctx):
        m = ctx.meta.get(name)
        if m is None or sem is None or not il.startswith("ok rows0"):
            continue
        kinds = {kd for kd, _ in tree_nodes(m["tree"])}
        det = field(ml, "det") if ml.startswith("ok ") else "?"
        kd = field(sem, "kd")
        tags = sorted(x for x in kinds if x != "select")
        if det != "T" or kd != "T":
            stats.note(m["tree_text"], False, "indeterminate" if det != "T" else "not-key-determined")
            continue
        rows0, rows1, want = field(il, "rows0"), field(il, "rows1"), field(sem, "rows")
        # does the conformed tree meet the decidable hypothesis of the compile-correctness theorem (Props/C02)?
        hyp = "theorem-hypothesis:structReady" if field(ml, "ready") == "T" else "theorem-hypothesis:not-met"
        stats.note(m["tree_text"] + rows0, len(kinds - {"leaf", "select"}) >= 2 and rows0 != "[]", hyp, *tags)
        for label, got in (("default scan order", rows0), ("reversed scan order", rows1)):
            if _ms(got) != _ms(want):
                kind = "sql-rows-differ-from-direct-evaluation"
                if "b:join" in kinds:
                    kind += ":join"
                out.append(Violation("C02", kind,
                                     f"{name} ({label}): database returned {got}, direct evaluation gives {want}; "
                                     f"tree {m['tree_text']}"))
                break
    return out


DOCUMENTED_SQL_ERRORS = {"err compile EngineError"}


def has_nested_compound(t) -> bool:
    """Some chain node has an operand Select that directly wraps another chain."""
    for kd, n in tree_nodes(t, into_skip=True):
        if kd == "b:chain":
            for operand in (n[3], n[4]):
                if isinstance(operand, list) and operand and operand[0].startswith("select") and operand[-3] == "T":
                    return True
    return False


def oracle_C08(cmds, impl, model, stats: Stats):
    ctx = Ctx(cmds, impl, model)
    out = []
    stats.corr_diffs = getattr(stats, "corr_diffs", []) + sql_correspondence(ctx, stats, cmds)
    for k, c in enumerate(ctx.cmds):
        il = impl[k]
        if c[0] == "sqlexec":
            m = ctx.meta.get(c[1])
            if m is None:
                continue
            kinds = sorted({kd for kd, _ in tree_nodes(m["tree"], into_skip=True)} - {"select", "leaf"})
            if il.startswith("ok "):
                stats.note(m["tree_text"], len(kinds) >= 2, "sql:ok", *kinds)
                continue
            if il in DOCUMENTED_SQL_ERRORS:
                stats.note(m["tree_text"], False, "sql:needs-processor")
                continue
            if il.startswith("err "):
                phase, err = il.split()[1], il.split()[2]
                stats.note(m["tree_text"], True, f"sql:{phase}-error")
                shape = "+".join(kinds)
                kind = f"accepted-tree-fails:{phase}:{err.split(':')[0]}"
                if model[k].startswith("unspecified duplicate-from-names"):
                    kind += ":duplicate-from-name"
                elif phase == "database" and has_nested_compound(m["tree"]):
                    kind += ":nested-compound"
                out.append(Violation("C08", kind, f"{c[1]}: {il}; shape {shape}; tree {m['tree_text']}"))
        elif c[0] == "exec":
            m = ctx.meta.get(c[1])
            if m is None:
                continue
            kinds = sorted({kd for kd, _ in tree_nodes(m["tree"])} - {"leaf"})
            if il.startswith("ok rows"):
                stats.note(m["tree_text"], len(kinds) >= 2, "iter:ok", *kinds)
            elif il.startswith("err EngineError"):
                stats.note(m["tree_text"], False, "iter:documented-refusal")
            elif il.startswith("err ") or il.startswith("ok exec err"):
                err = il.split()[1] if il.startswith("err ") else il.split()[-1]
                out.append(Violation("C08", f"accepted-tree-fails:iteration:{err}",
                                     f"{c[1]}: {il}; tree {m['tree_text']}"))
        elif c[0] in ("apply", "join", "chain", "mat", "transfer") and il.startswith("err "):
            err = il.split()[1]
            if err in ("KeyError", "NotImplementedError", "AssertionError", "AttributeError", "ValueError"):
                # internal error at construction time (slices raise ValueError only for invalid bounds,
                # which the generators of this property never request)
                out.append(Violation("C08", f"construction-internal-error:{err}", f"{cmds[k]}"))
    return out


def oracle_C11(cmds, impl, model, stats: Stats):
    ctx = Ctx(cmds, impl, model)
    out = []
    stats.corr_diffs = getattr(stats, "corr_diffs", []) + sql_correspondence(ctx, stats, cmds)
    for k, name, il, ml, sem in _sql_pairs(ctx):
        m = ctx.meta.get(name)
        if m is None or sem is None or not il.startswith("ok rows0") or not ml.startswith("ok rows"):
            continue
        det, total, kd = field(ml, "det"), field(ml, "total"), field(sem, "kd")
        t = m["tree"]
        has_sort = t[0].startswith("select") and len(t[1]) > 1
        has_slice = t[0].startswith("select") and (t[4] != "0" or t[5] != "-")
        tags = ["sorted" if has_sort else "unsorted", "sliced" if has_slice else "unsliced",
                "total" if total == "T" else "not-total", "det" if det == "T" else "indeterminate"]
        stats.note(m["tree_text"] + il, has_sort, *tags)
        if kd != "T" or det != "T":
            continue
        rows0, rows1, want = field(il, "rows0"), field(il, "rows1"), field(sem, "rows")
        if total == "T":
            for label, got in (("default scan order", rows0), ("reversed scan order", rows1)):
                if got != want:
                    out.append(Violation("C11", "sorted-result-not-in-order",
                                         f"{name} ({label}): database returned {got}, the sort order is {want}; "
                                         f"tree {m['tree_text']}"))
                    break
        elif _ms(rows0) != _ms(want) or _ms(rows1) != _ms(want):
            out.append(Violation("C11", "slice-of-sorted-relation-wrong-rows",
                                 f"{name}: database returned {rows0} / {rows1}, expected rows {want}; "
                                 f"tree {m['tree_text']}"))
    # refusal: a sort without a slice must not be buried silently
    for k, c in enumerate(ctx.cmds):
        if c[0] in ("join", "chain", "mat") and impl[k].startswith("ok "):
            operands = [c[2]] if c[0] == "mat" else [c[2], c[3]]
            for o in operands:
                mo = ctx.meta.get(o)
                if mo is None or mo["eng"] != ctx.meta[c[1]]["eng"]:
                    continue
                t = mo["tree"]
                if t[0].startswith("select") and len(t[1]) > 1 and t[4] == "0" and t[5] == "-":
                    out.append(Violation("C11", "sort-silently-buried",
                                         f"{cmds[k]}: operand {o} carries a sort without a slice: {mo['tree_text']}"))
    return out


ORACLES.update({"C02": oracle_C02, "C08": oracle_C08, "C11": oracle_C11})


# ------------------------------------------------------------------------------ multi-engine helpers
def engine_kinds(ctx: Ctx) -> dict[str, str]:
    """'e0' -> 'sql' | 'iter' (index names as printed in trees)."""
    out = {}
    i = 0
    for c in ctx.cmds:
        if c[0] == "engine":
            out[f"e{i}"] = c[2]
            i += 1
    return out


def leaf_cols(ctx: Ctx) -> dict[str, set[str]]:
    out = {}
    for c in ctx.cmds:
        if c[0] == "leaf":
            out[c[7]] = set(c[3])
        elif c[0] == "doomed":
            out[c[4]] = set(c[3])
        elif c[0] == "joinid":
            out[c[3]] = set()
    return out


def node_engine(t) -> str:
    h = t[0]
    if h == "leaf":
        return t[2]
    if h == "u":
        return node_engine(t[3])
    if h == "b":
        return node_engine(t[3])
    if h == "mat":
        return node_engine(t[3])
    if h == "xfer":
        return t[2]
    if h.startswith("select"):
        return node_engine(t[-1])
    return "?"


def node_cols(t, lcols) -> set[str]:
    h = t[0]
    if h == "leaf":
        return set(lcols.get(t[1], set()))
    if h in ("u", "b"):
        return set(filter(None, t[2].strip("[]").split(",")))
    if h in ("mat", "xfer"):
        return node_cols(t[3], lcols)
    if h.startswith("select"):
        return node_cols(t[-1], lcols)
    return set()


def strip_marks(text: str) -> str:
    """Remove payload marks and serial numbers (structure only)."""
    return re.sub(r"\(select\+", "(select", re.sub(r"#\d+\+?", "#", text))


def exec_rows_after(ctx: Ctx, k: int, name: str):
    """Rows obtained by executing relation `name` right after command k: (rows text, ordered?, det, error)."""
    for j in range(k + 1, min(k + 3, len(ctx.cmds))):
        c = ctx.cmds[j]
        if c[0] == "exec" and c[1] == name and not ctx.impl[j].startswith("bad-"):
            il, ml = ctx.impl[j], ctx.model[j]
            if il.startswith("ok rows"):
                return field(il, "rows"), field(ml, "order") == "exact", field(ml, "det") != "F", None, j
            return None, False, True, re.sub(r" pulls_exec=\S+", "", il), j
        if c[0] == "sqlexec" and c[1] == name and not ctx.impl[j].startswith("bad-"):
            il, ml = ctx.impl[j], ctx.model[j]
            if il.startswith("ok rows0"):
                det = ml.startswith("ok ") and field(ml, "det") == "T"
                total = ml.startswith("ok ") and field(ml, "total") == "T"
                return field(il, "rows0"), total, det, None, j
            return None, False, True, il, j
    return None, False, False, "not-executed", -1


def sem_line_for(ctx: Ctx, k: int, name: str):
    for j in range(k + 1, min(k + 6, len(ctx.cmds))):
        c = ctx.cmds[j]
        if c[0] == "sem" and c[1] == name:
            return ctx.model[j]
    return None


def has_iteration_join(t, kinds_of) -> bool:
    """A join node inside an iteration engine: executing it is the documented EngineError
    ("Joins are not supported by the iteration engine")."""
    return any(kd == "b:join" and kinds_of.get(node_engine(n)) == "iter" for kd, n in tree_nodes(t, into_skip=True))


def _process_checks(prop: str, ctx: Ctx, stats: Stats, cmds, only=None):
    """Shared by C07 (all relations) and C03 (relations built with preferred-engine options)."""
    out = []
    kinds_of = engine_kinds(ctx)
    for k, c in enumerate(ctx.cmds):
        if c[0] != "process":
            continue
        pname, rname = c[1], c[2]
        if only is not None and rname not in only:
            continue
        src = ctx.meta.get(rname)
        il, ml = ctx.impl[k], ctx.model[k]
        if src is None or il == "bad-ref":
            continue
        kinds = sorted({kd for kd, _ in tree_nodes(src["tree"], into_skip=True)} - {"leaf", "select"})
        if ml.startswith("err Unspecified"):
            stats.note(src["tree_text"], False, "unspecified-self-join")
            continue
        if il.startswith("err EngineError") and has_iteration_join(src["tree"], kinds_of):
            stats.note(src["tree_text"], False, "documented-refusal:iteration-join")
            continue
        if il.startswith("err "):
            stats.note(src["tree_text"], True, "process-error:" + il.split()[1])
            err = il.split()[1].split(":")[0]
            if err == "SQLError" and has_nested_compound(src["tree"]):
                err += ":nested-compound"
            out.append(Violation(prop, f"processing-failed:{err}",
                                 f"{cmds[k]}: {il}; tree {src['tree_text']}"))
            continue
        m = ctx.meta_at[k]
        if m is None:
            continue
        hooks = il.split(" || hooks=", 1)[1] if " || hooks=" in il else ""
        nhooks = hooks.count("<transfer") + hooks.count("<materialize")
        stats.note(src["tree_text"] + hooks, len(kinds) >= 2 and nhooks > 0, *kinds, f"hooks:{min(nhooks, 3)}")
        if prop == "C07":
            if m["cols"] != src["cols"] or m["eng"] != src["eng"]:
                out.append(Violation("C07", "processed-relation-changed-signature",
                                     f"{cmds[k]}: {src['cols']}/{src['eng']} became {m['cols']}/{m['eng']}"))
            inp = re.search(r" \|\| input=(.*) \|\| hooks=", il)
            if inp:
                after = inp.group(1)
                if strip_marks(after) != strip_marks(src["tree_text"]):
                    out.append(Violation("C07", "input-tree-structure-changed",
                                         f"{cmds[k]}: before {src['tree_text']} after {after}"))
                before_x = set(re.findall(r"\(xfer #(\d+)\+", src["tree_text"]))
                after_x = set(re.findall(r"\(xfer #(\d+)\+", after))
                if after_x - before_x:
                    out.append(Violation("C07", "input-transfer-gained-payload", f"{cmds[k]}: {after}"))
            if "triv=T" in hooks:
                out.append(Violation("C07", "hook-called-on-trivial-relation", f"{cmds[k]}: {hooks}"))
        sem = sem_line_for(ctx, k, rname)
        rows, ordered, det, err, j = exec_rows_after(ctx, k, pname)
        if err is not None:
            if err == "not-executed":
                continue
            e = err.split()[-1].split(":")[0]
            kind = f"processed-tree-not-executable:{e}"
            if j >= 0 and ctx.model[j].startswith("unspecified"):
                continue
            if e == "EngineError" and has_iteration_join(m["tree"], kinds_of):
                continue
            if ":nested-compound" in err or (err.startswith("err database") and has_nested_compound(m["tree"])):
                kind += ":nested-compound"
            if e == "EngineError" and attached_to_select(cmds, ctx.impl):
                # the program attached a payload to a sql.Select and kept building on it (finding F17)
                kind += ":payload-attached-to-select"
            out.append(Violation(prop, kind, f"{cmds[k]} then {cmds[j]}: {err}; processed tree {m['tree_text']}"))
            continue
        if sem is None or rows is None:
            continue
        pdet = field(ml, "det") != "F"
        if field(sem, "kd") != "T" or not det or not pdet:
            continue
        want = field(sem, "rows")
        same = (rows == want) if ordered else (_ms(rows) == _ms(want))
        if not same:
            kind = "processed-rows-differ-from-direct-evaluation"
            if field(sem, "f04") == "T":
                # built by back-tracking a projection past a deduplication (known finding F04)
                kind += ":projection-moved-past-deduplication"
            out.append(Violation(prop, kind,
                                 f"{cmds[k]}: executed {rows}, direct evaluation gives {want}; tree {src['tree_text']}"))
    return out


def attached_to_select(cmds, impl) -> bool:
    """Does the program attach a payload to a relation whose root is a sql.Select marker?"""
    for k, c in enumerate(cmds):
        if c.startswith("(attach ") and k < len(impl) and impl[k].startswith("ok"):
            name = c[len("(attach "):].rstrip(")").strip()
            for j in range(k):
                toks = cmds[j].strip("()").split()
                if len(toks) >= 2 and toks[1] == name and j < len(impl) and " (select" in impl[j].split("|")[0]:
                    return True
    return False


def oracle_C07(cmds, impl, model, stats: Stats):
    ctx = Ctx(cmds, impl, model)
    stats.corr_diffs = getattr(stats, "corr_diffs", []) + sql_correspondence(ctx, stats, cmds)
    return _process_checks("C07", ctx, stats, cmds)


def op_nodes_by_engine(t) -> Counter:
    c: Counter = Counter()
    for kd, n in tree_nodes(t):
        if kd.startswith(("u:", "b:")):
            c[node_engine(n)] += 1
    return c


def oracle_C03(cmds, impl, model, stats: Stats):
    ctx = Ctx(cmds, impl, model)
    stats.corr_diffs = getattr(stats, "corr_diffs", []) + sql_correspondence(ctx, stats, cmds)
    out = []
    pref_rels = set()
    last_plain: dict[tuple, int] = {}
    for k, c in enumerate(ctx.cmds):
        if c[0] == "apply":
            key = (c[2], proto.sx(c[3]))
            opts = c[4]
            pref = opts[1]
            if pref == "-" and opts[2:] == ["T", "F", "F"]:
                last_plain[key] = k
                continue
            if pref == "-":
                continue
            pref_rels.add(c[1])
            il = impl[k]
            tgt = ctx.meta.get(c[2])
            bt, tr, req = (x == "T" for x in opts[2:])
            stats.note(cmds[k], tgt is not None and tgt["eng"] != engine_name(ctx, pref),
                       f"op:{c[3][0]}", f"bt={opts[2]} tr={opts[3]} req={opts[4]}",
                       "accepted" if il.startswith("ok ") else "rejected:" + il.split()[-1])
            kp = last_plain.get(key)
            plain = impl[kp] if kp is not None else None
            if il.startswith("err ColumnError") and plain is not None and plain.startswith("ok "):
                out.append(Violation("C03", "valid-operation-rejected-by-backtracking",
                                     f"{cmds[k]} raised ColumnError but {cmds[kp]} succeeds"))
                continue
            m = ctx.meta_at[k]
            if m is None:
                continue
            if plain is not None and plain.startswith("ok "):
                pm = ctx.meta_at[kp]
                if pm is not None and pm["cols"] != m["cols"]:
                    out.append(Violation("C03", "preferred-engine-result-has-different-columns",
                                         f"{cmds[k]}: {m['cols']} vs plain {pm['cols']}"))
            if tr and m["eng"] != engine_name(ctx, pref) and tgt is not None and m["how"] != "same":
                # documented: with backtrack=True the transfer is added only if back-tracking fails;
                # then the operation itself must have been inserted inside the preferred engine
                before = op_nodes_by_engine(tgt["tree"])
                after = op_nodes_by_engine(m["tree"])
                pe = engine_name(ctx, pref)
                moved_inside = bt and all(after.get(e, 0) <= before.get(e, 0) for e in set(before) | set(after) if e != pe)
                if not moved_inside:
                    out.append(Violation("C03", "transfer-requested-but-operation-not-in-preferred-engine",
                                         f"{cmds[k]}: result engine {m['eng']}; {m['tree_text']}"))
            if req and not tr and tgt is not None:
                before = op_nodes_by_engine(tgt["tree"])
                after = op_nodes_by_engine(m["tree"])
                pe = engine_name(ctx, pref)
                for e in set(before) | set(after):
                    if e != pe and after.get(e, 0) > before.get(e, 0):
                        out.append(Violation("C03", "required-preferred-engine-but-operation-added-elsewhere",
                                             f"{cmds[k]}: engine {e} has {after[e]} operation nodes (was {before.get(e, 0)})"))
        elif c[0] == "join":
            pref_rels.add(c[1])
            stats.note(cmds[k], True, "op:join", f"bt={c[5]} tr={c[6]}",
                       "accepted" if impl[k].startswith("ok ") else "rejected:" + impl[k].split()[-1])
    out.extend(_process_checks("C03", ctx, stats, cmds, only=pref_rels))
    return out


def engine_name(ctx: Ctx, declared: str) -> str:
    """Protocol engine name (as declared) -> printed index name."""
    i = 0
    for c in ctx.cmds:
        if c[0] == "engine":
            if c[1] == declared:
                return f"e{i}"
            i += 1
    return declared


# ------------------------------------------------------------------------------ C14 / C15
def op_required(opnode) -> set[str]:
    h = opnode[0]
    if h == "calc":
        from gen import G
        return G.expr_cols(opnode[2])
    if h == "proj":
        return set(filter(None, opnode[1].strip("[]").split(",")))
    if h == "sel":
        from gen import G
        return G.pred_cols(opnode[1])
    if h == "sort":
        from gen import G
        out: set[str] = set()
        for t in opnode[1:]:
            out |= G.expr_cols(t[1])
        return out
    return set()


def sups_in(x, acc: set[str]):
    if isinstance(x, list):
        if x and x[0] in ("fn", "pfn") and len(x) > 2 and x[2] in ("iter", "sql"):
            acc.add(x[2])
        for y in x:
            sups_in(y, acc)


def oracle_C14(cmds, impl, model, stats: Stats):
    ctx = Ctx(cmds, impl, model)
    stats.corr_diffs = getattr(stats, "corr_diffs", []) + sql_correspondence(ctx, stats, cmds)
    out = []
    kinds_of = engine_kinds(ctx)
    lcols = leaf_cols(ctx)
    keycols = {n for n, k in parse_cmd(cmds[0])[1] if k == "k"} if cmds and cmds[0].startswith("(tags") else set()
    for k, c in enumerate(ctx.cmds):
        m = ctx.meta_at[k]
        if m is None:
            # rejected calls must be rejected with EngineError / ColumnError (or the row-order error)
            continue
        nodes = list(tree_nodes(m["tree"], into_skip=True))
        stats.note(m["tree_text"], len(nodes) > 3, *sorted({kd for kd, _ in nodes}))
        for kd, n in nodes:
            if kd in ("u:identity", "u:pjoin", "b:ignore"):
                out.append(Violation("C14", "placeholder-operation-in-tree", f"{cmds[k]}: {m['tree_text']}"))
            if kd.startswith("b:"):
                if node_engine(n[3]) != node_engine(n[4]):
                    out.append(Violation("C14", "binary-operands-in-different-engines", f"{cmds[k]}: {m['tree_text']}"))
            if kd == "xfer" and node_engine(n[3]) == n[2]:
                out.append(Violation("C14", "transfer-connects-engine-to-itself", f"{cmds[k]}: {m['tree_text']}"))
            if kd == "b:join":
                mn, mx = n[1][2], n[1][3]
                if mn != mx:
                    out.append(Violation("C14", "join-common-columns-unresolved", f"{cmds[k]}: {m['tree_text']}"))
                common = set(filter(None, mn.strip("[]").split(",")))
                if not (common <= node_cols(n[3], lcols) and common <= node_cols(n[4], lcols) and common <= keycols):
                    out.append(Violation("C14", "join-common-columns-not-shared-key-columns",
                                         f"{cmds[k]}: {mn}; {m['tree_text']}"))
            if kd.startswith("u:"):
                need = op_required(n[1])
                have = node_cols(n[3], lcols)
                if not need <= have:
                    out.append(Violation("C14", "operation-requires-missing-columns",
                                         f"{cmds[k]}: {proto.sx(n[1])} needs {sorted(need - have)}; {m['tree_text']}"))
            if kd.startswith(("u:", "b:")):
                acc: set[str] = set()
                sups_in(n[1], acc)
                ek = kinds_of.get(node_engine(n), "?")
                if acc and not acc <= {ek}:
                    out.append(Violation("C14", "expression-not-supported-by-node-engine",
                                         f"{cmds[k]}: node engine {ek}, expression restricted to {sorted(acc)}"))
        # documented no-ops return the relation itself
        if c[0] == "apply":
            tgt = ctx.meta.get(c[2])
            op = c[3]
            if tgt is not None:
                noop = (op[0] == "proj" and set(op[1:]) == tgt["colset"]) or (op[0] == "sort" and len(op) == 1) or \
                       (op[0] == "slice" and op[1] in ("0", "-") and op[2] == "-" and op[3] in ("-", "1"))
                if noop and m["how"] != "same":
                    out.append(Violation("C14", f"documented-noop-returned-new-relation:{op[0]}",
                                         f"{cmds[k]}: {m['tree_text']}"))
        if c[0] == "transfer":
            tgt = ctx.meta.get(c[2])
            if tgt is not None and tgt["eng"] == engine_name(ctx, c[3]) and m["how"] != "same":
                ek = kinds_of.get(tgt["eng"], "?")
                out.append(Violation("C14", f"documented-noop-returned-new-relation:transfer-to-own-engine:{ek}",
                                     f"{cmds[k]}: {m['tree_text']}"))
    return out


def locked_nodes(t):
    """(kind, serial-or-name, structural text of the subtree) for leaves and materializations."""
    out = []
    for kd, n in tree_nodes(t, into_skip=True):
        if kd == "leaf":
            out.append(("leaf", n[1], proto.sx(n)))
        elif kd == "mat":
            out.append(("mat", n[2], re.sub(r"^#(\d+)\+?$", r"\1", n[1]), strip_marks(proto.sx(n))))
    return out


def oracle_C15(cmds, impl, model, stats: Stats):
    ctx = Ctx(cmds, impl, model)
    stats.corr_diffs = getattr(stats, "corr_diffs", []) + sql_correspondence(ctx, stats, cmds)
    out = []
    for k, c in enumerate(ctx.cmds):
        m = ctx.meta_at[k]
        if m is None or c[0] not in ("apply", "join", "chain", "mat", "transfer"):
            continue
        operands = [c[2]] if c[0] in ("apply", "mat", "transfer") else [c[2], c[3]]
        inputs = [ctx.meta[o] for o in operands if o in ctx.meta]
        res_mats = {x[1]: x for x in locked_nodes(m["tree"]) if x[0] == "mat"}
        nlocked = 0
        for im in inputs:
            for x in locked_nodes(im["tree"]):
                if x[0] != "mat":
                    continue
                nlocked += 1
                y = res_mats.get(x[1])
                if y is None:
                    if c[0] in ("apply", "transfer", "mat"):
                        # unary factory calls only ever strip transfers and unlocked markers
                        out.append(Violation("C15", "locked-node-dropped-from-result",
                                             f"{cmds[k]}: materialization {x[1]} of the input is gone: {m['tree_text']}"))
                    continue
                if y[2] != x[2]:
                    out.append(Violation("C15", "locked-node-replaced-by-a-copy",
                                         f"{cmds[k]}: materialization {x[1]} was object #{x[2]}, is #{y[2]} in the result"))
                elif y[3] != x[3]:
                    out.append(Violation("C15", "operation-inserted-upstream-of-locked-node",
                                         f"{cmds[k]}: {x[3]} became {y[3]}"))
        stats.note(cmds[k] + m["tree_text"], nlocked > 0, c[0], f"locked-inputs:{min(nlocked, 3)}")
        if c[0] == "mat" and inputs:
            t = inputs[0]["tree"]
            # skip Select wrappers
            while t[0].startswith("select"):
                t = t[-1]
            before = sum(1 for kd, _ in tree_nodes(inputs[0]["tree"]) if kd == "mat")
            after = sum(1 for kd, _ in tree_nodes(m["tree"]) if kd == "mat")
            if t[0] in ("leaf", "mat") and after > before:
                out.append(Violation("C15", "materializing-a-locked-relation-added-a-materialization",
                                     f"{cmds[k]}: {m['tree_text']}"))
        if c[0] == "transfer" and m["eng"] != engine_name(ctx, c[3]):
            out.append(Violation("C15", "transfer-result-not-in-requested-engine", f"{cmds[k]}: {m['eng']}"))
    # content of every processed relation is checked against direct evaluation
    out.extend(v for v in _process_checks("C15", ctx, stats, cmds))
    return out


# ------------------------------------------------------------------------------ C10
def hook_computations(hooks: str) -> list[tuple[str, str]]:
    """(kind, name) for every hook call in a `hooks=` log that persists rows under a materialization name."""
    out = []
    starts = [m.start() for m in re.finditer(r"<(?:transfer|materialize) ", hooks)]
    for i, st in enumerate(starts):
        entry = hooks[st:starts[i + 1] if i + 1 < len(starts) else len(hooks)]
        m = re.search(r" (\S+) triv=[TF]>", entry)
        if m is None:
            continue
        name = m.group(1)
        if entry.startswith("<materialize "):
            out.append(("materialize", name))
        elif name != "-":
            out.append(("transfer", name))
    return out


def oracle_C10(cmds, impl, model, stats: Stats):
    ctx = Ctx(cmds, impl, model)
    stats.corr_diffs = getattr(stats, "corr_diffs", []) + sql_correspondence(ctx, stats, cmds)
    out = []
    paid: set[str] = set()           # serials of mat/xfer markers seen holding a payload
    paid_m: set[str] = set()         # ... according to the MODEL (proved write-once / evaluate-once, Props/C10)
    last: dict[str, list] = {}       # latest printed tree of every pool relation
    last_text: dict[str, str] = {}
    computed: dict[str, int] = {}    # materialization name -> number of hook calls that computed its rows
    for k, c in enumerate(ctx.cmds):
        il = impl[k]
        # payloads never disappear: once `#k+` was printed, `#k` is never printed without `+` again
        if k < len(model):
            for ser, mark in re.findall(r"\(mat #(\d+)(\+?)", model[k]):
                if mark == "+":
                    paid_m.add(ser)
        for ser, mark in re.findall(r"\((?:mat|xfer) #(\d+)(\+?)", il):
            if mark == "+":
                paid.add(ser)
            elif ser in paid:
                out.append(Violation("C10", "payload-cleared-or-replaced",
                                     f"{cmds[k]}: marker #{ser} lost its payload: {il[:300]}"))
        if c[0] in BUILD_CMDS and ctx.meta_at[k] is not None:
            last[c[1]] = ctx.meta_at[k]["tree"]
            last_text[c[1]] = ctx.meta_at[k]["tree_text"]
        if c[0] == "show" and il.startswith("ok "):
            txt = il[3:].split(" | ")[0]
            last[c[1]] = proto.parse_line(txt)[0]
            last_text[c[1]] = txt
        if c[0] == "process" and il.startswith("ok ") and " || hooks=" in il:
            # every materialization is computed at most once: a hook that persists the rows under the name of
            # a materialization (transfer with materialize_as, or materialize) runs once per name - within one
            # `process` call and over the whole history (names are unique per materialization command)
            hooks = il.split(" || hooks=", 1)[1]
            names = [nm for _, nm in hook_computations(hooks)]
            stats.note(cmds[k] + hooks, bool(names), "process:hooks", "computes" if names else "no-compute")
            for nm in names:
                computed[nm] = computed.get(nm, 0) + 1
                if computed[nm] > 1:
                    out.append(Violation("C10", "materialization-computed-twice",
                                         f"{cmds[k]}: the rows of materialization {nm} were computed again: {hooks[:300]}"))
        if c[0] == "attach":
            root = last.get(c[1])
            if root is None:
                continue
            is_marker = root[0] in ("mat", "xfer") or root[0].startswith("select")
            has = root[0] == "select+" or (root[0] in ("mat", "xfer") and
                                           (root[1].endswith("+") or root[1].strip("#+") in paid))
            expect_ok = is_marker and not has
            if root[0].startswith("select"):
                # several pool names may denote one Select object; its payload state is tracked by the
                # model (allocation ids) and compared through the correspondence, not re-derived here
                stats.note(cmds[k] + last_text[c[1]], True, "attach:select-marker")
                if not (il.startswith("ok attached") or il.startswith("err TypeError")):
                    out.append(Violation("C10", "attach-failed-with-unexpected-error", f"{cmds[k]}: {il}"))
                continue
            stats.note(cmds[k] + last_text[c[1]], is_marker, "attach:" + ("marker" if is_marker else "non-marker"),
                       "has-payload" if has else "empty")
            if expect_ok and not il.startswith("ok"):
                out.append(Violation("C10", "attach-to-empty-marker-rejected", f"{cmds[k]}: {il}; {last_text[c[1]]}"))
            if not expect_ok and not il.startswith("err TypeError"):
                out.append(Violation("C10", "attach-not-rejected-with-TypeError", f"{cmds[k]}: {il}; {last_text[c[1]]}"))
        if c[0] == "exec" and il.startswith("ok rows"):
            tree = last.get(c[1])
            if tree is None:
                continue
            # leaves reachable without crossing a marker that already holds a payload
            allowed: Counter = Counter()

            def go(x):
                h = x[0]
                if h == "leaf":
                    allowed[x[1]] += 1
                elif h == "u":
                    go(x[3])
                elif h == "b":
                    go(x[3])
                    go(x[4])
                elif h in ("mat", "xfer"):
                    # cached according to the implementation's own bookkeeping, or according to the
                    # model (an executed materialization that was NOT cached must not buy a second
                    # evaluation of its upstream tree)
                    if x[1].strip("#+") in paid or (h == "mat" and x[1].strip("#+") in paid_m):
                        return
                    go(x[3])
                elif h == "select+":
                    return
                elif h.startswith("select"):
                    go(x[-1])

            go(tree)
            # a cached marker whose payload object IS a leaf's row container (the processor attached the
            # leaf's own payload): reading that cache is an iteration of the leaf, not a re-evaluation
            sh = (field(il, "shared") or "[]").strip("[]")
            for leaf in (sh.split(",") if sh else []):
                allowed[leaf] += 1
            t = field(il, "pulls_exec").strip("[]")
            pe = Counter(t.split(",")) if t else Counter()
            kinds = {kd for kd, _ in tree_nodes(tree)}
            cached = any(kd == "mat" and n[1].strip("#+") in paid for kd, n in tree_nodes(tree))
            stats.note(last_text[c[1]] + il, "mat" in kinds, "exec", "cached" if cached else "cold")
            for leaf, cnt in pe.items():
                if cnt > allowed.get(leaf, 0):
                    out.append(Violation("C10", "materialized-upstream-evaluated-again",
                                         f"{cmds[k]}: {leaf} pulled {cnt} times at execute, {allowed.get(leaf, 0)} "
                                         f"uncached occurrences; {last_text[c[1]]}"))
            sem = sem_line_for(ctx, k, c[1])
            if sem is not None and field(sem, "kd") == "T" and field(model[k], "det") != "F":
                want, got = field(sem, "rows"), field(il, "rows")
                ok = (got == want) if field(model[k], "order") == "exact" else (_ms(got) == _ms(want))
                if not ok:
                    out.append(Violation("C10", "cached-rows-differ-from-direct-evaluation",
                                         f"{cmds[k]}: {got} vs {want}; {last_text[c[1]]}"))
    return out


# ------------------------------------------------------------------------------ C16
def oracle_C16(cmds, impl, model, stats: Stats):
    ctx = Ctx(cmds, impl, model)
    out = []
    for k, c in enumerate(ctx.cmds):
        if c[0] != "diag":
            continue
        il = impl[k]
        m = ctx.meta.get(c[1])
        sem = sem_line_for(ctx, k, c[1])
        if m is None or sem is None or not il.startswith("ok doomed"):
            continue
        doomed, msgs = field(il, "doomed"), int(field(il, "messages"))
        if field(sem, "kd") != "T":
            # "has rows" is only well defined under the documented key contract (key-based vs row-based
            # deduplication differ otherwise); the correspondence still compares the verdicts
            stats.note(cmds[k] + m["tree_text"], False, "not-key-determined")
            continue
        rows = field(sem, "tree")       # the content of the relation that was diagnosed
        empty = rows == "[]"
        kinds = sorted({kd for kd, _ in tree_nodes(m["tree"])} - {"select"})
        stats.note(cmds[k] + m["tree_text"] + rows, len(kinds) >= 2, "mode:" + c[2],
                   "doomed" if doomed == "T" else "not-doomed", "empty" if empty else "nonempty")
        if doomed == "T" and not empty:
            out.append(Violation("C16", "nonempty-relation-reported-doomed",
                                 f"{cmds[k]}: rows {rows}; tree {m['tree_text']}"))
        if c[2] == "truthful" and doomed == "F" and empty:
            out.append(Violation("C16", "empty-relation-not-reported-doomed-with-truthful-executor",
                                 f"{cmds[k]}: tree {m['tree_text']}"))
        if doomed == "T" and msgs < 1:
            out.append(Violation("C16", "doomed-verdict-without-message", f"{cmds[k]}: tree {m['tree_text']}"))
    return out


# ------------------------------------------------------------------------------ C20
EXPECTED_ERRORS = {
    "missing-column": {"ColumnError"},
    "tag-exists": {"ColumnError"},
    "chain-columns": {"ColumnError"},
    "engine-mismatch": {"EngineError"},
    "unsupported-expression": {"EngineError"},
    "slice-negative": {"ValueError"},
    "slice-reversed": {"ValueError"},
    "slice-step": {"TypeError"},
}


def op_required_sx(op) -> set[str]:
    """Required columns of an operation request in protocol syntax."""
    from gen import op_required_cols
    return op_required_cols(op)


def oracle_C20(cmds, impl, model, stats: Stats):
    ctx = Ctx(cmds, impl, model)
    out = []
    shows: dict[str, str] = {}
    for k, c in enumerate(ctx.cmds):
        if c[0] in BUILD_CMDS and ctx.meta_at[k] is not None:
            shows[c[1]] = strip_marks(ctx.meta_at[k]["tree_text"]) + " | " + ctx.meta_at[k]["cols"]
        if c[0] == "illformed":
            # (illformed KIND) announces that the NEXT command is the injected ill-formed request
            kind = c[1]
            il = impl[k + 1]
            nxt = ctx.cmds[k + 1]
            # confirm on the REAL relations that the request is ill-formed in the announced way
            # (the generator tracks engines/columns only approximately)
            ops = [ctx.meta.get(x) for x in ([nxt[2]] if nxt[0] == "apply" else [nxt[2], nxt[3]])]
            if any(o is None for o in ops):
                continue
            really = True
            if kind == "engine-mismatch":
                really = ops[0]["eng"] != ops[1]["eng"]
            elif kind == "chain-columns":
                really = ops[0]["eng"] == ops[1]["eng"] and ops[0]["colset"] != ops[1]["colset"]
            elif kind == "missing-column":
                if nxt[0] == "apply":
                    need = op_required_sx(nxt[3])
                    really = not need <= ops[0]["colset"]
                elif nxt[0] == "joinon":
                    # explicit common columns: the fixed operand has them all, the target lacks one
                    common = set(nxt[4])
                    really = common <= ops[1]["colset"] and not common <= ops[0]["colset"]
                elif nxt[0] == "joinb":
                    # the binary operation applied directly, common columns given: its predicate needs a column
                    # neither operand has
                    from gen import G
                    common = set(nxt[4])
                    really = common <= ops[0]["colset"] and common <= ops[1]["colset"] and \
                        not G.pred_cols(nxt[5]) <= (ops[0]["colset"] | ops[1]["colset"])
                else:
                    from gen import G
                    really = not G.pred_cols(nxt[4]) <= (ops[0]["colset"] | ops[1]["colset"])
            elif kind == "tag-exists":
                really = nxt[3][1] in ops[0]["colset"]
            elif kind == "unsupported-expression":
                acc: set[str] = set()
                sups_in(nxt[4] if nxt[0] == "join" else nxt[3], acc)
                ek = engine_kinds(ctx).get(ops[0]["eng"], "?")
                really = bool(acc) and ek not in acc
                if nxt[0] == "join":
                    # a join inside one engine whose predicate that engine does not support
                    really = really and ops[0]["eng"] == ops[1]["eng"]
            if not really:
                stats.note(cmds[k + 1], False, "not-actually-ill-formed:" + kind)
                continue
            stats.note(cmds[k + 1], True, "kind:" + kind, "opts:" + (proto.sx(ctx.cmds[k + 1][-1]) if ctx.cmds[k + 1][0] in ("apply", "joinp") else ctx.cmds[k + 1][0]))
            if il.startswith("ok "):
                out.append(Violation("C20", f"ill-formed-request-accepted:{kind}", f"{cmds[k + 1]}: {il[:200]}"))
            elif il.startswith("err "):
                err = il.split()[1]
                expected = set(EXPECTED_ERRORS[kind])
                if kind == "unsupported-expression" and nxt[0] == "join":
                    # an operand carrying a sort without a slice is rejected first, with the documented
                    # row-order-loss error: the request is ill-formed in two ways, either error is right
                    expected.add("RelationalAlgebraError")
                if err not in expected:
                    out.append(Violation("C20", f"ill-formed-request-wrong-error:{kind}:{err}",
                                         f"{cmds[k + 1]}: raised {err}, documented {sorted(EXPECTED_ERRORS[kind])}"))
        if c[0] == "show" and impl[k].startswith("ok "):
            txt = impl[k][3:]
            tree = txt.split(" | ")[0]
            cols = re.search(r"cols=(\S+)", txt).group(1)
            now = strip_marks(tree) + " | " + cols
            if c[1] in shows and shows[c[1]] != now:
                out.append(Violation("C20", "rejected-call-changed-existing-relation",
                                     f"{c[1]}: was {shows[c[1]]}, now {now}"))
    return out


ORACLES.update({"C03": oracle_C03, "C07": oracle_C07, "C10": oracle_C10, "C14": oracle_C14, "C15": oracle_C15,
                "C16": oracle_C16, "C20": oracle_C20})


# ------------------------------------------------------------------------------ C17
def select_coherence(sel, lcols):
    """Check one printed Select node; returns None or a (kind, detail) problem."""
    # (select[+] (sort ...) proj dedup start stop compound SKIP TARGET)
    sort_slot, proj_slot, dedup_slot, start, stop, compound, skip, target = sel[1:9]
    skip_txt = strip_marks(proto.sx(skip))
    is_chain = isinstance(skip, list) and skip and skip[0] == "b" and skip[1][0] == "chain"
    if (compound == "T") != is_chain:
        return ("compound-flag-wrong", f"is_compound={compound}, skip target {'is' if is_chain else 'is not'} a chain")
    found = []
    x = target
    while strip_marks(proto.sx(x)) != skip_txt:
        if not (isinstance(x, list) and x and x[0] == "u"):
            return ("select-target-does-not-pass-through-skip-to",
                    f"target {proto.sx(target)} never reaches skip_to {proto.sx(skip)}")
        found.append(x)
        x = x[3]
    expected = []  # top-down
    if start != "0" or stop != "-":
        expected.append(("slice", ["slice", start, stop]))
    if dedup_slot == "T":
        expected.append(("dedup", ["dedup"]))
    if proj_slot != "-":
        expected.append(("proj", ["proj", proj_slot]))
    if len(sort_slot) > 1:
        expected.append(("sort", sort_slot))
    i = 0
    for node in found:
        op = node[1]
        while i < len(expected) and expected[i][0] != op[0]:
            # a recorded operation may be absent only if it does nothing
            kind, slot = expected[i]
            if kind == "proj":
                below = node_cols(node, lcols)
                if set(filter(None, slot[1].strip("[]").split(","))) != below:
                    return ("recorded-operation-missing", f"projection {slot[1]} missing above columns {sorted(below)}")
            else:
                return ("recorded-operation-missing", f"{kind} recorded in the Select but absent from the tree")
            i += 1
        if i >= len(expected):
            return ("unrecorded-operation-between-select-and-skip-to", f"{proto.sx(op)}")
        if proto.sx(op) != proto.sx(expected[i][1]):
            return ("recorded-operation-differs", f"tree has {proto.sx(op)}, Select records {proto.sx(expected[i][1])}")
        i += 1
    for kind, slot in expected[i:]:
        if kind == "proj":
            below = node_cols(skip, lcols)
            if set(filter(None, slot[1].strip("[]").split(","))) != below:
                return ("recorded-operation-missing", f"projection {slot[1]} missing above columns {sorted(below)}")
        else:
            return ("recorded-operation-missing", f"{kind} recorded in the Select but absent from the tree")
    return None


def oracle_C17(cmds, impl, model, stats: Stats):
    ctx = Ctx(cmds, impl, model)
    stats.corr_diffs = getattr(stats, "corr_diffs", []) + sql_correspondence(ctx, stats, cmds)
    out = []
    kinds_of = engine_kinds(ctx)
    lcols = leaf_cols(ctx)
    for k, c in enumerate(ctx.cmds):
        m = ctx.meta_at[k]
        if m is None:
            continue
        sql_rel = kinds_of.get(m["eng"]) == "sql"
        if sql_rel and c[0] in ("leaf", "doomed", "joinid", "apply", "join", "chain", "mat", "transfer"):
            if not m["tree"][0].startswith("select"):
                out.append(Violation("C17", "factory-result-not-conformed", f"{cmds[k]}: {m['tree_text']}"))
        if c[0] == "conform":
            src = ctx.meta.get(c[2])
            if src is None:
                continue
            raw = not src["tree"][0].startswith("select")
            stats.note(cmds[k] + src["tree_text"], raw, "conform:" + ("raw" if raw else "conformed"))
            if not raw and m["how"] != "same":
                out.append(Violation("C17", "conform-of-conformed-tree-returned-new-object", f"{cmds[k]}: {m['tree_text']}"))
            if not m["tree"][0].startswith("select"):
                out.append(Violation("C17", "conform-result-not-a-select", f"{cmds[k]}: {m['tree_text']}"))
        # marker coherence of every Select in the tree
        if sql_rel or c[0] == "conform":
            for kd, n in tree_nodes(m["tree"], into_skip=True):
                if kd == "select":
                    p = select_coherence(n, lcols)
                    if p is not None:
                        out.append(Violation("C17", "marker-incoherent:" + p[0], f"{cmds[k]}: {p[1]}; {m['tree_text']}"))
                        break
    # rows of conformed raw trees
    for k, name, il, ml, sem in _sql_pairs(ctx):
        m = ctx.meta.get(name)
        if m is None or sem is None or not il.startswith("ok rows0") or not ml.startswith("ok rows"):
            continue
        if field(ml, "det") != "T" or field(sem, "kd") != "T":
            continue
        rows0, want = field(il, "rows0"), field(sem, "rows")
        if _ms(rows0) != _ms(want):
            out.append(Violation("C17", "conformed-tree-rows-differ-from-direct-evaluation",
                                 f"{name}: {rows0} vs {want}; {m['tree_text']}"))
    return out


ORACLES["C17"] = oracle_C17


# ------------------------------------------------------------------------------ C09
def oracle_C09(cmds, impl, model, stats: Stats):
    ctx = Ctx(cmds, impl, model)
    stats.corr_diffs = getattr(stats, "corr_diffs", []) + sql_correspondence(ctx, stats, cmds)
    out = []
    seen_rows: dict[str, str] = {}
    for k, c in enumerate(ctx.cmds):
        il = impl[k]
        if c[0] == "hash" and il.startswith("ok "):
            stats.note(cmds[k] + il, c[1] != c[2], "hash:" + ("twins" if c[1] != c[2] else "self"))
            if field(il, "hashable") != "T":
                m = ctx.meta.get(c[1])
                out.append(Violation("C09", "relation-not-hashable", f"{cmds[k]}: {m['tree_text'] if m else ''}"))
                continue
            if field(il, "equal") != "T" or field(il, "samehash") != "T":
                ma, mb = ctx.meta.get(c[1]), ctx.meta.get(c[2])
                if ma and mb and strip_marks(ma["tree_text"]) == strip_marks(mb["tree_text"]):
                    out.append(Violation("C09", "rebuilt-relation-not-equal-or-hash-differs",
                                         f"{cmds[k]}: {il}; {ma['tree_text']}"))
        if c[0] == "snap" and il.startswith("ok changed="):
            changed = il[len("ok changed=["):-1]
            stats.note(cmds[max(0, k - 1)], True, "snap:" + ("changed" if changed else "unchanged"),
                       "after:" + ctx.cmds[max(0, k - 1)][0])
            if changed:
                out.append(Violation("C09", "existing-relation-changed:" + ctx.cmds[max(0, k - 1)][0],
                                     f"after {cmds[max(0, k - 1)]}: relations {changed} changed structure/bounds/str/hash/"
                                     f"leaf payload"))
        if c[0] == "sqlexec" and il.startswith("ok rows0"):
            if field(il, "sqlsame") != "T":
                out.append(Violation("C09", "compiling-twice-gives-different-sql", f"{cmds[k]}"))
            if model[k].startswith("ok ") and field(model[k], "det") == "T":
                key = "sql:" + c[1]
                rows = str(_ms(field(il, "rows0")))
                if key in seen_rows and seen_rows[key] != rows:
                    out.append(Violation("C09", "executing-twice-gives-different-rows", f"{cmds[k]}"))
                seen_rows[key] = rows
        if c[0] == "exec" and il.startswith("ok rows"):
            if field(il, "again") != "same":
                out.append(Violation("C09", "iterating-twice-gives-different-rows", f"{cmds[k]}"))
    return out


ORACLES["C09"] = oracle_C09
