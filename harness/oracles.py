"""Property oracles: each evaluates ONE property on the observations of the REAL library
(impl stream), using the Lean model's reference semantics (`sem`, `seqsem`, `spec=`) as the
specification.  They are independent of the model/impl correspondence diff."""
from __future__ import annotations

import hashlib
import re
from collections import Counter

import proto
from run import field

DOCUMENTED_EXEC_ERRORS = {"EngineError"}


class Violation:
    def __init__(self, prop: str, kind: str, detail: str, lines=None):
        self.prop = prop
        self.kind = kind
        self.detail = detail
        self.prog_index = -1
        self.lines = lines  # indices of the commands the violation was observed on

    def __repr__(self) -> str:
        return f"Violation({self.prop}, {self.kind}, {self.detail})"


class Stats:
    def __init__(self) -> None:
        self.evaluations = 0
        self.distinct: set[str] = set()
        self.hist: Counter = Counter()
        self.samples: list = []

    def note(self, case: str, nontrivial: bool, *tags: str) -> None:
        self.evaluations += 1
        if nontrivial:
            self.distinct.add(hashlib.sha1(case.encode()).hexdigest()[:16])
            if len(self.samples) < 5:
                self.samples.append(case[:600])
        for t in tags:
            self.hist[t] += 1

    def merge(self, other: "Stats") -> None:
        self.evaluations += other.evaluations
        self.distinct |= other.distinct
        self.hist.update(other.hist)
        self.samples.extend(other.samples[: max(0, 5 - len(self.samples))])


# ------------------------------------------------------------------------------ helpers
BUILD_CMDS = {"leaf", "doomed", "joinid", "apply", "join", "chain", "mat", "transfer", "process"}


def parse_cmd(cmd: str):
    return proto.parse_line(cmd)[0]


def parse_build_line(line: str):
    """'ok new|same TREE | cols=.. min=.. max=.. eng=.. ji=.. triv=..' -> dict or None."""
    if not line.startswith("ok "):
        return None
    m = re.match(r"ok (\S+) (.*) \| (cols=.*?)(?: \|\| .*)?$", line)
    if not m:
        return None
    how, tree, meta = m.group(1), m.group(2), m.group(3)
    d = {"how": how, "tree_text": tree, "tree": proto.parse_line(tree)[0]}
    for kv in meta.split(" "):
        k, v = kv.split("=", 1)
        d[k] = v
    d["colset"] = set(filter(None, d["cols"].strip("[]").split(",")))
    return d


def parse_rows(text: str):
    """'[{a=1,b=2};{a=3,b=4}]' -> list of dicts."""
    text = text.strip()
    assert text.startswith("[") and text.endswith("]"), text
    inner = text[1:-1]
    if not inner:
        return []
    rows = []
    for r in inner.split(";"):
        r = r.strip("{}")
        rows.append(dict(kv.split("=") for kv in r.split(",")) if r else {})
    return rows


def tree_nodes(t, into_skip=False):
    """Yield (kind, node) for every node of a printed tree (select: target only unless into_skip)."""
    if not isinstance(t, list) or not t:
        return
    h = t[0]
    if h == "leaf":
        yield ("leaf", t)
    elif h == "u":
        yield ("u:" + t[1][0], t)
        yield from tree_nodes(t[3], into_skip)
    elif h == "b":
        yield ("b:" + t[1][0], t)
        yield from tree_nodes(t[3], into_skip)
        yield from tree_nodes(t[4], into_skip)
    elif h == "mat":
        yield ("mat", t)
        yield from tree_nodes(t[3], into_skip)
    elif h == "xfer":
        yield ("xfer", t)
        yield from tree_nodes(t[3], into_skip)
    elif h.startswith("select"):
        yield ("select", t)
        if into_skip:
            yield from tree_nodes(t[-2], into_skip)
        yield from tree_nodes(t[-1], into_skip)


def leaf_counts(t) -> Counter:
    return Counter(n[1] for k, n in tree_nodes(t) if k == "leaf")


EAGER = {"u:dedup", "u:sort", "mat"}


def leaves_outside_eager(t) -> Counter:
    """Leaf occurrences that are not beneath any eager node (sort, dedup, materialization)."""
    c: Counter = Counter()

    def go(x):
        if not isinstance(x, list) or not x:
            return
        h = x[0]
        if h == "leaf":
            c[x[1]] += 1
        elif h == "u":
            if "u:" + x[1][0] in EAGER:
                return
            go(x[3])
        elif h == "b":
            go(x[3])
            go(x[4])
        elif h == "mat":
            # materialized() of an already materialized payload is that payload itself: a leaf
            # reached through marker relations only is handed through, not consumed
            y = x[3]
            while isinstance(y, list) and y and (y[0] in ("mat", "xfer") or y[0].startswith("select")):
                y = y[-1] if y[0].startswith("select") else y[3]
            if isinstance(y, list) and y and y[0] == "leaf":
                c[y[1]] += 1
            return
        elif h == "xfer":
            go(x[3])
        elif h.startswith("select"):
            go(x[-1])

    go(t)
    return c


class Ctx:
    """Per-program bookkeeping: metadata of every pool relation as reported by the real library."""

    def __init__(self, cmds, impl, model):
        self.cmds = [parse_cmd(c) for c in cmds]
        self.impl = impl
        self.model = model
        self.meta: dict[str, dict] = {}
        self.meta_at: list[dict | None] = []
        for c, line in zip(self.cmds, impl):
            m = None
            if c[0] in BUILD_CMDS:
                m = parse_build_line(line)
                if m is not None:
                    self.meta[c[1]] = m
            self.meta_at.append(m)


# ------------------------------------------------------------------------------ C01 / C06 / C18
def _exec_pairs(ctx: Ctx):
    """Yield (k, name, impl exec line, model sem line) for '(exec r)' immediately followed by '(sem r)'."""
    for k, c in enumerate(ctx.cmds):
        if c[0] == "exec" and k + 1 < len(ctx.cmds) and ctx.cmds[k + 1][0] == "sem" and ctx.cmds[k + 1][1] == c[1]:
            yield k, c[1], ctx.impl[k], ctx.model[k + 1]


def oracle_C01(cmds, impl, model, stats: Stats):
    ctx = Ctx(cmds, impl, model)
    out = []
    for k, name, il, sem in _exec_pairs(ctx):
        m = ctx.meta.get(name)
        if m is None or il == "bad-ref":
            continue
        kinds = {kd for kd, _ in tree_nodes(m["tree"])}
        tags = sorted(kinds)
        if il.startswith("err ") or il.startswith("ok exec err"):
            e = il.split()[-1]
            stats.note(m["tree_text"], False, "exec-error:" + e)
            continue  # failures to execute belong to C08
        rows = field(il, "rows")
        want = field(sem, "rows")
        kd = field(sem, "kd")
        nontrivial = len(kinds - {"leaf"}) >= 2 and rows not in ("[]",)
        if kd != "T":
            stats.note(m["tree_text"], False, "not-key-determined")
            continue
        stats.note(m["tree_text"] + rows, nontrivial, *tags)
        if rows != want:
            out.append(Violation("C01", "exec-differs-from-direct-evaluation",
                                 f"{name}: executed {rows} but direct evaluation gives {want}; tree {m['tree_text']}", [k, k + 1]))
        if field(il, "again") != "same":
            out.append(Violation("C01", "second-iteration-differs", f"{name}: tree {m['tree_text']}", [k, k + 1]))
    return out


def oracle_C06(cmds, impl, model, stats: Stats):
    ctx = Ctx(cmds, impl, model)
    out = []
    for k, c in enumerate(ctx.cmds):
        if c[0] not in ("exec", "sqlexec"):
            continue
        name = c[1]
        m = ctx.meta.get(name)
        il = impl[k]
        if m is None or not il.startswith("ok rows"):
            continue
        rows_text = field(il, "rows") or field(il, "rows0")
        rows = parse_rows(rows_text)
        n = len(rows)
        mn = int(m["min"])
        mx = None if m["max"] == "-" else int(m["max"])
        tagl = [("bounds:exact" if mx == mn else "bounds:unbounded" if mx is None else "bounds:loose"),
                "ji" if m["ji"] == "T" else "triv" if m["triv"] == "T" else "plain"]
        stats.note(m["tree_text"] + rows_text, n > 0 and len(list(tree_nodes(m["tree"]))) > 2, *tagl)
        for r in rows:
            if set(r.keys()) != m["colset"]:
                out.append(Violation("C06", "row-keys-differ-from-columns",
                                     f"{name}: row {r} vs columns {m['cols']}; tree {m['tree_text']}"))
                break
        if n < mn or (mx is not None and n > mx):
            out.append(Violation("C06", "row-count-outside-bounds",
                                 f"{name}: {n} rows, declared [{mn},{m['max']}]; tree {m['tree_text']}"))
        if m["ji"] == "T" and rows != [{}]:
            out.append(Violation("C06", "join-identity-flag-wrong", f"{name}: rows {rows_text}; tree {m['tree_text']}"))
    # join elision must keep the predicate: compared through `sem` by C02/C01 oracles
    return out


def oracle_C18(cmds, impl, model, stats: Stats):
    ctx = Ctx(cmds, impl, model)
    out = []
    for k, name, il, sem in _exec_pairs(ctx):
        m = ctx.meta.get(name)
        if m is None or not il.startswith("ok rows"):
            continue
        tree = m["tree"]
        kinds = {kd for kd, _ in tree_nodes(tree)}
        occ = leaf_counts(tree)
        lazy_only = kinds <= {"leaf", "u:calc", "u:proj", "u:sel", "u:slice", "b:chain"}

        def pulls(fieldname):
            t = field(il, fieldname).strip("[]")
            return Counter(t.split(",")) if t else Counter()

        pe, p1, p2 = pulls("pulls_exec"), pulls("pulls_iter1"), pulls("pulls_iter2")
        stats.note(m["tree_text"] + il, len(kinds) >= 3, "lazy-only" if lazy_only else "has-eager",
                   "pulled-at-exec" if pe else "no-pull-at-exec")
        if lazy_only and pe:
            out.append(Violation("C18", "execute-iterated-a-leaf-of-a-lazy-tree", f"{name}: {dict(pe)}; {m['tree_text']}"))
        for label, p in (("execute", pe), ("first iteration", p1), ("second iteration", p2)):
            for leaf, cnt in p.items():
                if cnt > occ.get(leaf, 0):
                    out.append(Violation("C18", "leaf-iterated-more-than-once-per-occurrence",
                                         f"{name}: {label} started {cnt} iterations of {leaf} "
                                         f"({occ.get(leaf, 0)} occurrences); {m['tree_text']}"))
        lazy_occ = leaves_outside_eager(tree)
        for label, p in (("first iteration", p1), ("second iteration", p2)):
            for leaf, cnt in p.items():
                if cnt > lazy_occ.get(leaf, 0):
                    out.append(Violation("C18", "eager-input-consumed-again-after-execute",
                                         f"{name}: {label} re-iterated {leaf} beneath a sort/deduplication/"
                                         f"materialization; {m['tree_text']}"))
        if field(il, "again") != "same":
            out.append(Violation("C18", "repeated-iteration-differs", f"{name}: {m['tree_text']}"))
    return out


# ------------------------------------------------------------------------------ C04
def oracle_C04(cmds, impl, model, stats: Stats):
    ctx = Ctx(cmds, impl, model)
    out = []
    for k, c in enumerate(ctx.cmds):
        if c[0] == "commute":
            il = impl[k]
            if not il.startswith("ok "):
                continue
            first, second, cur = field(il, "first"), None, None
            m = re.match(r"ok first=(.*) second=(.*) done=(\S) cur=(.*)$", il)
            first, second, done, cur = m.groups()
            pair = f"{c[1][0]}>{c[2][0]}"
            stats.note(cmds[k], first != "-", "pair:" + pair, "moved" if first != "-" else "refused",
                       "partial" if (first != "-" and done == "F") else "full")
            if first == "-" and second != cur:
                out.append(Violation("C04", "refusal-does-not-return-existing-operation",
                                     f"{cmds[k]}: second={second} cur={cur}"))
        elif c[0] == "commutesem":
            il, ml = impl[k], model[k]
            if not il.startswith("ok a="):
                continue
            kd = field(ml, "kd")
            a, b, wf = field(il, "a"), field(il, "b"), field(il, "wf")
            pair = f"{c[1][0]}>{c[2][0]}"
            if wf != "T":
                out.append(Violation("C04", f"commuted-operations-ill-formed:{pair}", f"{cmds[k]}"))
                continue
            if kd != "T":
                continue
            if a != b:
                out.append(Violation("C04", f"commutation-changes-rows:{pair}",
                                     f"{cmds[k]}: existing;new gives {a}, commuted sequence gives {b}"))
    return out


# ------------------------------------------------------------------------------ C05
def oracle_C05(cmds, impl, model, stats: Stats):
    ctx = Ctx(cmds, impl, model)
    out = []
    applies: dict[str, tuple] = {}   # name -> (target, op sexp, line index)
    execs: dict[str, int] = {}
    sems: dict[str, int] = {}
    simpl: dict[str, int] = {}
    for k, c in enumerate(ctx.cmds):
        if c[0] == "apply":
            applies[c[1]] = (c[2], c[3], k)
        elif c[0] == "exec":
            execs[c[1]] = k
        elif c[0] == "sem":
            sems[c[1]] = k
        elif c[0] == "simplify":
            simpl[proto.sx(c[1]) + proto.sx(c[2])] = k
        if c[0] != "seqsem":
            continue
        t, first, second = c[1], c[2], c[3]
        r2 = next((n for n, (tg, op, _) in reversed(list(applies.items()))
                   if op == second and tg in applies and applies[tg][0] == t and applies[tg][1] == first), None)
        if r2 is None:
            continue
        r1 = applies[r2][0]
        k1, k2 = applies[r1][2], applies[r2][2]
        a1, a2 = impl[k1], impl[k2]
        pair = f"{second[0]}-after-{first[0]}"
        ks = simpl.get(proto.sx(second) + proto.sx(first))
        sl = impl[ks] if ks is not None else "ok none"
        merged = sl != "ok none"
        stats.note(cmds[k1] + cmds[k2], merged, "pair:" + pair, "merged" if merged else "not-merged")
        if not a1.startswith("ok "):
            continue  # first operation rejected: not a merge
        if a2.startswith("err "):
            out.append(Violation("C05", f"merge-raised:{pair}:{a2.split()[1]}",
                                 f"{cmds[k2]} after {cmds[k1]} raised {a2.split()[1]}"))
            continue
        if sl.startswith("err "):
            out.append(Violation("C05", f"merge-raised:{pair}:{sl.split()[1]}", f"{cmds[ks]}"))
        ke = execs.get(r2)
        if ke is None or not impl[ke].startswith("ok rows"):
            continue
        want = field(model[k], "rows")
        kd = field(model[sems[r2]], "kd") if r2 in sems else "T"
        if kd != "T":
            continue
        got = field(impl[ke], "rows")
        if got != want:
            out.append(Violation("C05", f"merged-result-differs:{pair}",
                                 f"{cmds[k2]} after {cmds[k1]}: merged tree gives {got}, sequence gives {want}"))
    return out


# ------------------------------------------------------------------------------ C12 / C13
def oracle_C13(cmds, impl, model, stats: Stats):
    out = []
    for k, cmd in enumerate(cmds):
        c = parse_cmd(cmd)
        il = impl[k]
        if c[0] == "pred" and il.startswith("ok "):
            triv, it, restricted = field(il, "triv"), field(il, "iter"), field(il, "restricted")
            flat = re.search(r" flat=(.*?) norm=", il).group(1)
            flatval, normval = field(il, "flatval"), field(il, "normval")
            shape = c[1][0]
            stats.note(cmd, shape in ("and", "or", "not"), "shape:" + shape, "triv:" + triv,
                       "flat:" + ("F" if flat == "F" else "list"))
            if it == "err":
                continue
            if triv in ("T", "F") and it != triv:
                out.append(Violation("C13", "as_trivial-unsound", f"{cmd}: as_trivial={triv}, value {it}"))
            if flat == "F" and it != "F":
                out.append(Violation("C13", "flatten-false-unsound", f"{cmd}: flatten=False but value {it}"))
            if flat != "F" and flatval != it:
                out.append(Violation("C13", "flatten-not-equivalent", f"{cmd}: conjuncts give {flatval}, predicate {it}"))
            if normval != it:
                out.append(Violation("C13", "selection-normalisation-not-equivalent",
                                     f"{cmd}: stored predicate gives {normval}, supplied {it}"))
            if restricted != it:
                out.append(Violation("C13", "required-columns-insufficient",
                                     f"{cmd}: on the restricted row {restricted}, on the full row {it}"))
        elif c[0] == "expr" and il.startswith("ok "):
            it, restricted = field(il, "iter"), field(il, "restricted")
            stats.note(cmd, c[1][0] == "fn", "shape:expr-" + c[1][0])
            if it != "err" and restricted != it:
                out.append(Violation("C13", "required-columns-insufficient",
                                     f"{cmd}: on the restricted row {restricted}, on the full row {it}"))
    return out


def oracle_C12(cmds, impl, model, stats: Stats):
    out = []
    for k, cmd in enumerate(cmds):
        c = parse_cmd(cmd)
        il, ml = impl[k], model[k]
        if c[0] in ("pred", "expr") and il.startswith("ok ") and ml.startswith("ok "):
            it = field(il, "iter")
            spec = field(ml, "spec")
            sqlv = field(il, "sql")
            stats.note(cmd, c[1][0] not in ("plit", "lit", "ref", "pref"), "shape:" + c[1][0],
                       "sql:" + ("n/a" if sqlv is None else "ok" if not sqlv.startswith("err") else "err"))
            if it != "err" and it != spec:
                out.append(Violation("C12", "iteration-callable-differs-from-direct-evaluation",
                                     f"{cmd}: callable {it}, direct {spec}"))
            if sqlv is not None and sqlv != spec:
                kind = "sql-translation-differs-from-direct-evaluation"
                if c[0] == "pred" and "(range " in cmd:
                    kind += ":range"
                out.append(Violation("C12", kind, f"{cmd}: database {sqlv}, direct {spec}"))
    return out


ORACLES = {
    "C01": oracle_C01,
    "C04": oracle_C04,
    "C05": oracle_C05,
    "C06": oracle_C06,
    "C12": oracle_C12,
    "C13": oracle_C13,
    "C18": oracle_C18,
}


# ------------------------------------------------------------------------------ SQL: C02 / C08 / C11
def _sql_pairs(ctx: Ctx):
    for k, c in enumerate(ctx.cmds):
        if c[0] == "sqlexec":
            sem = None
            if k + 1 < len(ctx.cmds) and ctx.cmds[k + 1][0] == "sem" and ctx.cmds[k + 1][1] == c[1]:
                sem = ctx.model[k + 1]
            yield k, c[1], ctx.impl[k], ctx.model[k], sem


def _ms(text: str):
    return sorted(proto.show_row_dict(r) for r in parse_rows(text))


def sql_correspondence(ctx: Ctx, stats: Stats, cmds):
    """Model-vs-implementation comparison of `sqlexec` lines (multiset / order aware)."""
    diffs = []
    for k, name, il, ml, sem in _sql_pairs(ctx):
        if ml.startswith("unspecified"):
            continue
        if il.startswith("err compile") or ml.startswith("err compile"):
            if il != ml:
                diffs.append((k, cmds[k], il, ml))
            continue
        if il.startswith("err database") or ml.startswith("err database"):
            if not (il.startswith("err database") and ml.startswith("err database")):
                diffs.append((k, cmds[k], il, ml))
            continue
        if il.startswith("bad-") or ml.startswith("bad-"):
            if il != ml:
                diffs.append((k, cmds[k], il, ml))
            continue
        rows0, rows1, mrows = field(il, "rows0"), field(il, "rows1"), field(ml, "rows")
        det, total = field(ml, "det"), field(ml, "total")
        if det == "T":
            if not (_ms(rows0) == _ms(mrows) == _ms(rows1)):
                diffs.append((k, cmds[k], il, ml))
                continue
        if det == "T" and total == "T":
            if not (rows0 == mrows == rows1):
                diffs.append((k, cmds[k], il, ml))
    return diffs


def oracle_C02(cmds, impl, model, stats: Stats):
    ctx = Ctx(cmds, impl, model)
    out = []
    stats.corr_diffs = getattr(stats, "corr_diffs", []) + sql_correspondence(ctx, stats, cmds)
    for k, name, il, ml, sem in _sql_pairs(ctx):
        m = ctx.meta.get(name)
        if m is None or sem is None or not il.startswith("ok rows0"):
            continue
        kinds = {kd for kd, _ in tree_nodes(m["tree"])}
        det = field(ml, "det") if ml.startswith("ok ") else "?"
        kd = field(sem, "kd")
        tags = sorted(x for x in kinds if x != "select")
        if det != "T" or kd != "T":
            stats.note(m["tree_text"], False, "indeterminate" if det != "T" else "not-key-determined")
            continue
        rows0, rows1, want = field(il, "rows0"), field(il, "rows1"), field(sem, "rows")
        stats.note(m["tree_text"] + rows0, len(kinds - {"leaf", "select"}) >= 2 and rows0 != "[]", *tags)
        for label, got in (("default scan order", rows0), ("reversed scan order", rows1)):
            if _ms(got) != _ms(want):
                kind = "sql-rows-differ-from-direct-evaluation"
                if "b:join" in kinds:
                    kind += ":join"
                out.append(Violation("C02", kind,
                                     f"{name} ({label}): database returned {got}, direct evaluation gives {want}; "
                                     f"tree {m['tree_text']}"))
                break
    return out


DOCUMENTED_SQL_ERRORS = {"err compile EngineError"}


def has_nested_compound(t) -> bool:
    """Some chain node has an operand Select that directly wraps another chain."""
    for kd, n in tree_nodes(t, into_skip=True):
        if kd == "b:chain":
            for operand in (n[3], n[4]):
                if isinstance(operand, list) and operand and operand[0].startswith("select") and operand[-3] == "T":
                    return True
    return False


def oracle_C08(cmds, impl, model, stats: Stats):
    ctx = Ctx(cmds, impl, model)
    out = []
    stats.corr_diffs = getattr(stats, "corr_diffs", []) + sql_correspondence(ctx, stats, cmds)
    for k, c in enumerate(ctx.cmds):
        il = impl[k]
        if c[0] == "sqlexec":
            m = ctx.meta.get(c[1])
            if m is None:
                continue
            kinds = sorted({kd for kd, _ in tree_nodes(m["tree"], into_skip=True)} - {"select", "leaf"})
            if il.startswith("ok "):
                stats.note(m["tree_text"], len(kinds) >= 2, "sql:ok", *kinds)
                continue
            if il in DOCUMENTED_SQL_ERRORS:
                stats.note(m["tree_text"], False, "sql:needs-processor")
                continue
            if il.startswith("err "):
                phase, err = il.split()[1], il.split()[2]
                stats.note(m["tree_text"], True, f"sql:{phase}-error")
                shape = "+".join(kinds)
                kind = f"accepted-tree-fails:{phase}:{err.split(':')[0]}"
                if model[k].startswith("unspecified duplicate-from-names"):
                    kind += ":duplicate-from-name"
                elif phase == "database" and has_nested_compound(m["tree"]):
                    kind += ":nested-compound"
                out.append(Violation("C08", kind, f"{c[1]}: {il}; shape {shape}; tree {m['tree_text']}"))
        elif c[0] == "exec":
            m = ctx.meta.get(c[1])
            if m is None:
                continue
            kinds = sorted({kd for kd, _ in tree_nodes(m["tree"])} - {"leaf"})
            if il.startswith("ok rows"):
                stats.note(m["tree_text"], len(kinds) >= 2, "iter:ok", *kinds)
            elif il.startswith("err EngineError"):
                stats.note(m["tree_text"], False, "iter:documented-refusal")
            elif il.startswith("err ") or il.startswith("ok exec err"):
                err = il.split()[-1]
                out.append(Violation("C08", f"accepted-tree-fails:iteration:{err}",
                                     f"{c[1]}: {il}; tree {m['tree_text']}"))
        elif c[0] in ("apply", "join", "chain", "mat", "transfer") and il.startswith("err "):
            err = il.split()[1]
            if err in ("KeyError", "NotImplementedError", "AssertionError", "AttributeError", "ValueError"):
                # internal error at construction time (slices raise ValueError only for invalid bounds,
                # which the generators of this property never request)
                out.append(Violation("C08", f"construction-internal-error:{err}", f"{cmds[k]}"))
    return out


def oracle_C11(cmds, impl, model, stats: Stats):
    ctx = Ctx(cmds, impl, model)
    out = []
    stats.corr_diffs = getattr(stats, "corr_diffs", []) + sql_correspondence(ctx, stats, cmds)
    for k, name, il, ml, sem in _sql_pairs(ctx):
        m = ctx.meta.get(name)
        if m is None or sem is None or not il.startswith("ok rows0") or not ml.startswith("ok rows"):
            continue
        det, total, kd = field(ml, "det"), field(ml, "total"), field(sem, "kd")
        t = m["tree"]
        has_sort = t[0].startswith("select") and len(t[1]) > 1
        has_slice = t[0].startswith("select") and (t[4] != "0" or t[5] != "-")
        tags = ["sorted" if has_sort else "unsorted", "sliced" if has_slice else "unsliced",
                "total" if total == "T" else "not-total", "det" if det == "T" else "indeterminate"]
        stats.note(m["tree_text"] + il, has_sort, *tags)
        if kd != "T" or det != "T":
            continue
        rows0, rows1, want = field(il, "rows0"), field(il, "rows1"), field(sem, "rows")
        if total == "T":
            for label, got in (("default scan order", rows0), ("reversed scan order", rows1)):
                if got != want:
                    out.append(Violation("C11", "sorted-result-not-in-order",
                                         f"{name} ({label}): database returned {got}, the sort order is {want}; "
                                         f"tree {m['tree_text']}"))
                    break
        elif _ms(rows0) != _ms(want) or _ms(rows1) != _ms(want):
            out.append(Violation("C11", "slice-of-sorted-relation-wrong-rows",
                                 f"{name}: database returned {rows0} / {rows1}, expected rows {want}; "
                                 f"tree {m['tree_text']}"))
    # refusal: a sort without a slice must not be buried silently
    for k, c in enumerate(ctx.cmds):
        if c[0] in ("join", "chain", "mat") and impl[k].startswith("ok "):
            operands = [c[2]] if c[0] == "mat" else [c[2], c[3]]
            for o in operands:
                mo = ctx.meta.get(o)
                if mo is None or mo["eng"] != ctx.meta[c[1]]["eng"]:
                    continue
                t = mo["tree"]
                if t[0].startswith("select") and len(t[1]) > 1 and t[4] == "0" and t[5] == "-":
                    out.append(Violation("C11", "sort-silently-buried",
                                         f"{cmds[k]}: operand {o} carries a sort without a slice: {mo['tree_text']}"))
    return out


ORACLES.update({"C02": oracle_C02, "C08": oracle_C08, "C11": oracle_C11})
