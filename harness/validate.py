"""Validate MANIFEST.json and evidence/*.json against the given schemas (run with python3-vt)."""
import json, sys, glob, jsonschema
m = json.load(open('/verif/MANIFEST.json')); s = json.load(open('/root/.vp/MANIFEST.schema.json'))
jsonschema.validate(m, s); print("manifest valid")
es = json.load(open('/root/.vp/EVIDENCE.schema.json'))
for f in sorted(glob.glob('/verif/evidence/*.json')):
    jsonschema.validate(json.load(open(f)), es); print("valid", f)
