"""Entry point of every check:  check.py <Cxx> <quick|thorough> [--replay FILE]

Steps (DESIGN.md section 9): regenerate the translated kernel from /repo, build the Lean
obligations of the property, audit axioms, run the correspondence + property evaluation on
generated programs, search for a failing input when an obligation or the correspondence breaks,
write the evidence file, exit 0 / 1 (VIOLATION line) / 2 (infrastructure failure)."""
from __future__ import annotations

import hashlib
import json
import os
import re
import subprocess
import sys
import time
import traceback

HERE = os.path.dirname(os.path.abspath(__file__))
VERIF = os.path.dirname(HERE)
sys.path.insert(0, HERE)

import findings  # noqa: E402
import claims
import leanbuild  # noqa: E402
import oracles  # noqa: E402
import plans  # noqa: E402
import run  # noqa: E402

EVIDENCE_DIR = os.path.join(VERIF, "evidence")
REPLAY_DIR = os.path.join(VERIF, "replays")


def write_replay(prop: str, kind: str, program: str, detail: str, impl=None, model=None, extra=None) -> str:
    os.makedirs(REPLAY_DIR, exist_ok=True)
    h = hashlib.sha1((kind + "\n" + program + "\n" + detail).encode()).hexdigest()[:12]
    path = os.path.join(REPLAY_DIR, f"{prop}-{h}.prog")
    with open(path, "w") as f:
        f.write(f"# property: {prop}\n# kind: {kind}\n")
        for ln in detail.splitlines():
            f.write(f"# {ln}\n")
        if extra:
            for ln in extra.splitlines():
                f.write(f"# {ln}\n")
        f.write("# --- program (line protocol; re-run with: ./check " + prop + " --replay <this file>)\n")
        f.write(program)
        if impl is not None:
            f.write("# --- observations of the real library\n")
            for ln in impl:
                f.write("#I " + ln + "\n")
        if model is not None:
            f.write("# --- observations of the Lean model\n")
            for ln in model:
                f.write("#M " + ln + "\n")
    return path


def slice_program(program: str, detail: str) -> str:
    """Dependency slice: keep headers, the commands quoted in the violation detail or mentioning
    the relation names it cites, and (transitively) the commands defining the relations they use."""
    lines = [ln for ln in program.splitlines() if ln.strip()]
    defs: dict[str, int] = {}
    for i, ln in enumerate(lines):
        m = re.match(r"\((leaf|doomed|joinid|apply|join|chain|mat|transfer|process) (\S+)", ln)
        if m:
            defs[m.group(2)] = i
    need: set[int] = {i for i, ln in enumerate(lines) if ln.startswith(("(tags", "(engine"))}
    names = set(re.findall(r"\b[rs]\d+\b", detail))
    work = [i for i, ln in enumerate(lines) if ln in detail]
    for i, ln in enumerate(lines):
        toks = re.findall(r"\b[rs]\d+\b", ln)
        if ln.startswith(("(exec", "(sem", "(sqlexec", "(diag", "(show", "(attach", "(seqsem", "(simplify")) and \
                toks and set(toks) & names and set(toks) <= names | set(defs):
            if toks[0] in names:
                work.append(i)
    work.extend(defs[n] for n in names if n in defs)
    while work:
        i = work.pop()
        if i in need:
            continue
        need.add(i)
        for n in re.findall(r"\b[rs]\d+\b", lines[i]):
            if n in defs and defs[n] != i and defs[n] not in need:
                work.append(defs[n])
    return "\n".join(lines[i] for i in sorted(need)) + "\n"


def shrink(prop: str, program: str, kind: str, still_fails, detail: str = "") -> str:
    """Dependency slice first, then greedy line removal keeping the violation (same kind)."""
    if detail:
        cand = slice_program(program, detail)
        try:
            if still_fails(cand):
                program = cand
        except Exception:  # noqa: BLE001
            pass
    lines = [ln for ln in program.splitlines() if ln.strip()]
    if len(lines) > 25:
        return "\n".join(lines) + "\n"
    keep_prefix = sum(1 for ln in lines if ln.startswith(("(tags", "(engine")))
    i = len(lines) - 1
    budget = 60
    while i >= keep_prefix and budget > 0:
        cand = lines[:i] + lines[i + 1:]
        budget -= 1
        try:
            if still_fails("\n".join(cand) + "\n"):
                lines = cand
        except Exception:  # noqa: BLE001
            pass
        i -= 1
    return "\n".join(lines) + "\n"


def evaluate(prop: str, programs: list[str]):
    """Run both sides, return (disagreements, violations, stats, impl, model)."""
    impl = run.run_side("impl", programs)
    model = run.run_side("model", programs)
    dis = run.correspondence(programs, impl, model)
    stats = oracles.Stats()
    viols = []
    oracle = oracles.ORACLES[prop]
    for i, prog in enumerate(programs):
        cmds = [ln for ln in prog.splitlines() if ln.strip()]
        if len(impl[i]) != len(cmds) or len(model[i]) != len(cmds):
            continue
        try:
            stats.corr_diffs = []
            for v in oracle(cmds, impl[i], model[i], stats):
                v.prog_index = i
                viols.append(v)
            if stats.corr_diffs:
                lst = getattr(stats, "corr_diffs_indexed", [])
                lst.extend((d, i) for d in stats.corr_diffs[:1])
                stats.corr_diffs_indexed = lst
        except Exception as e:  # noqa: BLE001
            raise RuntimeError(f"oracle crashed on program {i}: {e}\n{traceback.format_exc()}")
    for (k, cmd, il, ml), i in getattr(stats, "corr_diffs_indexed", []):
        dis.append(run.Disagreement(i, k, cmd, il, ml))
    return dis, viols, stats, impl, model


def replay(prop: str, path: str) -> int:
    program = "".join(ln for ln in open(path) if not ln.startswith("#"))
    dis, viols, stats, impl, model = evaluate(prop, [program])
    cmds = [ln for ln in program.splitlines() if ln.strip()]
    for c, a, b in zip(cmds, impl[0], model[0]):
        print(c)
        print("   impl :", a)
        print("   model:", b)
    for d in dis:
        print("CORRESPONDENCE-DIFF", d)
    known = findings.load()
    rc = 0
    for v in viols:
        f = findings.match(known, v)
        if f:
            print(f"KNOWN-FINDING: property={v.prop} {f['what']}")
        else:
            print(f"VIOLATION property={v.prop} replay={path}  [{v.kind}] {v.detail}")
            rc = 1
    return rc


def main() -> int:
    if len(sys.argv) < 3:
        print("usage: check.py <Cxx> <quick|thorough> | <Cxx> --replay FILE")
        return 2
    prop = sys.argv[1]
    if sys.argv[2] == "--replay":
        leanbuild.ensure_driver()
        return replay(prop, sys.argv[3])
    tier = sys.argv[2]
    seed = int(os.environ.get("VERIF_SEED", "0"))
    t0 = time.time()
    plan = plans.PLANS[prop]
    known = findings.load()
    out_lines: list[str] = []
    violations: list[tuple[str, str]] = []  # (replay path, suffix)

    # ---------------------------------------------------------------- 1-3: translate, build, audit
    lb = leanbuild.build_and_audit(prop, thorough=(tier == "thorough"))
    if lb.infra_error:
        print("INFRASTRUCTURE:", lb.infra_error)
        return 2

    # ---------------------------------------------------------------- 4: correspondence + property
    programs: list[str] = []
    corpus_dir = os.path.join(HERE, "corpus")
    ncorpus = 0
    if os.path.isdir(corpus_dir):
        for fn in sorted(os.listdir(corpus_dir)):
            if fn.startswith(prop + "-") or fn.startswith("all-"):
                programs.append("".join(ln for ln in open(os.path.join(corpus_dir, fn)) if not ln.startswith("#")))
                ncorpus += 1
    custom = getattr(plan, "custom", None)
    if custom is not None:
        viols, stats, dis, ptext = custom(tier, seed)
        for v in viols:
            v.prog_index = 0
        programs = [ptext]
        impl, model = [[]], [[]]
        exhaustive, rule = False, plan.rule
    else:
        gen_programs, exhaustive, rule = plan.programs(tier, seed)
        programs.extend(gen_programs)
        dis, viols, stats, impl, model = evaluate(prop, programs)

    # search when an obligation or the correspondence broke
    broken = list(lb.broken)
    for d in dis:
        broken.append(f"correspondence: program #{d.prog_index} line {d.line_no}: {d.cmd}")
    searched = 0
    if broken and custom is None and not [v for v in viols if not findings.match(known, v)]:
        extra_programs, _, _ = plan.programs("search", seed + 7919)
        searched = len(extra_programs)
        dis2, viols2, stats2, impl2, model2 = evaluate(prop, extra_programs)
        base = len(programs)
        programs.extend(extra_programs)
        impl.extend(impl2)
        model.extend(model2)
        for v in viols2:
            v.prog_index += base
        viols.extend(viols2)
        stats.merge(stats2)

    # ---------------------------------------------------------------- 5: classify
    seen_known: set[str] = set()
    new_viols = []
    for v in viols:
        f = findings.match(known, v)
        if f is not None:
            if f["id"] not in seen_known:
                seen_known.add(f["id"])
                out_lines.append(f"KNOWN-FINDING: property={prop} {f['what']}")
        else:
            new_viols.append(v)
    reported_kinds: set[str] = set()
    for v in new_viols:
        if v.kind in reported_kinds:
            continue
        reported_kinds.add(v.kind)
        prog = programs[v.prog_index]

        def still(p: str, kind=v.kind) -> bool:
            _, vs, _, _, _ = evaluate(prop, [p])
            return any(x.kind == kind and findings.match(known, x) is None for x in vs)

        if custom is not None:
            path = write_replay(prop, v.kind, prog, v.detail,
                                extra=("broken obligations: " + "; ".join(broken)) if broken else None)
            violations.append((path, ""))
            continue
        small = shrink(prop, prog, v.kind, still, v.detail) if os.environ.get("VERIF_NO_SHRINK") is None else prog
        i2 = run.run_side("impl", [small])[0]
        m2 = run.run_side("model", [small])[0]
        path = write_replay(prop, v.kind, small, v.detail, i2, m2,
                            extra=("broken obligations: " + "; ".join(broken)) if broken else None)
        violations.append((path, ""))
    if broken and not new_viols:
        # the property is no longer shown to hold, but no failing input was found
        detail = "no longer checks:\n" + "\n".join(broken)
        sample = programs[dis[0].prog_index] if dis else ""
        si = impl[dis[0].prog_index] if dis else None
        sm = model[dis[0].prog_index] if dis else None
        path = write_replay(prop, "broken-obligation", sample, detail, si, sm,
                            extra=f"failing-input search: {searched + len(programs)} programs, none violates the property")
        violations.append((path, " no-failing-input-found"))

    # ---------------------------------------------------------------- 6: evidence
    wall = time.time() - t0
    ev = {
        "property_id": prop,
        "tier": tier,
        "seed": seed,
        # the level is the one claimed in MANIFEST.json (harness/claims.py); a property claimed as
        # translation_validation may still carry supporting theorems (listed under coverage.theorems)
        "level": (claims.CHECKS[prop][0] if (claims.CHECKS[prop][0] != "proof" or lb.obligations > 0)
                  else "translation_validation"),
        "coverage": {
            "obligations": lb.obligations,
            "discharged": lb.discharged,
            "checker_cmd": lb.checker_cmd,
            "trusted_base": lb.trusted_base + plan.trusted_base,
            "theorems": lb.theorems,
            "axioms_used": lb.axioms,
            "programs": len(programs),
            "corpus_programs": ncorpus,
            "evaluations": stats.evaluations,
            "distinct_nontrivial": len(stats.distinct),
            "rule": rule + " | non-trivial = " + plan.nontrivial_rule,
            "disagreements_checked": len(dis),
            "exhaustive": bool(exhaustive),
            "histogram": dict(sorted(stats.hist.items())),
            "samples": stats.samples[:5] if stats.samples else [p for p in programs[:1]],
            "known_findings_seen": sorted(seen_known),
            "broken": broken,
        },
        "assumptions": plan.assumptions,
        "wall_s": round(wall, 2),
        "violations": len(violations),
    }
    os.makedirs(EVIDENCE_DIR, exist_ok=True)
    with open(os.path.join(EVIDENCE_DIR, f"{prop}.json"), "w") as f:
        json.dump(ev, f, indent=1, sort_keys=True)

    for ln in out_lines:
        print(ln)
    print(f"{prop} {tier}: obligations {lb.discharged}/{lb.obligations}, programs {len(programs)}, "
          f"evaluations {stats.evaluations}, distinct non-trivial {len(stats.distinct)}, "
          f"correspondence diffs {len(dis)}, violations {len(violations)}, {wall:.1f}s")
    if violations:
        for path, suffix in violations:
            print(f"VIOLATION property={prop} replay={path}{suffix}")
        return 1
    return 0


if __name__ == "__main__":
    try:
        sys.exit(main())
    except subprocess.TimeoutExpired as e:
        print("INFRASTRUCTURE: timeout", e)
        sys.exit(2)
    except Exception:  # noqa: BLE001
        traceback.print_exc()
        sys.exit(2)
