"""Line-protocol syntax shared by the harness: S-expression reader and the canonical
printers that turn *real* lsst.daf.relation objects into the same text the Lean driver
prints for the corresponding model values (see lean/DafRel/Model/Codec.lean)."""
from __future__ import annotations

import dataclasses
from typing import Any


# --------------------------------------------------------------------------- S-expressions
def tokenize(s: str) -> list[str]:
    return s.replace("(", " ( ").replace(")", " ) ").split()


def parse_line(s: str) -> Any:
    toks = tokenize(s)
    stack: list[list] = [[]]
    for t in toks:
        if t == "(":
            stack.append([])
        elif t == ")":
            top = stack.pop()
            stack[-1].append(top)
        else:
            stack[-1].append(t)
    assert len(stack) == 1, s
    return stack[0]


def sx(x: Any) -> str:
    if isinstance(x, (list, tuple)):
        return "(" + " ".join(sx(y) for y in x) + ")"
    return str(x)


# --------------------------------------------------------------------------- tags
@dataclasses.dataclass(frozen=True)
class Tag:
    """ColumnTag implementation used by the harness (deterministic hash like tests.ColumnTag)."""

    qualified_name: str
    is_key: bool = True

    def __repr__(self) -> str:
        return self.qualified_name

    def __str__(self) -> str:
        return self.qualified_name

    def __hash__(self) -> int:
        return int.from_bytes(self.qualified_name.encode(), byteorder="little")


# --------------------------------------------------------------------------- printers
FN_NAMES = {"__neg__": "neg", "__add__": "add", "__sub__": "sub", "__mul__": "mul"}
PFN_NAMES = {"__eq__": "eq", "__ne__": "ne", "__lt__": "lt", "__le__": "le", "__gt__": "gt", "__ge__": "ge"}
FN_PY = {v: k for k, v in FN_NAMES.items()}
PFN_PY = {v: k for k, v in PFN_NAMES.items()}


def show_cols(cols) -> str:
    return "[" + ",".join(sorted({t.qualified_name for t in cols})) + "]"


def show_bool(b) -> str:
    return "T" if b else "F"


def show_opt(n) -> str:
    return "-" if n is None else str(n)


def show_sup(types) -> str:
    from lsst.daf.relation import iteration, sql

    if types is None:
        return "*"
    if len(types) == 1 and issubclass(types[0], iteration.Engine):
        return "iter"
    if len(types) == 1 and issubclass(types[0], sql.Engine):
        return "sql"
    return "?" + ",".join(t.__name__ for t in types)


def show_expr(e) -> str:
    from lsst.daf.relation import ColumnFunction, ColumnLiteral, ColumnReference

    match e:
        case ColumnLiteral(value=v):
            return f"(lit {v})"
        case ColumnReference(tag=t):
            return f"(ref {t.qualified_name})"
        case ColumnFunction(name=name, args=args, supporting_engine_types=sup):
            n = FN_NAMES.get(name, "o:" + name)
            return f"(fn {n} {show_sup(sup)}" + "".join(" " + show_expr(a) for a in args) + ")"
    return f"(?expr {e!r})"


def show_container(c) -> str:
    from lsst.daf.relation import ColumnExpressionSequence, ColumnRangeLiteral

    match c:
        case ColumnRangeLiteral(value=r):
            return f"(range {r.start} {r.stop} {r.step})"
        case ColumnExpressionSequence(items=items):
            return "(seq" + "".join(" " + show_expr(i) for i in items) + ")"
    return f"(?container {c!r})"


def show_pred(p) -> str:
    from lsst.daf.relation import (
        ColumnInContainer,
        LogicalAnd,
        LogicalNot,
        LogicalOr,
        PredicateFunction,
        PredicateLiteral,
        PredicateReference,
    )

    match p:
        case PredicateLiteral(value=v):
            return f"(plit {show_bool(v)})"
        case PredicateReference(tag=t):
            return f"(pref {t.qualified_name})"
        case PredicateFunction(name=name, args=args, supporting_engine_types=sup):
            n = PFN_NAMES.get(name, "o:" + name)
            return f"(pfn {n} {show_sup(sup)}" + "".join(" " + show_expr(a) for a in args) + ")"
        case LogicalNot(operand=o):
            return f"(not {show_pred(o)})"
        case LogicalAnd(operands=ops):
            return "(and" + "".join(" " + show_pred(o) for o in ops) + ")"
        case LogicalOr(operands=ops):
            return "(or" + "".join(" " + show_pred(o) for o in ops) + ")"
        case ColumnInContainer(item=item, container=c):
            return f"(in {show_expr(item)} {show_container(c)})"
    return f"(?pred {p!r})"


def show_term(t) -> str:
    return f"(term {show_expr(t.expression)} {'asc' if t.ascending else 'desc'})"


def show_terms(terms) -> str:
    return " ".join(show_term(t) for t in terms)


def show_uop(op) -> str:
    from lsst.daf.relation import (
        Calculation,
        Deduplication,
        Identity,
        PartialJoin,
        Projection,
        Selection,
        Slice,
        Sort,
    )

    match op:
        case Calculation(tag=tag, expression=e):
            return f"(calc {tag.qualified_name} {show_expr(e)})"
        case Deduplication():
            return "(dedup)"
        case Identity():
            return "(identity)"
        case Projection(columns=c):
            return f"(proj {show_cols(c)})"
        case Selection(predicate=p):
            return f"(sel {show_pred(p)})"
        case Slice(start=s, stop=e):
            return f"(slice {s} {show_opt(e)})"
        case Sort(terms=ts):
            return f"(sort {show_terms(ts)})"
        case PartialJoin():
            return "(pjoin)"
    return f"(?uop {op!r})"


def show_bop(op) -> str:
    from lsst.daf.relation import Chain, Join
    from lsst.daf.relation._binary_operation import IgnoreOne

    match op:
        case Chain():
            return "(chain)"
        case Join(predicate=p, min_columns=mn, max_columns=mx):
            return f"(join {show_pred(p)} {show_cols(mn)} {'-' if mx is None else show_cols(mx)})"
        case IgnoreOne(ignore_lhs=il):
            return f"(ignore {show_bool(il)})"
    return f"(?bop {op!r})"


class Serials:
    """Identity of locked / payload-holding nodes: first-seen serial numbers (post-order)."""

    def __init__(self) -> None:
        self.next = 1
        self.by_id: dict[int, int] = {}
        self.keep: list[Any] = []  # keep objects alive so that id() is never reused

    def of(self, obj) -> int:
        k = id(obj)
        if k not in self.by_id:
            self.by_id[k] = self.next
            self.next += 1
            self.keep.append(obj)
        return self.by_id[k]


def show_rel(r, ser: Serials, engines: dict[int, str]) -> str:
    from lsst.daf.relation import (
        BinaryOperationRelation,
        LeafRelation,
        Materialization,
        Transfer,
        UnaryOperationRelation,
    )
    from lsst.daf.relation.sql import Select

    def eng(e) -> str:
        return engines.get(id(e), "e?")

    match r:
        case LeafRelation():
            ser.of(r)
            return f"(leaf {r.name} {eng(r.engine)})"
        case UnaryOperationRelation(operation=op, target=t):
            return f"(u {show_uop(op)} {show_cols(r.columns)} {show_rel(t, ser, engines)})"
        case BinaryOperationRelation(operation=op, lhs=lhs, rhs=rhs):
            ls = show_rel(lhs, ser, engines)
            rs = show_rel(rhs, ser, engines)
            return f"(b {show_bop(op)} {show_cols(r.columns)} {ls} {rs})"
        case Materialization(target=t, name=name):
            ts = show_rel(t, ser, engines)
            mark = "+" if (r.payload is not None and not isinstance(ser.of(r), str)) else ""
            return f"(mat #{ser.of(r)}{mark} {name} {ts})"
        case Transfer(target=t, destination=d):
            ts = show_rel(t, ser, engines)
            mark = "+" if (r.payload is not None and not isinstance(ser.of(r), str)) else ""
            return f"(xfer #{ser.of(r)}{mark} {eng(d)} {ts})"
        case Select():
            ks = show_rel(r.skip_to, ser, engines)
            ts = show_rel(r.target, ser, engines)
            proj = "-" if r.projection is None else show_cols(r.projection.columns)
            return (
                f"(select{'+' if r.payload is not None else ''} (sort {show_terms(r.sort.terms)}) {proj} "
                f"{show_bool(r.deduplication is not None)} {r.slice.start} {show_opt(r.slice.stop)} "
                f"{show_bool(r.is_compound)} {ks} {ts})"
            )
    return f"(?rel {type(r).__name__})"


def show_meta(r, engines: dict[int, str]) -> str:
    return (
        f"cols={show_cols(r.columns)} min={r.min_rows} max={show_opt(r.max_rows)} "
        f"eng={engines.get(id(r.engine), 'e?')} ji={show_bool(r.is_join_identity)} triv={show_bool(r.is_trivial)}"
    )


def show_row(row) -> str:
    return "{" + ",".join(sorted(f"{k.qualified_name}={int(v)}" for k, v in row.items())) + "}"


def show_rows(rows) -> str:
    return "[" + ";".join(show_row(r) for r in rows) + "]"


def show_row_dict(r: dict) -> str:
    return "{" + ",".join(sorted(f"{k}={v}" for k, v in r.items())) + "}"
