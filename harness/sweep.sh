#!/bin/sh
# Run every claimed check's quick tier for several seeds; print only failures.   usage: sweep.sh "1 2 3" [tier]
cd "$(dirname "$0")/.." || exit 2
SEEDS=${1:-"1 2 3"}
TIER=${2:-quick}
for p in $(python3 -c "import json;print(' '.join(c['property_id'] for c in json.load(open('MANIFEST.json'))['checks']))"); do
  for s in $SEEDS; do
    out=$(VERIF_SEED=$s ./check $p $TIER 2>&1); rc=$?
    if [ $rc -ne 0 ]; then echo "FAIL $p seed=$s rc=$rc"; echo "$out" | grep -v KNOWN | tail -3; fi
  done
done
echo "sweep done"
