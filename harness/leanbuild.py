"""Build the Lean obligations of one property and audit them.

* regenerates `lean/DafRel/Gen/*.lean` from /repo's working tree (harness/extract.py),
* `lake build` the driver and `DafRel.Props.<Cxx>` (serialised with a file lock),
* checks every theorem listed in lean/obligations.json: present, statement hash unchanged,
  `#print axioms` within {propext, Classical.choice, Quot.sound}, no sorry/admit/axiom/
  native_decide/bv_decide/implemented_by/unsafe/maxHeartbeats 0 in the sources,
* thorough tier: `leanchecker` re-checks the compiled property module.
A failing obligation is *reported* (LB.broken); the caller then searches for a failing input."""
from __future__ import annotations

import fcntl
import hashlib
import json
import os
import re
import subprocess

HERE = os.path.dirname(os.path.abspath(__file__))
VERIF = os.path.dirname(HERE)
LEAN = os.path.join(VERIF, "lean")
OBLIGATIONS = os.path.join(LEAN, "obligations.json")
ALLOWED_AXIOMS = {"propext", "Classical.choice", "Quot.sound"}
FORBIDDEN = re.compile(r"\b(sorry|admit|native_decide|bv_decide|implemented_by|unsafe)\b|^\s*axiom\s|maxHeartbeats\s+0\b")


class LB:
    def __init__(self) -> None:
        self.obligations = 0
        self.discharged = 0
        self.broken: list[str] = []
        self.theorems: list[str] = []
        self.axioms: list[str] = []
        self.checker_cmd = ""
        self.trusted_base: list[str] = []
        self.infra_error: str | None = None
        self.unrelated: list[str] = []   # translation problems in generated modules this property does not use


def _lake(args: list[str], timeout=3000) -> subprocess.CompletedProcess:
    return subprocess.run(["lake", *args], cwd=LEAN, capture_output=True, text=True, timeout=timeout)


class _Lock:
    def __enter__(self):
        self.f = open(os.path.join(LEAN, ".build.lock"), "w")
        fcntl.flock(self.f, fcntl.LOCK_EX)
        return self

    def __exit__(self, *a):
        fcntl.flock(self.f, fcntl.LOCK_UN)
        self.f.close()


def ensure_driver() -> None:
    with _Lock():
        r = _lake(["build", "driver"])
        if r.returncode != 0:
            raise RuntimeError("driver build failed:\n" + r.stdout[-3000:] + r.stderr[-2000:])


def strip_comments(src: str) -> str:
    # remove /- ... -/ (nested not handled beyond one level) and -- comments
    src = re.sub(r"/-.*?-/", lambda m: "\n" * m.group(0).count("\n"), src, flags=re.S)
    src = re.sub(r"--[^\n]*", "", src)
    return src


def theorem_statements(path: str) -> dict[str, str]:
    """name -> normalised statement text (between `theorem name` and the `:=` that starts the proof)."""
    src = strip_comments(open(path).read())
    out: dict[str, str] = {}
    ns_stack: list[str] = []
    pos = 0
    token = re.compile(r"^\s*(namespace\s+(\S+)|end\s+(\S+)|(?:private\s+|protected\s+)?theorem\s+(\S+))", re.M)
    for m in token.finditer(src):
        if m.group(2):
            ns_stack.append(m.group(2))
        elif m.group(3):
            if ns_stack and ns_stack[-1].split(".")[-1] == m.group(3).split(".")[-1]:
                ns_stack.pop()
        elif m.group(4):
            name = ".".join(ns_stack + [m.group(4)])
            rest = src[m.end():]
            end = re.search(r":=\s*(by\b|fun\b|\n|⟨|\()", rest)
            stmt = rest[: end.start()] if end else rest[:400]
            out[name] = " ".join(stmt.split())
        pos = m.end()
    return out


def theorem_line_ranges(path: str) -> list[tuple[int, str]]:
    out = []
    for i, ln in enumerate(open(path), 1):
        m = re.match(r"\s*(?:private\s+|protected\s+)?(?:theorem|lemma|def|example|instance)\s+(\S+)", ln)
        if m:
            out.append((i, m.group(1)))
    return out


def locate(path: str, line: int) -> str:
    name = "?"
    try:
        for start, n in theorem_line_ranges(path):
            if start <= line:
                name = n
            else:
                break
    except OSError:
        pass
    return name


def stmt_hash(s: str) -> str:
    return hashlib.sha256(s.encode()).hexdigest()[:16]


SPEC_FILES = ["DafRel/Model/Sem.lean", "DafRel/Spec/Preds.lean", "DafRel/Spec/History.lean",
              "DafRel/Spec/Commute.lean", "DafRel/Spec/Backtrack.lean", "DafRel/Spec/Select.lean", "DafRel/Spec/SqlCompile.lean", "DafRel/Spec/Processor.lean"]


def spec_hashes() -> dict[str, str]:
    """Hashes of the specification files (reference semantics and the predicates/definitions that
    theorem statements are written in): a statement can also be weakened by changing these."""
    out = {}
    for rel in SPEC_FILES:
        path = os.path.join(LEAN, rel)
        if os.path.exists(path):
            out[rel] = stmt_hash(" ".join(strip_comments(open(path).read()).split()))
    return out


def parse_errors(output: str) -> list[str]:
    errs = []
    for m in re.finditer(r"error: (\S+?\.lean):(\d+):(\d+): (.*)", output):
        path, line, _, msg = m.groups()
        full = os.path.join(LEAN, path)
        errs.append(f"{path}:{line} in `{locate(full, int(line))}`: {msg[:160]}")
    return errs


def load_obligations() -> dict:
    if os.path.exists(OBLIGATIONS):
        return json.load(open(OBLIGATIONS))
    return {}


def gen_modules_of(prop: str) -> set[str]:
    """Names of the generated modules (`DafRel/Gen/<name>.lean`) in the import closure of `Props/<prop>.lean`:
    a translation problem concerns a property only if one of its theorems depends on the generated code."""
    seen: set[str] = set()
    stack = [f"DafRel.Props.{prop}"]
    while stack:
        m = stack.pop()
        if m in seen:
            continue
        seen.add(m)
        path = os.path.join(LEAN, *m.split(".")) + ".lean"
        if os.path.exists(path):
            stack += re.findall(r"^import (DafRel\.\S+)", open(path).read(), re.M)
    return {m.split(".")[-1] for m in seen if m.startswith("DafRel.Gen.")}


def run_extract(lb: LB, prop: str | None = None) -> None:
    ext = os.path.join(HERE, "extract.py")
    if not os.path.exists(ext):
        return
    r = subprocess.run(["/venv/bin/python", ext], capture_output=True, text=True, timeout=600)
    if r.returncode != 0:
        lb.infra_error = "translator crashed: " + r.stderr[-1500:]
        return
    relevant = gen_modules_of(prop) if prop else None
    for ln in r.stdout.splitlines():
        if ln.startswith("UNTRANSLATABLE "):
            what = ln[len("UNTRANSLATABLE "):]
            m = re.match(r"\[(\w+)\] ", what)
            if m and relevant is not None and m.group(1) not in relevant:
                lb.unrelated.append(what)     # recorded in the evidence, not a broken obligation of this property
                continue
            lb.broken.append("translator: " + what)


def build_and_audit(prop: str, thorough: bool = False) -> LB:
    lb = LB()
    lb.trusted_base = [
        "Lean 4.33.0 kernel",
        "axioms allowed: propext, Classical.choice, Quot.sound (audited with #print axioms on every run)",
        "harness/extract.py (Python AST -> PyLite Lean terms) and the PyLite value semantics in lean/DafRel/PyLite.lean",
    ]
    with _Lock():
        run_extract(lb, prop)
        if lb.infra_error:
            return lb
        r = _lake(["build", "driver"])
        if r.returncode != 0:
            errs = parse_errors(r.stdout + r.stderr)
            if errs and all("DafRel/Gen/" in e for e in errs):
                lb.broken.extend("generated code does not compile: " + e for e in errs)
            else:
                lb.infra_error = "model/driver build failed:\n" + "\n".join(errs or [r.stdout[-2000:]])
                return lb
        obl = load_obligations().get(prop, [])
        lb.obligations = len(obl)
        lb.theorems = [o["name"] for o in obl]
        props_file = os.path.join(LEAN, "DafRel", "Props", f"{prop}.lean")
        if not obl or not os.path.exists(props_file):
            lb.checker_cmd = "(no Lean obligations registered for this property)"
            return lb
        module = f"DafRel.Props.{prop}"
        lb.checker_cmd = f"cd lean && lake build {module} && lake env lean DafRel/Audit/{prop}.lean  # #print axioms"
        r = _lake(["build", module])
        build_ok = r.returncode == 0
        build_errs = parse_errors(r.stdout + r.stderr)
        # --- specification files unchanged?
        want = load_obligations().get("__spec__", {})
        got = spec_hashes()
        for rel, h in want.items():
            if got.get(rel) != h:
                lb.infra_error = (f"specification file {rel} differs from lean/obligations.json (__spec__); "
                                  "re-register deliberately with `leanbuild.py register-spec`")
                return lb
        # --- statements unchanged?
        stmts = theorem_statements(props_file)
        bad_names = set()
        for o in obl:
            short = o["name"]
            if short not in stmts:
                lb.infra_error = f"obligation {short} missing from {props_file} (theorems must not be removed)"
                return lb
            if stmt_hash(stmts[short]) != o["hash"]:
                lb.infra_error = (f"statement of {short} differs from lean/obligations.json "
                                  f"(got {stmt_hash(stmts[short])}); theorems must not be silently weakened")
                return lb
        # --- forbidden constructs
        for root, _, files in os.walk(os.path.join(LEAN, "DafRel")):
            for fn in files:
                if fn.endswith(".lean") and "/Audit" not in root:
                    src = strip_comments(open(os.path.join(root, fn)).read())
                    for i, ln in enumerate(src.splitlines(), 1):
                        if FORBIDDEN.search(ln):
                            lb.broken.append(f"forbidden construct in {fn}:{i}: {ln.strip()[:80]}")
        if not build_ok:
            failing_in_props = set()
            for e in build_errs:
                lb.broken.append("lake build: " + e)
                m = re.match(rf"DafRel/Props/{prop}\.lean:\d+ in `(\S+)`", e)
                if m:
                    failing_in_props.add(m.group(1))
            if failing_in_props and all(f"DafRel/Props/{prop}.lean" in e for e in build_errs):
                bad_names = {o["name"] for o in obl if o["name"].split(".")[-1] in failing_in_props}
            else:
                bad_names = {o["name"] for o in obl}
            if not build_errs:
                lb.broken.append("lake build failed: " + (r.stdout + r.stderr)[-500:])
            lb.discharged = lb.obligations - len(bad_names)
            return lb
        # --- axioms
        os.makedirs(os.path.join(LEAN, "DafRel", "Audit"), exist_ok=True)
        audit = os.path.join(LEAN, "DafRel", "Audit", f"{prop}.lean")
        with open(audit, "w") as f:
            f.write(f"import {module}\n")
            for o in obl:
                f.write(f"#print axioms {o['name']}\n")
        r = subprocess.run(["lake", "env", "lean", audit], cwd=LEAN, capture_output=True, text=True, timeout=1800)
        text = r.stdout + r.stderr
        used: set[str] = set()
        ok_names = set()
        for o in obl:
            n = o["name"]
            m = re.search(r"'" + re.escape(n) + r"' depends on axioms: \[(.*?)\]", text, re.S)
            if m:
                ax = {a.strip() for a in m.group(1).split(",") if a.strip()}
                used |= ax
                extra = ax - ALLOWED_AXIOMS
                if extra:
                    lb.broken.append(f"{n} depends on non-standard axioms {sorted(extra)}")
                else:
                    ok_names.add(n)
            elif re.search(r"'" + re.escape(n) + r"' does not depend on any axioms", text):
                ok_names.add(n)
            else:
                lb.broken.append(f"#print axioms gave no answer for {n}: {text[-300:]}")
        lb.axioms = sorted(used)
        lb.discharged = len(ok_names)
        if thorough:
            r = subprocess.run(["lake", "env", "leanchecker", module], cwd=LEAN, capture_output=True, text=True,
                               timeout=3000)
            lb.checker_cmd += f" && lake env leanchecker {module}"
            if r.returncode != 0:
                lb.broken.append("leanchecker rejected " + module + ": " + (r.stdout + r.stderr)[-300:])
    return lb


def update_obligations(prop: str, names: list[str]) -> None:
    """Developer helper: (re)register the theorem names of a property with their statement hashes."""
    props_file = os.path.join(LEAN, "DafRel", "Props", f"{prop}.lean")
    stmts = theorem_statements(props_file)
    data = load_obligations()
    data[prop] = [{"name": n, "hash": stmt_hash(stmts[n]), "statement": stmts[n]} for n in names]
    with open(OBLIGATIONS, "w") as f:
        json.dump(data, f, indent=1, sort_keys=True)


if __name__ == "__main__":
    import sys

    if sys.argv[1] == "register":
        prop = sys.argv[2]
        props_file = os.path.join(LEAN, "DafRel", "Props", f"{prop}.lean")
        names = sys.argv[3:] or [n for n in theorem_statements(props_file)]
        update_obligations(prop, names)
        print(f"registered {len(names)} theorems for {prop}")
    elif sys.argv[1] == "register-spec":
        data = load_obligations()
        data["__spec__"] = spec_hashes()
        with open(OBLIGATIONS, "w") as f:
            json.dump(data, f, indent=1, sort_keys=True)
        print("registered spec hashes:", data["__spec__"])
