#!/bin/sh
# Re-run every stored seeded change against the checks recorded in its meta.json; print a table.
cd "$(dirname "$0")/.." || exit 2
# optional argument: a glob selecting the stored changes (default: all of them)
for d in ${1:-seeded/*/}; do
  id=$(basename $d)
  checks=$(python3 -c "import json;print(' '.join(json.load(open('$d/meta.json'))['caught_by']))")
  res=$(harness/try_seed.sh ${d}patch.diff $checks 2>&1 | grep '^==' | sed -e 's/^== \(C[0-9]*\) rc=1: VIOLATION.*no-failing-input-found.*/\1:BROKEN-ONLY/' -e 's/^== \(C[0-9]*\) rc=1.*/\1:CAUGHT/' -e 's/^== \(C[0-9]*\) rc=0.*/\1:MISSED/' -e 's/^== \(C[0-9]*\) rc=2.*/\1:INFRA/' | tr '\n' ' ')
  echo "$id -> $res"
done
