#!/bin/sh
# Re-run every stored seeded change against the checks recorded in its meta.json; print a table.
cd "$(dirname "$0")/.." || exit 2
for d in seeded/*/; do
  id=$(basename $d)
  checks=$(python3 -c "import json;print(' '.join(json.load(open('$d/meta.json'))['caught_by']))")
  res=$(harness/try_seed.sh $d/patch.diff $checks 2>&1 | grep '^==' | sed 's/: .*VIOLATION.*no-failing-input-found/ BROKEN-ONLY/; s/: .*VIOLATION.*/ CAUGHT/; s/: C.. .*violations 0.*/ MISSED/' | tr '\n' ' ')
  echo "$id -> $res"
done
