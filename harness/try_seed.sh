#!/bin/sh
# try_seed.sh <patch file> <checks...>: apply a seeded change to /repo, run the given checks (quick), undo.
cd "$(dirname "$0")/.." || exit 2
PATCH=$(realpath "$1"); shift
# REPO=<clone> runs against a scratch clone of /repo (with its python/ first on PYTHONPATH) instead of /repo itself
REPO=${REPO:-/repo}
[ "$REPO" = /repo ] || export PYTHONPATH="$REPO/python"
git -C $REPO diff --quiet || { echo "/repo working tree not clean"; exit 2; }
SAVE=$(mktemp -d /tmp/verif-evid.XXXXXX); cp -r evidence "$SAVE"/
git -C $REPO apply "$PATCH" || { echo "patch does not apply"; exit 2; }
for p in "$@"; do
  out=$(./check $p ${TIER:-quick} 2>&1); rc=$?
  echo "== $p rc=$rc: $(echo "$out" | grep -v KNOWN | tail -1 | cut -c1-200)"
  echo "$out" | grep "^VIOLATION" | head -3
done
git -C $REPO checkout -- . ; /venv/bin/python harness/extract.py > /dev/null
# evidence/replays written while a seeded change was applied do not describe /repo: restore
rm -rf evidence; cp -r "$SAVE"/evidence . ; rm -rf "$SAVE"
