"""The table of claims that MANIFEST.json is generated from (harness/mkmanifest.py)."""

TV = "translation_validation"
CORR = ("Differential correspondence of the executable Lean model with the real library on generated programs, "
        "plus the property evaluated on the real library's observations against the model's reference semantics. ")

PR = "proof"

CHECKS = {
    "C01": (PR, "Lean 4 theorems: exec = reference semantics (all trees), factory calls preserve it (all histories) + correspondence",
            "Machine-checked for every construction history inside one iteration engine (any number of unary operations, "
            "chain, materialized) and every leaf content: the tree the factories build, executed by the engine model "
            "(dict deduplication, multi-pass sort, enumerate-based slices, payload cache, metadata short-cuts), yields "
            "exactly the rows - values, multiplicity, order - of the direct evaluation of the operation sequence; "
            "never fails; and again from any store left behind by earlier executions. " + CORR,
            "", "DESIGN.md 5/C01"),
    "C02": (PR, "Lean 4 theorems: compile_sound (the emitted SELECT, evaluated under the list semantics of SQL, returns the reference rows - mutual induction over _select_to_executable / to_payload) composed with the tree-building induction of C17 + correspondence incl. execution of every generated query on SQLite",
            "Machine-checked (Props/C02.lean, every recursion budget, no bound on nesting): (1) tree building - for EVERY "
            "construction history inside one SQL engine (leaves, any number of unary operations, chains, joins with automatic "
            "common columns and a predicate, materializations, any nesting) the tree the factories build has, in the reference "
            "semantics, exactly the rows (values, multiplicity, order) and columns of the direct evaluation of the operation "
            "sequence (sql_history_tree_sem); the same for a unary operation applied to / conform of any raw SQL tree, and for "
            "joins of Selects (projections stripped and re-applied, hidden columns guarded); (2) compilation - for every tree "
            "satisfying the invariant the engine maintains (Good), whose leaves and processed markers hold faithful payloads, "
            "the query _select_to_executable emits (SELECT list from columns_available, FROM / JOIN ... ON common columns and "
            "predicate, WHERE terms, subqueries with fresh aliases, UNION [ALL], DISTINCT, ORDER BY, OFFSET/LIMIT) evaluates "
            "under the list semantics of SQL (Model/Sql.lean: Query.eval) to exactly the rows - values, multiplicity, order - "
            "of the reference semantics (emitted_select_returns_reference_rows, emitted_payload_stands_for_reference_rows); "
            "(3) end to end - conform, compile, evaluate on a raw SQL tree, or on the tree of any construction history, returns "
            "the rows of the direct evaluation (to_executable_returns_reference_rows, sql_history_executes_to_direct_rows); "
            "table_payload_is_faithful discharges the payload hypothesis for plain tables; the tree-building induction is "
            "parametric in a predicate on leaves / processed markers / Selects (NodeInv: the engine never invents a leaf and the "
            "Selects it creates are fresh), so the SEMANTIC hypothesis - payloads stand for the rows of their relations - is "
            "stated on the INPUT tree (to_executable_returns_reference_rows_of_faithful_input). Proof (partial): what is still "
            "asked of the CONFORMED tree is the decidable check Rel.structReady (function arities, resolved joins, a DISTINCT "
            "level does not sort by a column it dropped - the one case the database leaves unspecified) - the driver evaluates "
            "that check on every sqlexec and the evidence counts how often it held; queries "
            "with a duplicated FROM name are excluded (outside the model); the list semantics of SQL itself and SQLite's "
            "acceptance of the query are modelled and validated by running every generated query on SQLite under both scan "
            "orders, not proved. " + CORR, "", "DESIGN.md 5/C02"),
    "C03": (PR, "Lean 4 theorems: backtracking_sound (induction over trees using C04/C05 + locality of widened projections), join_backtracking_sound (joins into a SQL preferred engine), apply_with_options_sound (iteration engines) and apply_on_sql_target_sound (SQL-engine targets) for every option combination + correspondence",
            "Machine-checked for the unary operation classes between iteration engines, every tree, every option "
            "combination: backtrack_unary returns a well-formed relation that has (done) or yields under the operation "
            "(not done) the content of the operation applied at the root; apply(...) with any preferred_engine/backtrack/"
            "transfer/require options returns the columns and rows (values, multiplicity, order) of the plain application, "
            "in the target's engine or (transfer=True only) the preferred one; the same for a TARGET IN A SQL ENGINE (any raw "
            "SQL tree incl. chains and joins) with a preferred engine of either family and every option combination "
            "(apply_on_sql_target_sound, via the tree-building induction of C17); back-tracking from an iteration-engine "
            "target INTO a SQL preferred engine (the operation is handed to the SQL engine's own apply below the transfer "
            "that leads there) and apply with such a preferred engine for every backtrack/require combination with "
            "transfer=False (backtracking_sound_any_preferred_engine, apply_with_sql_preferred_engine_sound), and with "
            "transfer=True without back-tracking (apply_with_transfer_to_preferred_engine_sound: the target is transferred "
            "into the preferred engine, a database conforms the new Transfer, and the operation is applied there). JOINS: "
            "join_backtracking_sound - back-tracking of a PartialJoin (common columns resolved, fixed relation in a SQL "
            "preferred engine) from any iteration-engine tree either hands the tree back (not done) or returns a well-formed "
            "relation in the tree's engine with the columns and, as a multiset (a join defines no order), the rows of joining at "
            "the root - by induction over the tree from partial_join_commute_sound (C04), _finish_apply (C05) and the SQL join "
            "factory below the transfer (C17); join_with_backtracking_sound - relation.join(fixed) end to end with its default "
            "options (target in an iteration engine, fixed relation in a database): _begin_apply resolves the common columns, a "
            "join that cannot be moved all the way is refused with EngineError (operands in different engines), so WHENEVER the "
            "call succeeds the result has the columns and the multiset of rows of the join at the root; "
            "join_with_backtracking_and_transfer_sound - the same for either value of transfer (not finished and transfer=True: "
            "the target is transferred into the database and joined there; the result then lives in the preferred engine), and "
            "join_with_every_option_sound for EVERY combination of backtrack / transfer / require_preferred_engine. Proof "
            "(partial): a Projection past a Deduplication (finding F04) is excluded by hypothesis; for joins an "
            "explicit preferred engine other than the fixed relation's and payload-holding Transfers on the way; and transfer=True "
            "COMBINED with back-tracking towards a SQL preferred engine from an iteration-engine target, are validated by correspondence + oracle. The proof attempt itself exposed three genuine defects, now repaired. " + CORR,
            "", "DESIGN.md 5/C03"),
    "C04": (PR, "Lean 4 theorems commute_sound_partial (all 49 operation-class pairs) and partial_join_commute_sound (a join past every operation class) + machine-checked counterexample for the one unsound pair + correspondence",
            "Machine-checked for every pair of unary operations with arbitrary parameters, every target column set and "
            "row list: a reported move (full or partial) yields the same rows in the same order and both reported "
            "operations are well-formed; no move => the existing operation is handed back. The single exception, "
            "Projection over Deduplication (finding F04), is excluded from the theorem and proved unsound by a concrete "
            "witness that the check replays on the implementation. PartialJoin.commute (partial_join_commute_sound): for every existing operation, fixed relation and target, a reported move of a join is complete, both operations are well-formed where they land, columns and rows are those of joining at the root - as a multiset always, as a list (order included) unless the existing operation is a Sort AND the fixed relation is the left operand (with the target as the outer operand a stable sort commutes with the expansion of each target row: isort_flatMap); a join defines no row order, and partial_join_past_sort_is_not_order_exact shows list equality is false in that one remaining case in the nested-loop reading. " + CORR,
            "", "DESIGN.md 5/C04"),
    "C05": (PR, "Lean 4 theorems (slice/sort/selection/projection merge, simplify, _finish_apply) + correspondence",
            "Machine-checked: Slice.then total and exact for all bounds, Sort.then = sequential stable sorts, "
            "simplify sound and total for every pair, _finish_apply preserves the reference semantics through any "
            "depth of re-simplification. " + CORR, "", "DESIGN.md 5/C05"),
    "C06": (PR, "Lean 4 theorem by induction over trees (metadata_truthful) + correspondence",
            "Machine-checked: columns and [min_rows,max_rows] are truthful for every well-formed tree over truthful "
            "leaves (all operations incl. join/chain), hence join-identity/trivial flags and the short-cuts keyed on "
            "them. " + CORR, "", "DESIGN.md 5/C06"),
    "C07": (PR, "Lean 4 theorems over the monadic model of Processor._process_recursive: multi_engine_process_then_execute_yields_direct_rows (operations in iteration engines, fed by transfers between iteration engines AND by transfers out of a SQL engine whose hook conforms, compiles and runs the source; chains, materializations of any subtree of the class), any number of repeated process() calls, idempotence on processed trees + correspondence + oracle on every generated multi-engine program",
            "Machine-checked (Props/C07.lean; the model of Processor.process with the two hooks instantiated the way the "
            "harness's real Processor instantiates them): for every tree of leaves, unary operations, chains, "
            "MATERIALIZATIONS OF ANY SUBTREE OF THE CLASS (directly after a transfer: the payload of the new Transfer is handed "
            "to the new Materialization and to the input's one; over re-applied operations: the hook evaluates the processed "
            "target; over a chain pruned to a leaf or Materialization: nothing is added, its payload is handed on), "
            "transfers BETWEEN different iteration engines and transfers OUT OF A SQL "
            "ENGINE whose source is a raw SQL tree over tables (unary operations, joins, chains), statically trivial "
            "transfers and materializations included, nested to any depth: whenever process succeeds the returned tree has "
            "the engine and columns of the input and executing it in its final engine yields exactly the rows - values, "
            "multiplicity, order - of the direct evaluation of the input "
            "(multi_engine_process_then_execute_yields_direct_rows), and so does every one of ANY NUMBER of repeated process() "
            "calls on the same tree (repeated_processing_yields_direct_rows); behind it an induction through the monadic model "
            "(multi_engine_processing_invariant) that composes the other properties' theorems: a hook on an iteration-engine "
            "source returns the direct rows because execute is correct (C01, generalised to trees containing processed "
            "Transfers: exec_correctM), a hook on a SQL source returns them because conform preserves rows (C17) and the "
            "emitted SELECT evaluates to the reference rows (C02, compile_sound), re-applied operations preserve rows (C05), a "
            "statically empty chain operand is dropped only when it really is empty (C06); ONLY Materializations of the input tree (never its Transfers or leaves) and nodes the "
            "Processor creates gain payloads, and no payload already stored is replaced "
            "(only_input_materializations_gain_payloads); payloads go to NEW Transfer nodes "
            "with fresh allocation ids or to Materializations of the input and hold the rows registered for the marker, no "
            "payload is ever lost. For a tree inside ONE iteration engine process returns the tree itself and creates no "
            "node (single_engine_tree_is_only_annotated, process_then_execute_yields_direct_rows - total: processing cannot "
            "fail). A relation that holds a payload, and a tree all of whose leaves and markers hold payloads, is returned "
            "as the SAME object with no hook call and no state change (processed_relation_is_left_alone, "
            "reprocessing_calls_no_hook, fully_processed_tree_is_returned_unchanged); a statically trivial Transfer gets the "
            "engine's trivial payload on a new node, the hook log unchanged (trivial_transfer_calls_no_hook), and the "
            "materialize hook runs only for a Materialization that is neither statically trivial nor already "
            "materialized on the way (materialize_hook_only_when_needed, either engine family). Proof "
            "(partial): operations or materializations INSIDE a SQL engine downstream of a transfer (transfers INTO a SQL "
            "engine), joins across engines, and Select markers in the input are validated "
            "by the correspondence and the oracle on every generated program, not proved; for SQL sources the theorem "
            "assumes faithful table payloads and the decidable check Rel.structReady on the conformed source (as C02); the "
            "multi-engine theorem is a partial-correctness statement (it assumes process returned). " + CORR, "",
            "DESIGN.md 5/C07"),
    "C08": (PR, "Lean 4 theorems: every accepted iteration-engine history executes; compile_total (the SQL engine's _select_to_executable / to_payload never fail on the trees the engine builds - mutual induction, composed with the tree-building induction of C17 whose invariant carries the compilable shape) + correspondence incl. execution of every generated query on SQLite",
            "Machine-checked (Props/C08.lean): every accepted iteration-engine history executes and iterates without any "
            "error; _finish_apply raises nothing but the documented EngineError; in the SQL engine, for every tree satisfying "
            "the invariant the engine maintains (Good - which includes the shape to_payload can handle; treeBuild_sound proves "
            "conform and every factory call preserve it) whose leaves and processed markers hold payloads, "
            "_select_to_executable and to_payload SUCCEED at every recursion budget above the tree's height: no missing-column "
            "lookup (KeyError) in a SELECT list, an ORDER BY, a WHERE term, an ON clause or a calculated column, and no "
            "unsupported-node error (sql_compile_never_fails, sql_payload_never_fails); hence conform-then-compile succeeds on "
            "every raw SQL tree and on the tree of every construction history inside one SQL engine - any number of unary "
            "operations, chains, joins, materializations (conformed_tree_compiles, accepted_sql_history_compiles). Proof "
            "(partial): that the DATABASE accepts the emitted SELECT is modelled (Query.accepts) and validated against SQLite "
            "on every generated query, not proved; the payload hypothesis is stated on the INPUT tree "
            "(conformed_tree_compiles_of_ready_input: leaves and markers of the raw tree hold payloads exposing their columns), "
            "the conformed tree only has to pass the decidable check that its joins are resolved; "
            "multi-engine trees (Processor) are validated only. " + CORR, "", "DESIGN.md 5/C08"),
    "C09": (PR, "Lean 4 theorem over the regenerated dataclass schema + fingerprint monitoring of every pool relation",
            "Machine-checked over the schema re-read from the live classes each run: every relation/operation/"
            "expression class is a frozen eq dataclass whose compared fields are hashable (proof, partial: Python-level "
            "mutation of shared objects is outside any model and is covered by monitoring: structure, columns, bounds, "
            "str, hash and leaf-payload fingerprints of EVERY pool relation before/after every command). " + CORR,
            "", "DESIGN.md 5/C09"),
    "C10": (PR, "Lean 4 theorems: attach rules, exec_frame (write-once, evaluate-once) lifted to all histories of attach/execute; Processor.process write-once for one call and for any number of calls (PayKeep threaded through the C07 induction) + correspondence",
            "Machine-checked for every history of attach_payload and iteration-engine execute calls on any acyclic trees "
            "sharing any materialization nodes: attach succeeds exactly on a marker without payload (TypeError otherwise); "
            "a payload once present is the same object at every later point; payloads appear only on materializations of "
            "executed trees; each materialization's upstream tree is evaluated at most once (ghost log Nodup); a cached "
            "materialization is handed back with no evaluation; ONE Processor.process call on the class of multi-engine trees "
            "of C07 is write-once too (processing_is_write_once: every payload that was in the store is still there, the "
            "same object; payloads are added only to Materializations of the input tree and to nodes the Processor creates; "
            "nothing is attached on the database side), and so is ANY NUMBER of process calls on the same tree, each starting "
            "in the state the previous one left (repeated_processing_is_write_once: after every call the payloads present "
            "before the first one are still there, the same objects). Proof (partial): histories mixing process with "
            "execute, process on other trees and the SQL engine's payloads are validated by correspondence + oracle, not proved. " + CORR, "", "DESIGN.md 5/C10"),
    "C11": (PR, "Lean 4 theorems: the tree-building induction of C17 (slice = window of the target's order, sort on top, refusal of buried unsliced sorts) composed with compile_sound (ORDER BY and OFFSET/LIMIT of the emitted query level) + correspondence incl. execution on SQLite in both scan orders",
            "Machine-checked (Props/C11.lean, rows are ordered lists): a slice applied inside the SQL engine to any raw SQL tree "
            "yields exactly rows [start, stop) of the target's rows in the target's order, a sort yields them stably sorted "
            "(merged with a recorded sort, nested above a recorded slice, or wrapped around a UNION); _append_binary_to_select "
            "and materialize raise RelationalAlgebraError when an operand carries a sort without a slice; the query emitted for "
            "a coherent Select returns, under the list semantics of SQL, the skip target's rows stably sorted by the recorded "
            "terms, projected, deduplicated and THEN cut to the recorded window (emitted_select_honours_sort_and_slice); sort "
            "then slice through the factories, conform, compile, evaluate returns rows [start, stop) of the stably sorted rows "
            "in that order (sorted_slice_executes_in_order; ..._of_faithful_input with the payload hypothesis on the input "
            "tree). Proof (partial): as for C02 the end-to-end statement assumes the decidable check Rel.structReady on the "
            "conformed tree; that the database honours ORDER BY / "
            "OFFSET / LIMIT as the list semantics says is modelled and validated on SQLite under both scan orders, not proved. "
            + CORR, "", "DESIGN.md 5/C11"),
    "C12": (PR, "Lean 4 theorems: iteration callable = direct value; SQL translation = direct value (incl. range arithmetic for all start/stop/step) + correspondence incl. evaluation by SQLite",
            "Machine-checked for all expression/predicate trees over the portable operator set and all NULL-free rows that "
            "have the required columns: the iteration engine's callable yields the direct value and never raises; the SQL "
            "translation evaluates (SQLite arithmetic, truncating %) to the direct value; membership in range(a,b,s) is "
            "translated correctly for ALL a, b, s (negative steps and starts, single-element and empty ranges). The SQL "
            "evaluator is a model of the database, validated on SQLite for every generated expression. " + CORR,
            "", "DESIGN.md 5/C12"),
    "C13": (PR, "Lean 4 theorems by mutual structural induction over the nested predicate type + correspondence",
            "Machine-checked for all predicate/expression trees and rows: as_trivial sound (spec and callable), "
            "flatten_logical_and sound, Selection normalisation equivalent, required columns sufficient. " + CORR,
            "", "DESIGN.md 5/C13"),
    "C14": (PR, "Lean 4 theorems: well-formedness and engine consistency of the trees built by iteration-engine histories, SQL-engine histories, apply with every preferred-engine option combination, back-tracked joins (from the C03 join induction), and Processor.process on multi-engine iteration trees; Join._begin_apply / Join._finish_apply regenerated from source (bridge lemmas) + correspondence + structural walk of every tree the real library returns",
            "Machine-checked (Props/C14.lean): _finish_apply preserves well-formedness and engine consistency; every tree built "
            "by an iteration-engine history is WF and engine-consistent (every operation node in its operand's engine, no "
            "placeholder node, every expression supported); every tree built by a history inside ONE SQL engine - unary "
            "operations, chains, joins with automatic common columns, materializations - is WF and lives in that engine "
            "(sql_history_trees_wellformed); automatic join resolution yields key columns of both operands; transferred_to never "
            "creates a self-transfer, and Engine.transfer given an explicit payload returns a Transfer from ANOTHER engine or "
            "raises EngineError when the (simplified) target already lives in the destination "
            "(transfer_with_payload_never_to_same_engine, transfer_with_payload_to_own_engine_raises); documented no-op calls return the relation itself; a unary operation applied with ANY "
            "preferred_engine / backtrack / transfer / require combination to an iteration-engine tree returns a well-formed "
            "relation in the target's engine or (transfer only) the preferred one (apply_with_options_wellformed); inside the "
            "SQL engine a unary operation applied to any raw SQL tree, and conform of one, return a well-formed relation in the "
            "same engine; the tree Processor.process returns for a tree over several iteration engines is WF, executable "
            "(chain operands share an engine, transfers lead from an iteration engine) and has the input's engine "
            "(processed_trees_wellformed); relation.join(fixed) with its default options, from an iteration-engine target to a "
            "fixed relation in a database, returns - whenever it succeeds - a well-formed relation in the target's engine whose "
            "columns are the two operands' (join_with_backtracking_wellformed, from the C03 join induction), and with EVERY "
            "backtrack/transfer/require combination a well-formed relation in the target's engine or (transfer only) the "
            "fixed relation's database (join_with_every_option_wellformed). Proof (partial): "
            "per-node expression support INSIDE SQL-engine trees, back-tracking of "
            "joins with an explicit preferred engine other than the fixed relation's and trees processed through a SQL engine are validated by walking every tree the real library returns, not "
            "proved. " + CORR, "", "DESIGN.md 5/C14"),
    "C15": (PR, "Lean 4 theorems: Transfer.simplify sound, iteration-engine transfers keep content, materialize of locked adds nothing, back-tracking stops at locked nodes and never happens inside a database (regenerated engine method-resolution table), _finish_apply keeps locked nodes + regenerated is_locked table + correspondence",
            "Machine-checked: whatever Transfer.simplify hands back has the original content, the requested engine and is "
            "reached through transfers/unlocked markers only; transfers between iteration engines (incl. there-and-back) "
            "keep content and land in the requested engine; a no-op transfer returns the relation itself; materializing a "
            "leaf/materialization adds nothing in either engine family; backtrack_unary inserts nothing below a locked "
            "node; every locked node of a tree returned by _finish_apply is an unchanged locked node of the input; transfers out of, into and "
            "between SQL engines and materialized() inside a SQL engine (all through conform) keep rows and columns, land "
            "in the requested engine and are well-formed (by the tree-building induction of C17). Proof (partial): a "
            "transfer whose Transfer.simplify strips a there-and-back pair ending in a non-raw SQL relation, and locked "
            "nodes under the SQL-side _append_* rewrites, are validated by correspondence + the locked-node oracle. " + CORR, "", "DESIGN.md 5/C15"),
    "C16": (PR, "Lean 4 theorems over the Diagnostics.run model (diag_sound, diag_exact) + regenerated flag table + correspondence",
            "Machine-checked: if Diagnostics.run reports doomed, the reference semantics of the tree is empty (without "
            "executor: unconditionally; with executor: for any executor that never under-counts... see Props/C16.lean), "
            "a doomed report always carries a message, and with a truthful executor the report is exact. " + CORR,
            "", "DESIGN.md 5/C16"),
    "C17": (PR, "Lean 4 theorems by induction over the recursion budget of the SQL engine's mutual tree-building block (conform, append_unary, _append_unary_to_select incl. projection push-down into UNION branches, _append_binary_to_select for chain and join, apply) + correspondence (every conformed tree also runs on SQLite) + structural oracle on every Select; Select.apply_skip regenerated from source (bridge lemma)",
            "Machine-checked for every raw well-formed SQL tree (leaves, materializations, transfers, the seven unary "
            "operations with arbitrary parameters, chains, joins with any predicate over the operands' columns; any depth) "
            "over any truthful leaf contents and for every recursion budget: conform returns a coherent Select (flagged "
            "compound iff its skip target is a chain; recorded slots well-formed on the skip target; the marked relation has "
            "the rows of slice(dedup(proj(sort(skip target)))) and the recorded columns) with the same rows (values, "
            "multiplicity, order), columns and engine; conforming the result again returns the same object; each of the "
            "seven cases of _append_unary_to_select (merge into the slots, apply below them, nest in a subquery, push a "
            "projection into the branches of a UNION) returns a coherent Select with exactly the rows of the operation "
            "applied to the given one; _append_binary_to_select(Join) - stripping the operands' projections, guarding hidden "
            "columns, re-projecting - yields exactly the join; operation.apply(target) for a unary operation inside the SQL "
            "engine does the same, and relation.join(rhs, predicate) inside one SQL engine (PartialJoin through apply, with "
            "automatic resolution of the common columns) returns a coherent Select with exactly the rows of the join; the "
            "results of these factories are Selects, so conforming them returns the same object. Proof (partial): factory "
            "calls whose options take the operation into another engine (preferred_engine/back-tracking/transfer) and trees "
            "containing Select markers the engine did not produce are validated by correspondence + the structural oracle + "
            "SQLite execution, not proved. "
            + CORR, "", "DESIGN.md 5/C17"),
    "C18": (PR, "Lean 4 theorems over the lazy-iteration event model (exec_lazy, events_sublist, consumer frames) + correspondence",
            "Machine-checked for all lazy-only trees, leaf contents, states and consumption depths: execute() changes no "
            "state (no leaf iteration); iterating the result to any depth starts each leaf occurrence at most once, in "
            "order; sort/deduplication/materialization consume their input at most once at execute time and return stored "
            "rows that never iterate a leaf again; rows of repeated iterations are identical. The event model itself "
            "(CPython generator semantics) is validated against counting payloads on the real library. " + CORR,
            "", "DESIGN.md 5/C18"),
    "C19": (PR, "Lean 4 theorem (names_distinct) + regenerated name format + real/forced thread races",
            "Machine-checked: names built from fresh fixed-width uuid suffixes are pairwise distinct for ANY counters, "
            "prefixes and interleavings, and begin with the prefix; the f-string is re-read from the source each run. "
            "Proof (partial): FreshUuids and step atomicity are assumptions; real threads and a forced "
            "read-read-write-write race are run against the implementation.", "", "DESIGN.md 5/C19"),
    "C20": (PR, "Lean 4 theorems: _begin_apply rejects every ill-formed non-trivial unary request under every option; chain/join/slice rejections; cross-engine joins never built; Slice constructor, the six unary _begin_apply methods, Chain/Join/PartialJoin._begin_apply and Join._finish_apply regenerated from source (bridge lemmas) + correspondence",
            "Machine-checked on any target tree in any engine: an operation that is not a no-op and is ill-formed for the "
            "target's columns raises ColumnError from apply for EVERY combination of preferred_engine/backtrack/transfer/"
            "require options; chain with different engines/columns -> EngineError/ColumnError; join predicate column missing "
            "from both operands -> ColumnError through every option; negative/reversed slice -> ValueError, step != 1 -> "
            "TypeError (constructor check regenerated from source); unsupported calculation -> EngineError; Join.apply on "
            "operands of different engines never returns a relation and raises EngineError whenever the columns are fine, and "
            "relation.join(fixed, backtrack=False, transfer=False) across engines never returns a relation "
            "(cross_engine_join_*). Proof "
            "(partial): cross-engine joins with back-tracking but without transfer (rejected or not depending on whether "
            "back-tracking finds a place) and unsupported expressions merged with an upstream operation "
            "are validated by the oracle, not proved. " + CORR, "", "DESIGN.md 5/C20"),
}

_PENDING = "check not built yet in this revision (planned: see DESIGN.md section 5)"
NOT_APPLICABLE = {}
