"""The table of claims that MANIFEST.json is generated from (harness/mkmanifest.py)."""

TV = "translation_validation"
CORR = ("Differential correspondence of the executable Lean model with the real library on generated programs, "
        "plus the property evaluated on the real library's observations against the model's reference semantics. ")

CHECKS = {
    "C01": (TV, "Lean model + correspondence (proofs in progress)", CORR, "", "DESIGN.md 5/C01"),
    "C04": (TV, "Lean model + correspondence (proofs in progress)", CORR, "", "DESIGN.md 5/C04"),
    "C05": (TV, "Lean model + correspondence (proofs in progress)", CORR, "", "DESIGN.md 5/C05"),
    "C06": (TV, "Lean model + correspondence (proofs in progress)", CORR, "", "DESIGN.md 5/C06"),
    "C13": (TV, "Lean model + correspondence (proofs in progress)", CORR, "", "DESIGN.md 5/C13"),
    "C18": (TV, "Lean model + correspondence (proofs in progress)", CORR, "", "DESIGN.md 5/C18"),
}

_PENDING = "check not built yet in this revision (planned: see DESIGN.md section 5)"
NOT_APPLICABLE = {p: _PENDING for p in
                  ["C02", "C03", "C07", "C08", "C09", "C10", "C11", "C12", "C14", "C15", "C16", "C17", "C19", "C20"]}
