"""The table of claims that MANIFEST.json is generated from (harness/mkmanifest.py)."""

TV = "translation_validation"
CORR = ("Differential correspondence of the executable Lean model with the real library on generated programs, "
        "plus the property evaluated on the real library's observations against the model's reference semantics. ")

PR = "proof"

CHECKS = {
    "C01": (TV, "Lean model + correspondence (proofs in progress)", CORR, "", "DESIGN.md 5/C01"),
    "C02": (TV, "Lean model + correspondence (proofs in progress)", CORR, "", "DESIGN.md 5/C02"),
    "C03": (TV, "Lean model + correspondence (proofs in progress)", CORR, "", "DESIGN.md 5/C03"),
    "C04": (TV, "Lean model + correspondence (proofs in progress)", CORR, "", "DESIGN.md 5/C04"),
    "C05": (PR, "Lean 4 theorems (slice/sort/selection/projection merge, simplify, _finish_apply) + correspondence",
            "Machine-checked: Slice.then total and exact for all bounds, Sort.then = sequential stable sorts, "
            "simplify sound and total for every pair, _finish_apply preserves the reference semantics through any "
            "depth of re-simplification. " + CORR, "", "DESIGN.md 5/C05"),
    "C06": (PR, "Lean 4 theorem by induction over trees (metadata_truthful) + correspondence",
            "Machine-checked: columns and [min_rows,max_rows] are truthful for every well-formed tree over truthful "
            "leaves (all operations incl. join/chain), hence join-identity/trivial flags and the short-cuts keyed on "
            "them. " + CORR, "", "DESIGN.md 5/C06"),
    "C07": (TV, "Lean model + correspondence (proofs in progress)", CORR, "", "DESIGN.md 5/C07"),
    "C08": (TV, "Lean model + correspondence (proofs in progress)", CORR, "", "DESIGN.md 5/C08"),
    "C10": (TV, "Lean model + correspondence (proofs in progress)", CORR, "", "DESIGN.md 5/C10"),
    "C11": (TV, "Lean model + correspondence (proofs in progress)", CORR, "", "DESIGN.md 5/C11"),
    "C13": (PR, "Lean 4 theorems by mutual structural induction over the nested predicate type + correspondence",
            "Machine-checked for all predicate/expression trees and rows: as_trivial sound (spec and callable), "
            "flatten_logical_and sound, Selection normalisation equivalent, required columns sufficient. " + CORR,
            "", "DESIGN.md 5/C13"),
    "C14": (TV, "Lean model + correspondence (proofs in progress)", CORR, "", "DESIGN.md 5/C14"),
    "C15": (TV, "Lean model + correspondence (proofs in progress)", CORR, "", "DESIGN.md 5/C15"),
    "C16": (TV, "Lean model + correspondence (proofs in progress)", CORR, "", "DESIGN.md 5/C16"),
    "C18": (TV, "Lean model + correspondence (proofs in progress)", CORR, "", "DESIGN.md 5/C18"),
    "C20": (TV, "Lean model + correspondence (proofs in progress)", CORR, "", "DESIGN.md 5/C20"),
}

_PENDING = "check not built yet in this revision (planned: see DESIGN.md section 5)"
NOT_APPLICABLE = {p: _PENDING for p in ["C09", "C12", "C17", "C19"]}
