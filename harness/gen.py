"""Seeded generators of line-protocol programs.  Every random choice derives from one
`random.Random(seed)` so that any disagreement replays exactly."""
from __future__ import annotations

import itertools
import random
from typing import Iterable

from proto import sx

TAGS = [("a", "k"), ("b", "k"), ("c", "n"), ("d", "k"), ("x", "n"), ("y", "k"), ("z", "n")]
BASE_COLS = ["a", "b", "c", "d"]
NEW_TAGS = ["x", "y", "z"]
KEY = {n: k == "k" for n, k in TAGS}


def nest_restricted(rng, e):
    """An engine-restricted function, sometimes nested as an argument of an UNRESTRICTED function: support
    has to be judged on the whole expression tree, not on its root."""
    k = rng.random()
    if k < 0.25:
        return ["fn", "add", "*", e, ["lit", 1]]
    if k < 0.4:
        return ["fn", "neg", "*", e]
    if k < 0.5:
        return ["fn", "add", "*", ["lit", 2], ["fn", "neg", "*", e]]
    return e


class G:
    """Program builder with light-weight tracking of columns/engines of the pool."""

    def __init__(self, seed: int, *, values=(0, 1, 2), max_rows=5):
        self.rng = random.Random(seed)
        self.lines: list[str] = []
        self.cols: dict[str, frozenset[str]] = {}
        self.eng: dict[str, str] = {}
        self.kind: dict[str, str] = {}  # engine name -> iter/sql
        self.n = 0
        self.values = values
        self.max_rows = max_rows
        self.leafnames: list[str] = []
        self.has_chain: set[str] = set()   # relations whose tree (may) contain a chain
        self.leaf_rels: set[str] = set()   # relations that ARE leaves (created by `leaf`)
        self.leaves_of: dict[str, frozenset[str]] = {}   # leaf names a relation reads
        self.emit(["tags", [[n, k] for n, k in TAGS]])

    # ------------------------------------------------------------------ basics
    def emit(self, x) -> None:
        self.lines.append(sx(x))

    def fresh(self) -> str:
        self.n += 1
        return f"r{self.n}"

    def engine(self, name: str, kind: str) -> None:
        self.kind[name] = kind
        self.emit(["engine", name, kind])

    def pick(self, engine: str | None = None, pred=None) -> str | None:
        cands = [r for r in self.cols if (engine is None or self.eng[r] == engine) and (pred is None or pred(r))]
        return self.rng.choice(cands) if cands else None

    # ------------------------------------------------------------------ expressions
    def expr(self, cols: Iterable[str], depth: int = 2, need_col: bool = False):
        rng = self.rng
        cols = sorted(cols)
        if depth <= 0 or rng.random() < 0.35:
            if cols and (need_col or rng.random() < 0.7):
                return ["ref", rng.choice(cols)]
            return ["lit", rng.randint(-2, 3)]
        f = rng.choice(["neg", "add", "sub", "mul", "add"])
        if f == "neg":
            return ["fn", "neg", "*", self.expr(cols, depth - 1, need_col)]
        a = self.expr(cols, depth - 1, need_col)
        b = self.expr(cols, depth - 1, False)
        if rng.random() < 0.5:
            a, b = b, a
        return ["fn", f, "*", a, b]

    def expr_with_col(self, cols: Iterable[str], depth: int = 2):
        """An expression guaranteed to require at least one column (for Calculation)."""
        cols = sorted(cols)
        e = self.expr(cols, depth, need_col=True)
        if not self.expr_cols(e):
            e = ["fn", "add", "*", ["ref", self.rng.choice(cols)], e]
        return e

    @staticmethod
    def expr_cols(e) -> set[str]:
        if e[0] == "ref":
            return {e[1]}
        if e[0] == "lit":
            return set()
        out: set[str] = set()
        for a in e[3:]:
            out |= G.expr_cols(a)
        return out

    def container(self, cols, depth=1):
        rng = self.rng
        if rng.random() < 0.5:
            step = rng.choice([1, 1, 2, 3, -1, -2])
            return ["range", rng.randint(-3, 3), rng.randint(-3, 4), step]
        return ["seq", *[self.expr(cols, depth) for _ in range(rng.randint(0, 3))]]

    def pred(self, cols: Iterable[str], depth: int = 2):
        rng = self.rng
        cols = sorted(cols)
        r = rng.random()
        if depth <= 0 or r < 0.35:
            k = rng.random()
            if k < 0.12:
                return ["plit", rng.choice(["T", "F"])]
            if k < 0.2 and cols:
                return ["pref", rng.choice(cols)]
            if k < 0.35:
                return ["in", self.expr(cols, 1), self.container(cols)]
            f = rng.choice(["eq", "ne", "lt", "le", "gt", "ge"])
            return ["pfn", f, "*", self.expr(cols, 1), self.expr(cols, 1)]
        if r < 0.5:
            return ["not", self.pred(cols, depth - 1)]
        op = "and" if r < 0.78 else "or"
        n = rng.choice([0, 1, 2, 2, 2, 3])
        return [op, *[self.pred(cols, depth - 1) for _ in range(n)]]

    @staticmethod
    def pred_cols(p) -> set[str]:
        h = p[0]
        if h == "plit":
            return set()
        if h == "pref":
            return {p[1]}
        if h == "pfn":
            out: set[str] = set()
            for a in p[3:]:
                out |= G.expr_cols(a)
            return out
        if h == "not":
            return G.pred_cols(p[1])
        if h in ("and", "or"):
            out = set()
            for q in p[1:]:
                out |= G.pred_cols(q)
            return out
        if h == "in":
            out = G.expr_cols(p[1])
            c = p[2]
            if c[0] == "seq":
                for i in c[1:]:
                    out |= G.expr_cols(i)
            return out
        raise ValueError(p)

    def terms(self, cols, n=None):
        rng = self.rng
        cols = sorted(cols)
        if n is None:
            n = rng.choice([0, 1, 1, 2, 2, 3])
        out = []
        for _ in range(n):
            if cols and rng.random() < 0.75:
                e = ["ref", rng.choice(cols)]
            else:
                e = self.expr(cols, 1, need_col=bool(cols))
            out.append(["term", e, rng.choice(["asc", "asc", "desc"])])
        return out

    # ------------------------------------------------------------------ leaves
    def leaf(self, engine: str, cols=None, nrows=None, bounds=None, name=None) -> str:
        rng = self.rng
        if cols is None:
            k = rng.choice([0, 1, 2, 2, 3, 3])
            cols = sorted(rng.sample(BASE_COLS, k))
        if nrows is None:
            nrows = rng.randint(0, self.max_rows)
        rows = []
        for _ in range(nrows):
            row = {c: rng.choice(self.values) for c in cols}
            # keep non-key columns determined by the key columns most of the time
            if "c" in row and rng.random() < 0.85:
                ks = [row[c] for c in cols if KEY[c]]
                row["c"] = (sum(ks) * 2 + 1) % 3
            rows.append([row[c] for c in cols])
        if rng.random() < 0.3 and rows:
            rows.append(list(rng.choice(rows)))  # exact duplicate
        n = len(rows)
        if bounds is None:
            bounds = rng.choice(["exact", "exact", "loose", "unbounded", "zero-min"])
        if bounds == "exact":
            mn, mx = n, n
        elif bounds == "loose":
            mn, mx = rng.randint(0, n), n + rng.randint(0, 2)
        elif bounds == "unbounded":
            mn, mx = rng.randint(0, n), None
        else:
            mn, mx = 0, n
        r = self.fresh()
        name = name or f"L{self.n}"
        self.leafnames.append(name)
        self.emit(["leaf", r, engine, cols, rows, mn, "-" if mx is None else mx, name])
        self.cols[r] = frozenset(cols)
        self.eng[r] = engine
        self.leaves_of[r] = frozenset([name])
        self.leaf_rels.add(r)
        return r

    def doomed(self, engine: str, cols=None) -> str:
        if cols is None:
            cols = sorted(self.rng.sample(BASE_COLS, self.rng.choice([0, 1, 2])))
        r = self.fresh()
        self.emit(["doomed", r, engine, cols, f"D{self.n}"])
        self.cols[r] = frozenset(cols)
        self.eng[r] = engine
        self.leaves_of[r] = frozenset([f"D{self.n}"])
        return r

    def joinid(self, engine: str) -> str:
        r = self.fresh()
        self.emit(["joinid", r, engine, f"I{self.n}"])
        self.cols[r] = frozenset()
        self.eng[r] = engine
        self.leaves_of[r] = frozenset([f"I{self.n}"])
        return r

    # ------------------------------------------------------------------ operations
    def opts(self, pref="-", bt=True, tr=False, req=False):
        return ["opts", pref, "T" if bt else "F", "T" if tr else "F", "T" if req else "F"]

    def rand_op(self, cols: frozenset[str], *, allow=("calc", "dedup", "proj", "sel", "slice", "sort")):
        """A mostly-valid random operation request for a target with the given columns.
        Returns (op sexp, resulting columns)."""
        rng = self.rng
        kinds = [k for k in allow if not (k == "calc" and (not cols or all(t in cols for t in NEW_TAGS)))]
        k = rng.choice(kinds)
        if k == "calc":
            tag = rng.choice([t for t in NEW_TAGS if t not in cols])
            return ["calc", tag, self.expr_with_col(cols, 2)], cols | {tag}
        if k == "dedup":
            return ["dedup"], cols
        if k == "proj":
            sub = [c for c in sorted(cols) if rng.random() < 0.6]
            return ["proj", *sub], frozenset(sub)
        if k == "sel":
            return ["sel", self.pred(cols, 2)], cols
        if k == "slice":
            a = rng.choice([0, 0, 0, 1, 1, 2, 3])
            b = rng.choice([None, None, a, a + 1, a + 2, a + 3, 4, 0])
            if b is not None and b < a:
                b = a
            return ["slice", a if (a or rng.random() < 0.5) else "-", "-" if b is None else b, "-"], cols
        if k == "sort":
            return ["sort", *self.terms(cols)], cols
        if k == "sortslice":
            # a sort on ALL columns: the order is total up to identical rows
            ts = [["term", ["ref", c], rng.choice(["asc", "desc"])] for c in sorted(cols)]
            rng.shuffle(ts)
            return ["sort", *ts], cols
        raise AssertionError(k)

    def apply(self, target: str, op, newcols, opts=None) -> str:
        r = self.fresh()
        self.emit(["apply", r, target, op, opts or self.opts()])
        self.cols[r] = frozenset(newcols)
        self.eng[r] = self.eng[target]
        if target in self.has_chain:
            self.has_chain.add(r)
        self.leaves_of[r] = self.leaves_of.get(target, frozenset())
        return r

    def chain(self, lhs: str, rhs: str) -> str:
        r = self.fresh()
        self.emit(["chain", r, lhs, rhs])
        self.cols[r] = self.cols[lhs]
        self.eng[r] = self.eng[lhs]
        self.has_chain.add(r)
        self.leaves_of[r] = self.leaves_of.get(lhs, frozenset()) | self.leaves_of.get(rhs, frozenset())
        return r

    def join(self, lhs: str, rhs: str, pred=None, bt=True, tr=False) -> str:
        r = self.fresh()
        self.emit(["join", r, lhs, rhs, pred or ["plit", "T"], "T" if bt else "F", "T" if tr else "F"])
        self.cols[r] = self.cols[lhs] | self.cols[rhs]
        self.eng[r] = self.eng[rhs]
        if lhs in self.has_chain or rhs in self.has_chain:
            self.has_chain.add(r)
        self.leaves_of[r] = self.leaves_of.get(lhs, frozenset()) | self.leaves_of.get(rhs, frozenset())
        return r

    def joinp(self, lhs: str, rhs: str, pred=None, opts=None, fixed_lhs: bool = False) -> str:
        """A join with every `apply` option (explicit preferred engine, require_preferred_engine); with
        `fixed_lhs` the fixed relation `rhs` becomes the LEFT operand (`partial(fixed, is_lhs=True)`)."""
        r = self.fresh()
        opts = opts or self.opts()
        self.emit(["joinpl" if fixed_lhs else "joinp", r, lhs, rhs, pred or ["plit", "T"], opts])
        self.cols[r] = self.cols[lhs] | self.cols[rhs]
        self.eng[r] = self.eng[rhs] if opts[1] == "-" else opts[1]
        if lhs in self.has_chain or rhs in self.has_chain:
            self.has_chain.add(r)
        self.leaves_of[r] = self.leaves_of.get(lhs, frozenset()) | self.leaves_of.get(rhs, frozenset())
        return r

    def joinb(self, lhs: str, rhs: str, common, pred=None) -> str:
        """`Join(pred, min_columns=S, max_columns=S).apply(lhs, rhs)`: the binary operation applied directly."""
        r = self.fresh()
        self.emit(["joinb", r, lhs, rhs, sorted(common), pred or ["plit", "T"]])
        self.cols[r] = self.cols[lhs] | self.cols[rhs]
        self.eng[r] = self.eng[lhs]
        if lhs in self.has_chain or rhs in self.has_chain:
            self.has_chain.add(r)
        self.leaves_of[r] = self.leaves_of.get(lhs, frozenset()) | self.leaves_of.get(rhs, frozenset())
        return r

    def joinmax(self, lhs: str, rhs: str, cap, pred=None, opts=None) -> str:
        """A join whose automatic common columns are capped by `max_columns`."""
        r = self.fresh()
        opts = opts or self.opts()
        self.emit(["joinmax", r, lhs, rhs, sorted(cap), pred or ["plit", "T"], opts])
        self.cols[r] = self.cols[lhs] | self.cols[rhs]
        self.eng[r] = self.eng[rhs] if opts[1] == "-" else opts[1]
        if lhs in self.has_chain or rhs in self.has_chain:
            self.has_chain.add(r)
        self.leaves_of[r] = self.leaves_of.get(lhs, frozenset()) | self.leaves_of.get(rhs, frozenset())
        return r

    def mat(self, target: str, name=None) -> str:
        r = self.fresh()
        self.emit(["mat", r, target, name or f"M{self.n}"])
        self.cols[r] = self.cols[target]
        self.eng[r] = self.eng[target]
        if target in self.has_chain:
            self.has_chain.add(r)
        self.leaves_of[r] = self.leaves_of.get(target, frozenset())
        return r

    def transfer(self, target: str, engine: str) -> str:
        r = self.fresh()
        self.emit(["transfer", r, target, engine])
        self.cols[r] = self.cols[target]
        self.eng[r] = engine
        if target in self.has_chain:
            self.has_chain.add(r)
        self.leaves_of[r] = self.leaves_of.get(target, frozenset())
        return r

    def transferp(self, target: str, engine: str) -> str:
        """`engine.transfer(target, payload=<rows>)` (an iteration engine): refused when the target already lives there."""
        r = self.fresh()
        self.emit(["transferp", r, target, engine])
        self.cols[r] = self.cols[target]
        self.eng[r] = engine
        if target in self.has_chain:
            self.has_chain.add(r)
        self.leaves_of[r] = self.leaves_of.get(target, frozenset())
        return r

    def text(self) -> str:
        return "\n".join(self.lines) + "\n"


# ====================================================================== program families
def prog_iteration(seed: int, n_ops: int = 8, *, eager=True, two_engines=True) -> G:
    """Single-engine (plus optional second iteration engine) programs: C01, C05, C06, C18."""
    g = G(seed)
    rng = g.rng
    g.engine("e0", "iter")
    second = two_engines and rng.random() < 0.25
    if second:
        g.engine("e1", "iter")
    for _ in range(rng.choice([1, 2, 2, 3])):
        g.leaf("e0")
    if rng.random() < 0.15:
        g.doomed("e0")
    if rng.random() < 0.15:
        g.joinid("e0")
    if second:
        g.leaf("e1")
    allow = ("calc", "dedup", "proj", "sel", "slice", "sort") if eager else ("calc", "proj", "sel", "slice")
    observed: list[str] = []
    if eager and rng.random() < 0.15:
        # scenario: "does any row exist?" -- project onto no columns and deduplicate a relation whose
        # declared bounds are loose (possibly empty content)
        base = g.leaf("e0", nrows=rng.choice([0, 0, 1, 2]), bounds=rng.choice(["loose", "unbounded", "zero-min"]))
        if rng.random() < 0.5 and g.cols[base]:
            base = g.apply(base, ["sel", g.pred(g.cols[base], 1)], g.cols[base])
        e = g.apply(base, ["proj"], frozenset())
        d = g.apply(e, ["dedup"], frozenset())
        observed += [e, d]
        if rng.random() < 0.5:
            observed.append(g.chain(d, d))
    if eager and rng.random() < 0.15:
        # scenario: a materialization whose result is EMPTY although its bounds do not say so (a selection
        # that rejects every row of a non-empty leaf); executed several times and chained with itself
        base = g.leaf("e0", cols=sorted(rng.sample(BASE_COLS, rng.choice([1, 2]))), nrows=rng.choice([1, 2, 3]),
                      bounds=rng.choice(["exact", "loose"]))
        c0 = sorted(g.cols[base])[0]
        none = g.apply(base, ["sel", ["pfn", "lt", "*", ["ref", c0], ["lit", -9]]], g.cols[base])
        if rng.random() < 0.4:
            none = g.apply(none, ["sort", ["term", ["ref", c0], "asc"]], g.cols[none])
        m = g.mat(none)
        observed += [m, m, g.chain(m, m), m]
    for _ in range(n_ops):
        k = rng.random()
        t = g.pick()
        if t is None:
            break
        if k < 0.72:
            op, nc = g.rand_op(g.cols[t], allow=allow)
            r = g.apply(t, op, nc)
        elif k < 0.84:
            # chain with a relation of equal columns in the same engine (often itself or a sibling)
            cands = [u for u in g.cols if g.cols[u] == g.cols[t] and g.eng[u] == g.eng[t]]
            r = g.chain(t, rng.choice(cands))
        elif k < 0.92 and eager:
            r = g.mat(t)
        elif second:
            r = g.transfer(t, "e1" if g.eng[t] == "e0" else "e0")
        else:
            op, nc = g.rand_op(g.cols[t], allow=allow)
            r = g.apply(t, op, nc)
        observed.append(r)
    for r in dict.fromkeys(observed):
        g.emit(["exec", r])
        g.emit(["sem", r])
    return g


def universe_ops(g: G, cols=("a", "b", "c")) -> list:
    """A fixed universe of operation requests over a three-column schema (for enumerators)."""
    a, b, c = cols
    ops = [
        ["dedup"],
        ["proj"], ["proj", a], ["proj", b], ["proj", a, b], ["proj", a, c], ["proj", b, c], ["proj", a, b, c],
        ["proj", a, "x"], ["proj", "x"], ["proj", b, "x"],
        ["sel", ["pfn", "lt", "*", ["ref", a], ["lit", 1]]],
        ["sel", ["pfn", "eq", "*", ["ref", b], ["ref", a]]],
        ["sel", ["pfn", "ge", "*", ["ref", c], ["lit", 1]]],
        ["sel", ["pfn", "gt", "*", ["ref", "x"], ["lit", 1]]],
        ["sel", ["plit", "F"]],
        ["sel", ["and", ["pfn", "le", "*", ["ref", a], ["lit", 1]], ["not", ["pfn", "eq", "*", ["ref", b], ["lit", 0]]]]],
        ["slice", 0, 2, "-"], ["slice", 1, "-", "-"], ["slice", 1, 3, "-"], ["slice", 2, 2, "-"], ["slice", 0, 0, "-"],
        ["sort", ["term", ["ref", a], "asc"]],
        ["sort", ["term", ["ref", b], "desc"]],
        ["sort", ["term", ["ref", a], "desc"], ["term", ["ref", b], "asc"]],
        ["sort", ["term", ["ref", c], "asc"]],
        ["sort", ["term", ["ref", a], "asc"], ["term", ["ref", b], "asc"]],
        ["sort", ["term", ["ref", b], "asc"], ["term", ["ref", a], "asc"]],
        ["sort", ["term", ["ref", b], "asc"]],
        ["sort", ["term", ["ref", "x"], "desc"]],
        ["sort", ["term", ["fn", "neg", "*", ["ref", a]], "asc"], ["term", ["ref", b], "asc"]],
        ["calc", "x", ["fn", "add", "*", ["ref", a], ["ref", b]]],
        ["calc", "x", ["fn", "neg", "*", ["ref", c]]],
        ["calc", "y", ["fn", "mul", "*", ["ref", a], ["lit", 2]]],
        ["calc", "y", ["fn", "add", "*", ["ref", "x"], ["lit", 1]]],
        ["calc", a, ["fn", "add", "*", ["ref", b], ["lit", 1]]],
    ]
    return ops


def op_required_cols(op) -> set[str]:
    h = op[0]
    if h == "calc":
        return G.expr_cols(op[2])
    if h == "proj":
        return set(op[1:])
    if h == "sel":
        return G.pred_cols(op[1])
    if h == "sort":
        out: set[str] = set()
        for t in op[1:]:
            out |= G.expr_cols(t[1])
        return out
    return set()


def op_result_cols(op, cols: frozenset[str]) -> frozenset[str]:
    if op[0] == "calc":
        return cols | {op[1]}
    if op[0] == "proj":
        return frozenset(op[1:])
    return cols


def op_valid_on(op, cols: frozenset[str]) -> bool:
    if not op_required_cols(op) <= cols:
        return False
    if op[0] == "calc" and op[1] in cols:
        return False
    return True


def fixed_leaves(g: G, engine: str = "e0") -> list[str]:
    """Three fixed leaves over {a,b,c}: duplicates, ties, key-determined non-key column."""
    out = []
    out.append(g.leaf(engine, ["a", "b", "c"], name="F1", bounds="exact", nrows=0))
    g.lines.pop()
    g.emit(["leaf", out[-1], engine, ["a", "b", "c"],
            [[1, 0, 1], [0, 1, 2], [1, 0, 1], [0, 0, 0], [2, 1, 1], [0, 1, 2]], 6, 6, "F1"])
    out.append(g.leaf(engine, ["a", "b", "c"], name="F2", bounds="exact", nrows=0))
    g.lines.pop()
    g.emit(["leaf", out[-1], engine, ["a", "b", "c"], [[2, 2, 0], [1, 1, 1], [0, 2, 2], [1, 1, 1]], 2, "-", "F2"])
    out.append(g.leaf(engine, ["a", "b", "c"], name="F3", bounds="exact", nrows=0))
    g.lines.pop()
    g.emit(["leaf", out[-1], engine, ["a", "b", "c"], [], 0, 0, "F3"])
    return out


def prog_commute_random(seed: int, n: int = 30) -> G:
    """Raw `commute` probes on random operation pairs (C04)."""
    g = G(seed)
    rng = g.rng
    g.engine("e0", "iter")
    leaves = [g.leaf("e0", cols=sorted(rng.sample(BASE_COLS, rng.choice([1, 2, 3]))), nrows=rng.randint(0, 5),
                     bounds="exact") for _ in range(2)]
    for _ in range(n):
        t = rng.choice(leaves)
        cur, ccols = g.rand_op(g.cols[t])
        new, _ = g.rand_op(ccols)
        if cur[0] == "sort" and len(cur) > 1 and rng.random() < 0.5:
            # a new sort that reuses terms of the existing one (subset / permutation / superset)
            terms = [list(x) for x in cur[1:]]
            rng.shuffle(terms)
            keep = terms[: rng.randint(1, len(terms))]
            if rng.random() < 0.4:
                keep = keep + g.terms(g.cols[t], 1)
            new = ["sort", *keep]
        if not op_valid_on(cur, g.cols[t]) or not op_valid_on(new, ccols):
            continue
        g.emit(["commute", new, cur, t])
        g.emit(["commutesem", new, cur, t])
    return g


def prog_commute_join(seed: int, n: int = 12) -> G:
    """`PartialJoin.commute` probes (C04): a join with explicit common columns against every kind of
    existing operation, including a calculation that CREATES a common column and a projection that
    drops one."""
    g = G(seed)
    rng = g.rng
    g.engine("e0", "iter")
    tcols = sorted(set(rng.sample(["a", "b", "c", "d"], rng.choice([2, 3]))))
    t = g.leaf("e0", cols=tcols, nrows=rng.randint(0, 4), bounds="exact")
    for _ in range(n):
        cur, ccols = g.rand_op(g.cols[t], allow=("calc", "calc", "proj", "sel", "sort", "dedup", "slice"))
        if cur[0] == "calc" and rng.random() < 0.6:
            # make the calculated column a key the fixed operand also has
            key = rng.choice([k for k in ("y", "a", "b", "d") if k not in g.cols[t]] or ["y"])
            if key not in g.cols[t]:
                cur = ["calc", key, ["fn", "add", "*", ["ref", sorted(g.cols[t])[0]], ["lit", 1]]]
                ccols = g.cols[t] | {key}
        if not op_valid_on(cur, g.cols[t]):
            continue
        # operands share key columns only (shared non-key columns have no defined join semantics)
        extra = set(rng.sample(["x", "z"], rng.choice([0, 1]))) - set(ccols) - set(g.cols[t])
        shared = {c for c in ccols if KEY[c] and rng.random() < 0.7}
        fcols = sorted(shared | extra | ({"y"} if rng.random() < 0.2 and "y" not in g.cols[t] else set()))
        if rng.random() < 0.3:
            # the fixed relation ALSO has a column of the target that is not a common column - one the existing
            # operation hides (a projection), replaces, or simply a shared non-key: the join must not be moved to
            # where one of the two would shadow the other
            clash = sorted((set(g.cols[t]) | set(ccols)) - {c for c in shared})
            if clash:
                fcols = sorted(set(fcols) | {rng.choice(clash)})
        if not fcols:
            continue
        f = g.leaf("e0", cols=fcols, nrows=rng.randint(0, 3), bounds="exact")
        common = sorted(c for c in (set(fcols) & set(ccols)) if KEY[c] and c in shared)
        g.emit(["commutej", f, common, ["plit", "T"], cur, t])
    return g


def prog_commute_enum(chunk: int, nchunks: int) -> G:
    """Exhaustive ordered pairs from the operation universe on the fixed leaves (C04 thorough)."""
    g = G(0)
    g.engine("e0", "iter")
    leaves = fixed_leaves(g)
    ops = universe_ops(g)
    pairs = [(n, c) for n in ops for c in ops]
    for i, (new, cur) in enumerate(pairs):
        if i % nchunks != chunk:
            continue
        for t in leaves[:2]:
            cols = g.cols[t]
            if not op_valid_on(cur, cols):
                continue
            if not op_valid_on(new, op_result_cols(cur, cols)):
                continue
            g.emit(["commute", new, cur, t])
            g.emit(["commutesem", new, cur, t])
    return g


def prog_adjacent_enum(chunk: int, nchunks: int) -> G:
    """All adjacent pairs of operations applied through the public API (C05 thorough):
    every slice pair with bounds <= 6 or None, every pair from the universe."""
    g = G(0)
    g.engine("e0", "iter")
    leaves = fixed_leaves(g)
    bounds = [0, 1, 2, 3, 5]
    stops = [None, 0, 1, 2, 3, 4, 6]
    slices = [["slice", a, "-" if b is None else b, "-"] for a in bounds for b in stops if b is None or b >= a]
    ops = universe_ops(g)
    pairs = [(s1, s2) for s1 in slices for s2 in slices] + [(o1, o2) for o1 in ops for o2 in ops]
    i = 0
    for first, second in pairs:
        i += 1
        if i % nchunks != chunk:
            continue
        t = leaves[0]
        if not op_valid_on(first, g.cols[t]):
            continue
        c1 = op_result_cols(first, g.cols[t])
        if not op_valid_on(second, c1):
            continue
        r1 = g.apply(t, first, c1)
        r2 = g.apply(r1, second, op_result_cols(second, c1))
        g.emit(["simplify", second, first])
        g.emit(["exec", r2])
        g.emit(["sem", r2])
        g.emit(["seqsem", t, first, second])
    return g


def prog_merge_random(seed: int, n: int = 12) -> G:
    """Random adjacent pairs with emphasis on mergeable ones (C05 quick)."""
    g = G(seed)
    rng = g.rng
    g.engine("e0", "iter")
    leaves = [g.leaf("e0", cols=sorted(rng.sample(BASE_COLS, rng.choice([2, 3, 3]))), nrows=rng.randint(0, 6))
              for _ in range(2)]
    for _ in range(n):
        t = rng.choice(leaves)
        kind = rng.choice(["slice", "slice", "sort", "sort", "sel", "proj", "calcproj", "any"])
        cols = g.cols[t]
        if kind == "slice":
            first, _ = g.rand_op(cols, allow=("slice",))
            second, _ = g.rand_op(cols, allow=("slice",))
        elif kind == "sort":
            first, _ = g.rand_op(cols, allow=("sort",))
            second, _ = g.rand_op(cols, allow=("sort",))
            if rng.random() < 0.4 and len(first) > 1:
                # repeat a term of the first sort, possibly with the opposite direction
                tm = list(rng.choice(first[1:]))
                if rng.random() < 0.5:
                    tm[2] = "desc" if tm[2] == "asc" else "asc"
                second = second + [tm]
        elif kind == "sel":
            first, _ = g.rand_op(cols, allow=("sel",))
            second, _ = g.rand_op(cols, allow=("sel",))
        elif kind == "proj":
            first, c1 = g.rand_op(cols, allow=("proj",))
            second, _ = g.rand_op(c1, allow=("proj",))
        elif kind == "calcproj":
            if not cols:
                continue
            first, c1 = g.rand_op(cols, allow=("calc",))
            second, _ = g.rand_op(c1, allow=("proj",))
        else:
            first, c1 = g.rand_op(cols)
            second, _ = g.rand_op(c1)
        if not op_valid_on(first, cols):
            continue
        c1 = op_result_cols(first, cols)
        if not op_valid_on(second, c1):
            continue
        r1 = g.apply(t, first, c1)
        r2 = g.apply(r1, second, op_result_cols(second, c1))
        g.emit(["simplify", second, first])
        g.emit(["exec", r2])
        g.emit(["sem", r2])
        g.emit(["seqsem", t, first, second])
    return g


def prog_predicates(seed: int, n: int = 40) -> G:
    """Predicate / expression probes (C12 iteration half, C13)."""
    g = G(seed)
    rng = g.rng
    g.engine("e0", "iter")
    for _ in range(n):
        cols = sorted(rng.sample(BASE_COLS, rng.choice([0, 1, 2, 3])))
        binds = [[c, rng.randint(-4, 4)] for c in BASE_COLS]
        if rng.random() < 0.7:
            g.emit(["pred", g.pred(cols, rng.choice([1, 2, 3])), *binds])
        else:
            g.emit(["expr", g.expr(cols, rng.choice([1, 2, 3])), *binds])
    return g


def prog_pred_use(seed: int, n: int = 8) -> G:
    """Predicate objects used in joins and inspected again afterwards (C13: declared required columns
    must stay exactly sufficient; C09: evaluation is side-effect free)."""
    g = G(seed, max_rows=3)
    rng = g.rng
    eng = rng.choice(["sql", "iter"])
    g.engine("e0", eng)
    l1 = g.leaf("e0", cols=sorted(set(rng.sample(["a", "b", "c"], 2)) | {"a"}))
    l2 = g.leaf("e0", cols=sorted(set(rng.sample(["b", "d", "y"], 2)) | {"d"}))
    both = sorted(g.cols[l1] | g.cols[l2])
    for _ in range(n):
        cols = sorted(rng.sample(both, rng.choice([1, 2, 3])))
        g.emit(["predjoin", g.pred(cols, rng.choice([1, 2])), l1, l2])
    return g


def enum_preds(depth: int):
    """All predicate shapes to the given depth over a small alphabet (C13 thorough)."""
    atoms = [
        ["plit", "T"], ["plit", "F"], ["pref", "a"],
        ["pfn", "lt", "*", ["ref", "a"], ["lit", 1]],
        ["in", ["ref", "b"], ["range", 0, 3, 2]],
    ]
    if depth == 0:
        yield from atoms
        return
    subs = list(enum_preds(depth - 1))
    yield from atoms
    for s in subs:
        yield ["not", s]
    for op in ("and", "or"):
        yield [op]
        for s in subs:
            yield [op, s]
        for s, t in itertools.product(subs, repeat=2):
            yield [op, s, t]


def prog_pred_enum(chunk: int, nchunks: int, depth: int = 2, limit: int | None = None) -> G:
    g = G(0)
    g.engine("e0", "iter")
    rows = [[["a", 0], ["b", 0]], [["a", 1], ["b", 2]], [["a", 2], ["b", 1]]]
    for i, p in enumerate(enum_preds(depth)):
        if limit is not None and i >= limit:
            break
        if i % nchunks != chunk:
            continue
        for binds in rows:
            g.emit(["pred", p, *binds])
    return g


NONKEY = {n for n, k in TAGS if k != "k"}


def prog_sql(seed: int, n_ops: int = 8, *, sorts: float = 1.0, selfjoin: float = 0.03) -> G:
    """SQL-engine programs: the six unary operations, join with/without predicate, chain, nested
    (C02, C08, C11, C17)."""
    g = G(seed, max_rows=4)
    rng = g.rng
    g.engine("e0", "sql")
    for _ in range(rng.choice([2, 2, 3])):
        g.leaf("e0", cols=sorted(rng.sample(BASE_COLS, rng.choice([1, 2, 2, 3]))))
    if rng.random() < 0.1:
        g.doomed("e0")
    if rng.random() < 0.1:
        g.joinid("e0")
    observed: list[str] = []
    if rng.random() < 0.3:
        # scenario: both join operands are pure projections, each hiding a column the other one exposes
        shared = sorted(rng.sample(["a", "b", "d"], rng.choice([2, 3])))
        l1 = g.leaf("e0", cols=sorted(set(shared) | ({"c"} if rng.random() < 0.3 else set())))
        l2 = g.leaf("e0", cols=shared)
        hide1 = rng.choice(shared)
        hide2 = rng.choice([c for c in shared if c != hide1])
        p1 = g.apply(l1, ["proj", *sorted(g.cols[l1] - {hide1})], g.cols[l1] - {hide1})
        p2 = g.apply(l2, ["proj", *sorted(g.cols[l2] - {hide2})], g.cols[l2] - {hide2})
        observed.append(g.join(p1, p2, None) if rng.random() < 0.5 else g.join(p2, p1, None))
    if rng.random() < 0.3:
        # scenario: a UNION carrying recorded operations (any of sort / slice / deduplication, a slice only after a
        # sort), then one more operation: a projection that drops a column (the sort key, or one that made rows
        # distinct), a selection, a calculation, another deduplication / sort / slice.  The engine must nest the UNION
        # whenever the recorded operations have to act BEFORE the new one; a slice must be applied exactly once
        cs = sorted(rng.sample(BASE_COLS, rng.choice([2, 3])))
        u1 = g.leaf("e0", cols=cs, nrows=rng.choice([2, 3, 4]))
        u2 = g.leaf("e0", cols=cs, nrows=rng.choice([1, 2, 3]))
        cur = g.chain(u1, u2)
        key = rng.choice(cs)
        shape = rng.choice(["sort-slice", "sort-slice", "dedup", "dedup", "sort", "sort-dedup", "dedup-sort-slice", "sort-slice-dedup"])
        for what in shape.split("-"):
            if what == "sort":
                terms = [["term", ["ref", key], rng.choice(["asc", "desc"])]]
                if rng.random() < 0.4:
                    terms.append(["term", ["ref", rng.choice(cs)], "asc"])
                cur = g.apply(cur, ["sort", *terms], g.cols[cur])
            elif what == "slice":
                if rng.random() < 0.85:
                    a = rng.choice([0, 0, 1, 2])
                    cur = g.apply(cur, ["slice", a, rng.choice([a + 1, a + 2, a + 3, "-"]), "-"], g.cols[cur])
            else:
                cur = g.apply(cur, ["dedup"], g.cols[cur])
        observed.append(cur)
        last = rng.choice(["proj-key", "proj-key", "proj-any", "proj-any", "other"])
        if last == "proj-key":
            keep = [c for c in cs if c != key]
            observed.append(g.apply(cur, ["proj", *keep], frozenset(keep)))
        elif last == "proj-any":
            drop = rng.choice(cs)
            keep = [c for c in cs if c != drop]
            observed.append(g.apply(cur, ["proj", *keep], frozenset(keep)))
        else:
            op, nc = g.rand_op(g.cols[cur], allow=("calc", "dedup", "sel", "sort") if "slice" not in shape else ("calc", "dedup", "sel"))
            observed.append(g.apply(cur, op, nc))
    if rng.random() < 0.15:
        # scenario: a totally sorted relation cut TWICE (`Slice.then` merges the windows; the second window is relative to
        # the first), optionally with a projection or a selection in between
        cs = sorted(rng.sample(BASE_COLS, rng.choice([1, 2, 2])))
        base = g.leaf("e0", cols=cs, nrows=4)
        ts = [["term", ["ref", c], rng.choice(["asc", "desc"])] for c in cs]
        rng.shuffle(ts)
        cur = g.apply(base, ["sort", *ts], g.cols[base])
        a1 = rng.choice([0, 0, 1, 1, 2])
        cur = g.apply(cur, ["slice", a1 if (a1 or rng.random() < 0.5) else "-", rng.choice([a1 + 2, a1 + 3, a1 + 3, 10, "-"]), "-"],
                      g.cols[cur])
        observed.append(cur)
        mid = rng.random()
        if mid < 0.2 and len(cs) > 1:
            keep = cs[:-1]
            cur = g.apply(cur, ["proj", *keep], frozenset(keep))
        elif mid < 0.35:
            cur = g.apply(cur, ["sel", g.pred(g.cols[cur], 1)], g.cols[cur])
        a2 = rng.choice([0, 1, 1, 2])
        cur = g.apply(cur, ["slice", a2 if (a2 or rng.random() < 0.5) else "-", rng.choice([a2 + 1, a2 + 1, a2 + 2, "-"]), "-"],
                      g.cols[cur])
        observed.append(cur)
    if rng.random() < 0.12:
        # scenario: two consecutive sorts by different columns (the later one takes precedence, the earlier one breaks
        # its ties), then a slice that makes the order observable
        cs = sorted(rng.sample(BASE_COLS, 2))
        base = g.leaf("e0", cols=cs, nrows=4)
        first, second = (cs[0], cs[1]) if rng.random() < 0.5 else (cs[1], cs[0])
        cur = g.apply(base, ["sort", ["term", ["ref", first], rng.choice(["asc", "desc"])]], g.cols[base])
        cur = g.apply(cur, ["sort", ["term", ["ref", second], rng.choice(["asc", "desc"])]], g.cols[cur])
        observed.append(cur)
        a = rng.choice([0, 0, 1])
        observed.append(g.apply(cur, ["slice", a, a + rng.choice([1, 2]), "-"], g.cols[cur]))
    if rng.random() < 0.12:
        # scenario: a sort by a column that a projection then drops together with another column, followed by an
        # operation that has to be nested over the Select (a calculation re-creating the hidden tag, a selection /
        # calculation after a deduplication): the sort must not be lifted to a level that no longer has its column
        cs = sorted(rng.sample(BASE_COLS, 3))
        base = g.leaf("e0", cols=cs, nrows=rng.choice([2, 3, 4]))
        key, hidden, keep = rng.sample(cs, 3)
        cur = g.apply(base, ["sort", ["term", ["ref", key], rng.choice(["asc", "desc"])]], g.cols[base])
        if rng.random() < 0.3:
            cur = g.apply(cur, ["slice", 0, rng.choice([2, 3]), "-"], g.cols[cur])
        cur = g.apply(cur, ["proj", keep], frozenset([keep]))
        if rng.random() < 0.3:
            cur = g.apply(cur, ["dedup"], g.cols[cur])
        observed.append(cur)
        last = rng.random()
        if last < 0.6:
            observed.append(g.apply(cur, ["calc", hidden, ["fn", "neg", "*", ["ref", keep]]], g.cols[cur] | {hidden}))
        elif last < 0.8:
            observed.append(g.apply(cur, ["sel", g.pred(g.cols[cur], 1)], g.cols[cur]))
        else:
            observed.append(g.apply(cur, ["calc", key, ["fn", "add", "*", ["ref", keep], ["lit", 1]]], g.cols[cur] | {key}))
    if rng.random() < 0.12:
        # scenario: a zero-column "guard" relation (project onto nothing, deduplicate) joined to a table
        base = g.leaf("e0", nrows=rng.choice([0, 0, 1, 2]), bounds=rng.choice(["loose", "unbounded", "zero-min"]))
        if rng.random() < 0.5 and g.cols[base]:
            base = g.apply(base, ["sel", g.pred(g.cols[base], 1)], g.cols[base])
        guard = g.apply(g.apply(base, ["proj"], frozenset()), ["dedup"], frozenset())
        other = g.pick(pred=lambda u: not (g.leaves_of.get(u, frozenset()) & g.leaves_of.get(guard, frozenset())))
        observed.append(guard)
        if other is not None:
            observed.append(g.join(other, guard, None) if rng.random() < 0.5 else g.join(guard, other, None))
    if rng.random() < 0.15:
        # scenario: a column calculated directly over a bare table under the NAME of a column of another
        # table, compiled, and then that table joined as the RIGHT operand with the other one: the shared
        # leaf payload must not have learnt the calculated column (every output column comes from an
        # operand that actually exposes it)
        keys = sorted(rng.sample(["a", "b", "d"], rng.choice([1, 2])))
        ta_ = g.leaf("e0", cols=keys, nrows=rng.choice([2, 3, 4]))
        tb_ = g.leaf("e0", cols=sorted(set(keys[:1]) | {"c"}), nrows=rng.choice([2, 3, 4]))
        cal = g.apply(ta_, ["calc", "c", ["fn", "add", "*", ["ref", keys[0]], ["lit", 100]]], g.cols[ta_] | {"c"})
        g.emit(["sqlexec", cal])
        g.emit(["sem", cal])
        observed.append(g.join(tb_, ta_, None))
    if rng.random() < 0.15:
        # scenario: both operands expose a column the join does NOT equate - a shared non-key column, or a shared
        # key left out by `max_columns` - and the join predicate reads it: the ON clause and the select list must
        # take that column from the same operand (the output rows satisfy the predicate)
        k0 = rng.choice(["a", "b", "d"])
        if rng.random() < 0.5:
            shared, cap = "c", None
        else:
            shared, cap = rng.choice([c for c in ["a", "b", "d"] if c != k0]), {k0}
        t1 = g.leaf("e0", cols=sorted({k0, shared}), nrows=rng.choice([3, 4, 5]))
        t2 = g.leaf("e0", cols=sorted({k0, shared} | set(rng.sample(["x", "z"], rng.choice([0, 1])))),
                    nrows=rng.choice([3, 4, 5]))
        f = rng.choice(["lt", "le", "gt", "ge", "eq", "ne"])
        other = ["lit", rng.choice([0, 1, 2])] if rng.random() < 0.6 else ["ref", k0]
        pred = ["pfn", f, "*", ["ref", shared], other]
        if rng.random() < 0.4:
            t1 = g.apply(t1, ["proj"], frozenset({k0, shared}))
        j = g.joinmax(t1, t2, cap, pred) if cap is not None else g.join(t1, t2, pred)
        observed.append(j)
        if rng.random() < 0.5:
            observed.append(g.apply(j, ["dedup"], g.cols[j]))
    if rng.random() < 0.1:
        # scenario: an expression holding a function only the OTHER engine family supports - at its root or nested
        # under unrestricted functions - requested inside the database: refused at the call, or else compilable
        t = g.pick(pred=lambda x: bool(g.cols[x]))
        if t is not None:
            e = nest_restricted(rng, ["fn", "o:special", "iter", ["ref", rng.choice(sorted(g.cols[t]))]])
            tagc = [x for x in NEW_TAGS if x not in g.cols[t]]
            kind_ = rng.choice(["sel", "sort", "calc", "calc"])
            if kind_ == "calc" and tagc:
                op_ = ["calc", tagc[0], e]
            elif kind_ == "sort":
                op_ = ["sort", ["term", e, "asc"]]
            else:
                op_ = ["sel", ["pfn", "lt", "*", e, ["lit", 1]]]
            r_ = g.fresh()
            g.emit(["apply", r_, t, op_, g.opts()])
            g.emit(["sqlexec", r_])
    allow = ["calc", "dedup", "proj", "sel", "slice"] + (["sort"] if rng.random() < sorts else [])
    for _ in range(n_ops):
        k = rng.random()
        t = g.pick()
        if t is None:
            break
        if k < 0.62:
            op, nc = g.rand_op(g.cols[t], allow=tuple(allow))
            r = g.apply(t, op, nc)
        elif k < 0.8:
            cands = [u for u in g.cols if g.cols[u] == g.cols[t]]
            r = g.chain(t, rng.choice(cands))
        else:
            def ok(u: str) -> bool:
                shared_nonkey = (g.cols[u] & g.cols[t]) & NONKEY
                return not shared_nonkey and (u != t or rng.random() < selfjoin)

            u = g.pick(pred=ok)
            if u is None:
                continue
            pred = None
            if rng.random() < 0.45 and (g.cols[t] | g.cols[u]):
                pred = g.pred(g.cols[t] | g.cols[u], 1)
            if rng.random() < 0.12:
                # the binary operation applied directly, common columns given explicitly (the shared key columns)
                r = g.joinb(t, u, sorted(c for c in g.cols[t] & g.cols[u] if KEY[c]), pred)
            else:
                r = g.join(t, u, pred)
        observed.append(r)
    for r in dict.fromkeys(observed):
        g.emit(["sqlexec", r])
        g.emit(["sem", r])
    return g


def prog_multi(seed: int, n_ops: int = 8, *, three: float = 0.3, prefs: float = 0.6) -> G:
    """Multi-engine programs (SQL + iteration [+ second iteration engine]): preferred-engine
    options, transfers, materializations, chains, joins; every result is processed and executed
    (C03, C07, C10, C14, C15)."""
    g = G(seed, max_rows=4)
    rng = g.rng
    g.engine("e0", "sql")
    g.engine("e1", "iter")
    engines = ["e0", "e1"]
    if rng.random() < three:
        g.engine("e2", "iter")
        engines.append("e2")
    for _ in range(rng.choice([1, 2])):
        g.leaf("e0", cols=sorted(rng.sample(BASE_COLS, rng.choice([1, 2, 3]))))
    for _ in range(rng.choice([1, 1, 2])):
        g.leaf("e1", cols=sorted(rng.sample(BASE_COLS, rng.choice([1, 2, 3]))))
    if rng.random() < 0.12:
        g.doomed(rng.choice(["e0", "e1"]))
    if rng.random() < 0.12:
        g.joinid(rng.choice(["e0", "e1"]))
    observed: list[str] = []
    sc = rng.random()
    if sc < 0.15:
        # scenario: materialization of a chain whose LEFT branch is statically empty (has a payload),
        # the right one needing real work; processed repeatedly
        src = g.pick()
        e_src = g.eng[src]
        other = rng.choice([e for e in engines if e != e_src])
        base = g.transfer(src, other)
        op, nc = g.rand_op(g.cols[base], allow=("sel", "calc", "dedup"))
        rhs = g.apply(base, op, nc)
        if g.cols[rhs] == g.cols[base] or True:
            lhs = g.doomed(other, cols=sorted(g.cols[rhs]))
            ch = g.chain(lhs, rhs) if rng.random() < 0.7 else g.chain(rhs, lhs)
            m = g.mat(ch)
            observed += [m]
            if g.cols[m]:
                op2, nc2 = g.rand_op(g.cols[m], allow=("proj", "sel"))
                observed.append(g.apply(m, op2, nc2))
    elif sc < 0.27:
        # scenario: transfer round trips with a (locked) materialization in between
        src = g.pick()
        others = [e for e in engines if e != g.eng[src]]
        mid = rng.choice(others)
        cur = g.transfer(src, mid)
        if rng.random() < 0.4 and g.cols[cur]:
            op, nc = g.rand_op(g.cols[cur], allow=("sel", "calc", "proj"))
            cur = g.apply(cur, op, nc)
        m = g.mat(cur)
        hop = m
        if len(engines) > 2 and rng.random() < 0.5:
            third = rng.choice([e for e in engines if e not in (mid,)])
            hop = g.transfer(m, third)
        back = g.transfer(hop, g.eng[src])
        observed += [m, back]
        if g.cols[back]:
            op, nc = g.rand_op(g.cols[back], allow=("sel", "proj", "calc"))
            observed.append(g.apply(back, op, nc, g.opts(rng.choice(engines), rng.random() < 0.7, rng.random() < 0.5, False)))
    elif sc < 0.40:
        # scenario: a downstream sort after a transfer, then a new sort sharing terms with it,
        # preferred in the source engine (which is an order-preserving engine most of the time)
        iters = [r for r in g.cols if g.kind[g.eng[r]] == "iter" and g.cols[r]]
        src = rng.choice(iters) if iters and rng.random() < 0.8 else g.pick()
        other = rng.choice([e for e in engines if e != g.eng[src]])
        cur = g.transfer(src, other)
        cs = sorted(g.cols[cur])
        if cs:
            t1 = [["term", ["ref", c], rng.choice(["asc", "desc"])] for c in rng.sample(cs, min(len(cs), rng.choice([1, 2])))]
            s1 = g.apply(cur, ["sort", *t1], g.cols[cur])
            extra = [["term", ["ref", c], "asc"] for c in cs if all(c != t[1][1] for t in t1)][:1]
            t2 = rng.choice([t1[::-1], t1[-1:], extra + t1, extra + t1, t1 + extra, t1[:1]])
            if t2:
                plain = g.apply(s1, ["sort", *t2], g.cols[cur])
                pr = g.apply(s1, ["sort", *t2], g.cols[cur],
                             g.opts(g.eng[src], True, rng.random() < 0.3, rng.random() < 0.3))
                observed += [plain, pr]
    elif sc < 0.52:
        # scenario: operations downstream of a transfer, then a projection onto the columns of an
        # ancestor, preferred in the source engine
        src = g.pick()
        other = rng.choice([e for e in engines if e != g.eng[src]])
        cur = g.transfer(src, other)
        anc = [cur]
        for _ in range(rng.choice([1, 2])):
            op, nc = g.rand_op(g.cols[cur], allow=("calc", "sel", "dedup", "sort"))
            cur = g.apply(cur, op, nc)
            anc.append(cur)
        target_cols = g.cols[rng.choice(anc[:-1])]
        if False:
            # a downstream sort, then a new sort sharing terms with it, preferred in the source engine
            cs = sorted(g.cols[cur])
            t1 = [["term", ["ref", c], rng.choice(["asc", "desc"])] for c in rng.sample(cs, min(len(cs), rng.choice([1, 2])))]
            s1 = g.apply(cur, ["sort", *t1], g.cols[cur])
            extra = [["term", ["ref", c], "asc"] for c in cs if all(c != t[1][1] for t in t1)][:1]
            t2 = rng.choice([t1[::-1], t1[-1:], extra + t1, t1 + extra, t1[:1]])
            if t2:
                plain = g.apply(s1, ["sort", *t2], g.cols[cur])
                pr = g.apply(s1, ["sort", *t2], g.cols[cur],
                             g.opts(g.eng[src], True, rng.random() < 0.3, rng.random() < 0.3))
                observed += [plain, pr]
        elif target_cols <= g.cols[cur]:
            plain = g.apply(cur, ["proj", *sorted(target_cols)], target_cols)
            pr = g.apply(cur, ["proj", *sorted(target_cols)], target_cols,
                         g.opts(g.eng[src], True, rng.random() < 0.3, rng.random() < 0.3))
            observed += [plain, pr]
    elif sc < 0.62:
        # scenario: a Transfer that already HOLDS a payload (attach_payload is public API, and
        # processed trees contain such nodes), operations downstream of it, then an operation with a
        # preferred engine that forces back-tracking through them and (usually) cannot finish
        src = g.pick()
        other = rng.choice([e for e in engines if e != g.eng[src]])
        cur = g.transfer(src, other)
        g.emit(["attach", cur])
        for _ in range(rng.choice([1, 1, 2])):
            if not g.cols[cur]:
                break
            op, nc = g.rand_op(g.cols[cur], allow=("proj", "proj", "sel", "calc", "sort"))
            cur = g.apply(cur, op, nc)
        if g.cols[cur]:
            op, nc = g.rand_op(g.cols[cur], allow=("calc", "calc", "proj", "sel", "sort", "dedup"))
            pref = rng.choice(engines)
            plain = g.apply(cur, op, nc)
            pr = g.apply(cur, op, nc, g.opts(pref, True, rng.random() < 0.5, False))
            observed += [plain, pr]
    elif sc < 0.72:
        # scenario: the join key of the target is CALCULATED (or projected away) downstream of a
        # transfer; the join is preferred in the source engine, so back-tracking must not carry it
        # upstream of the operation that creates (or drops) the key
        e_src, e_mid = ("e0", "e1") if rng.random() < 0.7 else ("e1", "e0")
        base_cols = sorted(rng.sample(["a", "b", "c", "d"], rng.choice([1, 2])))
        src = g.leaf(e_src, cols=base_cols)
        cur = g.transfer(src, e_mid)
        keytag = "y"
        cur = g.apply(cur, ["calc", keytag, ["fn", "add", "*", ["ref", base_cols[0]], ["lit", rng.choice([0, 1])]]],
                      g.cols[cur] | {keytag})
        if rng.random() < 0.3:
            op, nc = g.rand_op(g.cols[cur], allow=("sel", "sort"))
            cur = g.apply(cur, op, nc)
        other_cols = sorted({keytag} | set(rng.sample(["x", "z", "c"], rng.choice([0, 1]))))
        other = g.leaf(e_src, cols=other_cols)
        for bt, tr in ((True, True), (True, False)):
            observed.append(g.join(cur, other, None, bt=bt, tr=tr))
    elif sc < 0.82:
        # scenario: a column is used (selection), projected away and then RE-CREATED by a calculation of
        # the same name; a projection onto it is preferred in the source engine (back-tracking widens
        # projections on the way down and must not leak the old column past the projection that dropped it)
        src_e, mid = ("e1", "e2") if ("e2" in engines and rng.random() < 0.7) else (rng.choice(engines), None)
        if mid is None:
            mid = rng.choice([e for e in engines if e != src_e])
        cs = sorted(rng.sample(["a", "b", "c", "d"], rng.choice([2, 3])))
        src = g.leaf(src_e, cols=cs)
        cur = g.transfer(src, mid)
        dropped = rng.choice(cs)
        kept = [c for c in cs if c != dropped]
        cur = g.apply(cur, ["sel", ["pfn", rng.choice(["gt", "ge", "ne"]), "*", ["ref", dropped], ["lit", rng.choice([0, 1])]]],
                      g.cols[cur])
        cur = g.apply(cur, ["proj", *kept], frozenset(kept))
        cur = g.apply(cur, ["calc", dropped, ["fn", "add", "*", ["ref", kept[0]], ["lit", rng.choice([0, 1])]]],
                      frozenset(kept) | {dropped})
        want = sorted({dropped} | set(rng.sample(kept, rng.choice([0, 1]))))
        plain = g.apply(cur, ["proj", *want], frozenset(want))
        pr = g.apply(cur, ["proj", *want], frozenset(want), g.opts(src_e, True, rng.random() < 0.4, False))
        observed += [plain, pr]
    if rng.random() < 0.12:
        # scenario: a materialization over an OPERATION whose (re-processed) target reports "was materialized": a
        # materialization directly after a transfer, or a chain pruned to a payload-holding operand.  The outer
        # materialization must still get its own payload (its rows are not the inner one's)
        eng_ = rng.choice(engines)
        other_ = rng.choice([e for e in engines if e != eng_])
        cs = sorted(rng.sample(["a", "b", "d"], rng.choice([1, 2])))
        if rng.random() < 0.55:
            inner = g.mat(g.transfer(g.leaf(other_, cols=cs, nrows=rng.choice([2, 3, 4])), eng_))
        else:
            lf = g.leaf(eng_, cols=cs, nrows=rng.choice([2, 3, 4]))
            dm = g.doomed(eng_, cols=cs)
            inner = g.chain(lf, dm) if rng.random() < 0.5 else g.chain(dm, lf)
        op, nc = g.rand_op(g.cols[inner], allow=("sel", "calc", "sel"))
        outer = g.mat(g.apply(inner, op, nc))
        observed.append(outer)
        if rng.random() < 0.5 and g.cols[outer]:
            op2, nc2 = g.rand_op(g.cols[outer], allow=("sel", "proj"))
            observed.append(g.apply(outer, op2, nc2))
    if rng.random() < 0.1:
        # scenario: an operation whose expression only ONE engine family supports, requested with a preferred engine
        # of that family from a relation of the other family, under every backtrack / transfer / require combination,
        # sometimes with a slice or a materialization in the way of back-tracking: wherever the operation lands, its
        # engine must support it - otherwise the call raises
        t = g.pick(pred=lambda x: bool(g.cols[x]))
        if t is not None:
            otherk = "sql" if g.kind[g.eng[t]] == "iter" else "iter"
            prefs_ = [e for e in engines if g.kind[e] == otherk]
            if prefs_:
                if rng.random() < 0.5:
                    t = g.apply(t, ["slice", rng.choice([0, 1]), rng.choice(["-", 3]), "-"], g.cols[t]) \
                        if rng.random() < 0.6 else g.mat(t)
                e = nest_restricted(rng, ["fn", "o:special", otherk, ["ref", rng.choice(sorted(g.cols[t]))]])
                tagc = [x for x in NEW_TAGS if x not in g.cols[t]]
                kind_ = rng.choice(["sel", "sel", "sort", "calc"])
                if kind_ == "calc" and tagc:
                    op_ = ["calc", tagc[0], e]
                elif kind_ == "sort":
                    op_ = ["sort", ["term", e, "asc"]]
                else:
                    op_ = ["sel", ["pfn", "lt", "*", e, ["lit", 1]]]
                g.emit(["apply", g.fresh(), t, op_, g.opts(rng.choice(prefs_), rng.random() < 0.7, rng.random() < 0.4,
                                                            rng.random() < 0.3)])
    if rng.random() < 0.1:
        # scenario: a SELECTIVE join (shared key) with a fixed relation of AT MOST ONE row - a one-row table, or the
        # first row of a sorted table - requested from a relation that was cut by a Slice downstream of a transfer; the
        # join prefers the source engine, and back-tracking must not carry it upstream of the count-dependent Slice
        # (joining filters rows even when it cannot multiply them)
        k0 = rng.choice(["a", "b", "d"])
        cs = sorted({k0} | set(rng.sample(["a", "b", "d"], rng.choice([0, 1]))))
        src = g.leaf("e0", cols=cs, nrows=rng.choice([3, 4, 5]))
        cur = g.transfer(src, "e1")
        cur = g.apply(cur, ["sort", *[["term", ["ref", c], rng.choice(["asc", "desc"])] for c in cs]], g.cols[cur])
        cur = g.apply(cur, ["slice", rng.choice([0, 0, 1]), rng.choice([1, 2, 2]), "-"], g.cols[cur])
        fcols = sorted({k0} | set(rng.sample(["x", "z"], rng.choice([0, 1]))))
        if rng.random() < 0.5:
            fixed = g.leaf("e0", cols=fcols, nrows=1, bounds="exact")
        else:
            fixed = g.leaf("e0", cols=fcols, nrows=rng.choice([2, 3]))
            fixed = g.apply(fixed, ["sort", ["term", ["ref", k0], rng.choice(["asc", "desc"])]], g.cols[fixed])
            fixed = g.apply(fixed, ["slice", 0, 1, "-"], g.cols[fixed])
        for tr in (False, True):
            observed.append(g.join(cur, fixed, None, bt=True, tr=tr))
    if rng.random() < 0.1:
        # scenario: a materialization INSIDE the database that already holds a payload (an earlier `process` attached it) is
        # used again - as an operand of a join or a chain with a relation transferred into the database, or under another
        # operation: every rebuild of the tree must keep that very node, payload included
        cs = sorted(rng.sample(["a", "b", "d"], rng.choice([1, 2])))
        src = g.leaf("e0", cols=cs, nrows=rng.choice([2, 3, 4]))
        if rng.random() < 0.6:
            src = g.apply(src, ["sel", g.pred(g.cols[src], 1)], g.cols[src])
        m = g.mat(src)
        g.emit(["process", "w" + m[1:], m])
        how = rng.random()
        if how < 0.45:
            other = g.transfer(g.leaf("e1", cols=cs, nrows=rng.choice([1, 2, 3])), "e0")
            observed.append(g.chain(m, other) if rng.random() < 0.5 else g.chain(other, m))
        elif how < 0.8:
            k2 = sorted({rng.choice(cs)} | {rng.choice(["a", "b", "d"])})
            other = g.transfer(g.leaf("e1", cols=k2, nrows=rng.choice([1, 2, 3])), "e0")
            observed.append(g.join(m, other, None) if rng.random() < 0.5 else g.join(other, m, None))
        else:
            op, nc = g.rand_op(g.cols[m], allow=("sel", "calc", "proj", "sort"))
            observed.append(g.apply(m, op, nc))
        observed.append(m)
    if rng.random() < 0.1:
        # scenario: the fixed relation of a join has a non-common column named like a column the target HID
        # (a projection downstream of a transfer); back-tracking must not move the join to where the hidden
        # column would shadow the fixed relation's one - the fixed relation on either side
        e_up = rng.choice(engines)
        e_down = rng.choice([e for e in engines if e != e_up])
        extra = rng.choice([[], ["d"]])
        t0 = g.leaf(e_up, cols=sorted(["a", "c"] + extra), nrows=rng.choice([2, 3, 4]))
        fixed = g.leaf(e_up, cols=["a", "c"], nrows=rng.choice([2, 3, 4]))
        cur = g.transfer(t0, e_down)
        keep = sorted(["a"] + extra)
        cur = g.apply(cur, ["proj", *keep], frozenset(keep))
        if rng.random() < 0.3:
            cur = g.apply(cur, ["dedup"], g.cols[cur])
        observed.append(g.joinp(cur, fixed, None, g.opts(rng.choice(["-", e_up]), True, rng.random() < 0.6, False),
                                fixed_lhs=rng.random() < 0.6))
    for _ in range(n_ops):
        k = rng.random()
        t = g.pick()
        if t is None:
            break
        if k < 0.5:
            op, nc = g.rand_op(g.cols[t], allow=("calc", "dedup", "proj", "sel", "sort", "sortslice"))
            if rng.random() < prefs:
                pref = rng.choice(engines)
                bt, tr, req = rng.random() < 0.75, rng.random() < 0.35, rng.random() < 0.3
                plain = g.apply(t, op, nc)           # the same request issued plainly, for comparison
                observed.append(plain)
                r = g.apply(t, op, nc, g.opts(pref, bt, tr, req))
                if tr and not bt:
                    g.eng[r] = pref
            else:
                r = g.apply(t, op, nc)
        elif k < 0.68:
            iters_ = [e for e in engines if g.kind[e] == "iter"]
            if rng.random() < 0.12:
                # `Engine.transfer` with an explicit payload: half of the time towards the engine the target already
                # lives in (directly, or after a there-and-back pair is simplified away) - that must be refused
                if g.kind[g.eng[t]] == "iter" and rng.random() < 0.5:
                    dest = g.eng[t]
                    if rng.random() < 0.5:
                        t = g.transfer(t, rng.choice([e for e in engines if e != dest]))
                else:
                    dest = rng.choice(iters_)
                r = g.transferp(t, dest)
                # the call may be refused: later commands must not depend on it (the returned tree itself is compared
                # and walked)
                del g.cols[r]
                continue
            r = g.transfer(t, rng.choice(engines))
        elif k < 0.78:
            r = g.mat(t)
        elif k < 0.87:
            cands = [u for u in g.cols if g.cols[u] == g.cols[t] and g.eng[u] == g.eng[t]]
            r = g.chain(t, rng.choice(cands))
        else:
            def ok(u: str) -> bool:
                # operands read disjoint leaves: no self-joins and never one object under two names
                return not ((g.cols[u] & g.cols[t]) & NONKEY) and \
                    not (g.leaves_of.get(u, frozenset()) & g.leaves_of.get(t, frozenset()))

            u = g.pick(pred=ok)
            if u is None:
                continue
            pred = g.pred(g.cols[t] | g.cols[u], 1) if rng.random() < 0.4 and (g.cols[t] | g.cols[u]) else None
            if rng.random() < 0.15:
                # common columns capped by max_columns (a cap may name columns that are not shared keys)
                shared = sorted(g.cols[t] & g.cols[u])
                cap = set(rng.sample(shared, rng.randint(0, len(shared)))) | set(rng.sample(BASE_COLS, rng.choice([0, 1])))
                r = g.joinmax(t, u, cap, pred, g.opts(rng.choice(["-", "-"] + engines), rng.random() < 0.7,
                                                      rng.random() < 0.6, False))
            elif rng.random() < 0.3:
                r = g.joinp(t, u, pred, g.opts(rng.choice(["-"] + engines), rng.random() < 0.7, rng.random() < 0.6,
                                               rng.random() < 0.2), fixed_lhs=rng.random() < 0.4)
            else:
                r = g.join(t, u, pred, bt=rng.random() < 0.7, tr=rng.random() < 0.6)
        observed.append(r)
    if rng.random() < 0.14:
        # an ORDER- or COUNT-dependent request (slice, deduplication, selection) with a preferred engine, over
        # operations that change the order or the count (descending sort, selection, slice, deduplication)
        # downstream of a transfer between two order-preserving engines: back-tracking must stop at them
        if "e2" not in engines:
            g.engine("e2", "iter")
            engines.append("e2")
        e_src, e_mid = rng.choice([("e1", "e2"), ("e2", "e1")])
        cs = sorted(rng.sample(["a", "b", "d"], 2))
        src = g.leaf(e_src, cols=cs, nrows=4)
        cur = g.transfer(src, e_mid)
        if rng.random() < 0.5:
            op, nc = g.rand_op(g.cols[cur], allow=("calc",))
            cur = g.apply(cur, op, nc)
        for _ in range(rng.choice([1, 1, 2])):
            blk = rng.choice(["sortdesc", "sortdesc", "sel", "slice", "dedup"])
            if blk == "sortdesc":
                op = ["sort", ["term", ["ref", rng.choice(cs)], "desc"]]
            elif blk == "sel":
                op = ["sel", ["pfn", rng.choice(["gt", "ge", "ne"]), "*", ["ref", rng.choice(cs)], ["lit", rng.choice([0, 1])]]]
            elif blk == "slice":
                op = ["slice", rng.choice([1, 2]), "-", "-"]
            else:
                op = ["dedup"]
            cur = g.apply(cur, op, g.cols[cur])
        req = rng.choice(["slice", "slice", "slice", "dedup", "sel"])
        if req == "slice":
            a = rng.choice([0, 0, 1])
            op2 = ["slice", a if a else "-", rng.choice([a + 1, a + 2, "-"]) if a else rng.choice([1, 2]), "-"]
        elif req == "dedup":
            op2 = ["dedup"]
        else:
            op2 = ["sel", ["pfn", rng.choice(["gt", "lt", "ne"]), "*", ["ref", rng.choice(cs)], ["lit", rng.choice([0, 1, 2])]]]
        plain = g.apply(cur, op2, g.cols[cur])
        pr = g.apply(cur, op2, g.cols[cur], g.opts(e_src, True, rng.random() < 0.4, rng.random() < 0.25))
        observed += [plain, pr]
    if rng.random() < 0.1:
        # a SORTED (unsliced) SQL relation sent to an iteration engine and straight back: the round trip
        # returns the original relation, so a further sort on another column still breaks ties by the
        # first one (and chaining / materializing it is still refused)
        cs = sorted(rng.sample(["a", "b", "d"], 2))
        src = g.leaf("e0", cols=cs, nrows=rng.choice([3, 4]))
        s1 = g.apply(src, ["sort", ["term", ["ref", cs[1]], rng.choice(["asc", "desc"])]], g.cols[src])
        there = g.transfer(s1, rng.choice([e for e in engines if e != "e0"]))
        back = g.transfer(there, "e0")
        s2 = g.apply(back, ["sort", ["term", ["ref", cs[0]], rng.choice(["asc", "desc"])]], g.cols[back])
        observed += [back, s2]
        if rng.random() < 0.5:
            g.emit(["mat", g.fresh(), back, f"M{g.n}"])      # must be refused: it would lose the order
    if rng.random() < 0.1:
        # two SQL tables sharing a key AND a non-key column, joined (through a transfer, so that the join is
        # back-tracked into the SQL engine) with max_columns naming both: only the shared KEY is a common column
        k0 = rng.choice(["a", "b", "d"])
        l1 = g.leaf("e0", cols=sorted({k0, "c"}), nrows=rng.choice([2, 3]))
        l2 = g.leaf("e0", cols=sorted({k0, "c"} | set(rng.sample(["a", "b", "d"], 1))), nrows=rng.choice([2, 3]))
        lhs = g.transfer(l1, "e1") if rng.random() < 0.5 else l1
        observed.append(g.joinmax(lhs, l2, {k0, "c"}, None, g.opts("-", True, rng.random() < 0.5, False)))
    if rng.random() < 0.1:
        # a join inside ONE engine whose predicate uses a function only the other engine family
        # supports: must be refused (EngineError), never built (C14: expressions are supported by
        # the engine of the node holding them)
        t = g.pick(pred=lambda x: bool(g.cols[x]))
        if t is not None:
            partners = [u for u in g.cols if g.eng[u] == g.eng[t] and not (g.cols[u] & g.cols[t] & NONKEY)
                        and not (g.leaves_of.get(u, frozenset()) & g.leaves_of.get(t, frozenset()))]
            if partners:
                otherk = "sql" if g.kind[g.eng[t]] == "iter" else "iter"
                e = nest_restricted(rng, ["fn", "o:special", otherk, ["ref", rng.choice(sorted(g.cols[t]))]])
                g.emit(["join", g.fresh(), t, rng.choice(partners), ["pfn", "lt", "*", e, ["lit", 1]],
                        rng.choice(["T", "F"]), rng.choice(["T", "F"])])
    for r in dict.fromkeys(observed):
        p = "p" + r[1:]
        g.emit(["process", p, r])
        g.emit(["exec", p])
        g.emit(["sqlexec", p])
        g.emit(["sem", r])
        if rng.random() < 0.4:
            q = "q" + r[1:]
            g.emit(["process", q, r])
            g.emit(["exec", q])
            g.emit(["sqlexec", q])
    return g


def prog_shortcuts(seed: int) -> G:
    """The short-cuts keyed on static metadata (C06): chains with statically empty / join-identity / zero-column
    operands, joins with a join identity, empty-result short-circuits - in one engine and across engines, built,
    processed by a real Processor and executed.  Only default options (no preferred engine), no nested chains."""
    g = G(seed, max_rows=4)
    rng = g.rng
    g.engine("e0", "sql")
    g.engine("e1", "iter")
    g.engine("e2", "iter")
    observed: list[str] = []
    for _ in range(rng.choice([1, 2])):
        eng = rng.choice(["e1", "e1", "e2", "e0"])
        base = g.leaf(eng, cols=sorted(rng.sample(["a", "b", "d"], rng.choice([1, 2]))), nrows=rng.choice([1, 2, 3, 4]))
        sc = rng.random()
        if sc < 0.45:
            # a zero-column relation (n rows, or 1 after deduplication) chained with a join identity / itself
            z = g.apply(base, ["proj"], frozenset())
            if rng.random() < 0.4:
                z = g.apply(z, ["dedup"], frozenset())
            if rng.random() < 0.3:
                z = g.apply(z, ["sel", ["plit", "T"]], frozenset())
            other = g.joinid(eng) if rng.random() < 0.7 else g.apply(base, ["proj"], frozenset())
            ch = g.chain(z, other) if rng.random() < 0.5 else g.chain(other, z)
            cur = ch
        elif sc < 0.75:
            # a statically empty branch next to a real one
            d = g.doomed(eng, cols=sorted(g.cols[base]))
            x = base
            if rng.random() < 0.5:
                op, nc = g.rand_op(g.cols[base], allow=("sel", "dedup", "sort"))
                x = g.apply(base, op, nc)
            cur = g.chain(d, x) if rng.random() < 0.5 else g.chain(x, d)
        else:
            # a join with a join identity (elided), with and without a predicate
            j = g.joinid(eng)
            pred = g.pred(g.cols[base], 1) if rng.random() < 0.4 else None
            cur = g.join(base, j, pred) if rng.random() < 0.5 else g.join(j, base, pred)
        observed.append(cur)
        if rng.random() < 0.6:
            other_eng = rng.choice([x for x in ["e0", "e1", "e2"] if x != g.eng[cur]])
            cur = g.transfer(cur, other_eng)
            observed.append(cur)
        if rng.random() < 0.5:
            cur = g.mat(cur)
            observed.append(cur)
        if g.cols[cur] and rng.random() < 0.4:
            op, nc = g.rand_op(g.cols[cur], allow=("sel", "dedup"))
            observed.append(g.apply(cur, op, nc))
    for r in dict.fromkeys(observed):
        p = "p" + r[1:]
        g.emit(["process", p, r])
        g.emit(["exec", p])
        g.emit(["sqlexec", p])
        g.emit(["sem", r])
    return g


def prog_history(seed: int, n_ops: int = 6, n_events: int = 10) -> G:
    """Histories of attach / execute / process over trees that share materialization nodes (C10)."""
    g = G(seed, max_rows=4)
    rng = g.rng
    g.engine("e0", "iter")
    two = rng.random() < 0.5
    if two:
        g.engine("e1", "sql")
    g.leaf("e0")
    g.leaf("e0")
    if two:
        g.leaf("e1", cols=sorted(rng.sample(BASE_COLS, 2)))
    mats: list[str] = []
    rels: list[str] = []
    for _ in range(n_ops):
        t = g.pick()
        k = rng.random()
        if k < 0.35 or not mats:
            r = g.mat(t)
            mats.append(r)
        elif k < 0.75:
            base = rng.choice(mats) if rng.random() < 0.7 else t
            op, nc = g.rand_op(g.cols[base], allow=("calc", "proj", "sel", "dedup", "sort"))
            r = g.apply(base, op, nc)
        elif k < 0.85 and two:
            r = g.transfer(t, "e0" if g.eng[t] == "e1" else "e1")
        else:
            base = rng.choice(mats)
            cands = [u for u in g.cols if g.cols[u] == g.cols[base] and g.eng[u] == g.eng[base]
                     and u not in g.has_chain]
            if base in g.has_chain or not cands:
                continue
            r = g.chain(base, rng.choice(cands))
        rels.append(r)
    if rng.random() < 0.25:
        # scenario: a materialization directly after a transfer INTO an iteration engine whose result is
        # EMPTY (the payload the transfer hook produces is an empty row sequence), shared by two trees
        # that are processed one after the other: the materialization must gain that payload at the
        # first processing and the hook must not run again
        if not two and "e2" not in g.kind:
            g.engine("e2", "iter")
        srcs = [x for x in g.cols if g.cols[x] and g.eng[x] != "e0" and x in g.leaf_rels]
        if not srcs:
            srcs = [g.leaf("e1" if two else "e2", cols=sorted(rng.sample(BASE_COLS, 2)))]
        src = rng.choice(srcs)
        c = rng.choice(sorted(g.cols[src]))
        none = g.apply(src, ["sel", ["pfn", "lt", "*", ["ref", c], ["lit", -5]]], g.cols[src])
        tr = g.transfer(none, "e0")
        m = g.mat(tr)
        mats.append(m)
        u1 = g.apply(m, ["dedup"], g.cols[m])
        u2 = g.apply(m, ["sort", ["term", ["ref", c], "asc"]], g.cols[m])
        for k2, u in enumerate((u1, u2)):
            pz = f"z{k2}"
            g.emit(["process", pz, u])
            g.emit(["show", m])
            g.emit(["exec", pz])
            g.emit(["sem", u])
    if rng.random() < 0.2:
        # scenario: a materialization of a chain with a statically EMPTY branch (a doomed leaf, which has a
        # payload) next to a branch that needs real work, shared by two trees processed one after the
        # other: the survivor's own "already persisted" flag decides whether the materialize hook runs
        srcs = [x for x in g.cols if g.cols[x] and x in g.leaf_rels and x not in g.has_chain]
        if srcs:
            src = rng.choice(srcs)
            c = rng.choice(sorted(g.cols[src]))
            work = g.apply(src, ["sel", ["pfn", "ge", "*", ["ref", c], ["lit", 0]]], g.cols[src])
            dm = g.doomed(g.eng[src], cols=sorted(g.cols[src]))
            ch = g.chain(dm, work) if rng.random() < 0.5 else g.chain(work, dm)
            m = g.mat(ch)
            mats.append(m)
            u1 = g.apply(m, ["sel", ["pfn", "ge", "*", ["ref", c], ["lit", 0]]], g.cols[m])
            u2 = g.apply(m, ["slice", 0, 2, "-"], g.cols[m])
            for k2, u in enumerate((u1, u2, u1)):
                pz = f"y{k2}"
                g.emit(["process", pz, u])
                g.emit(["show", m])
                g.emit(["exec", pz])
                g.emit(["sem", u])
    for i in range(n_events):
        r = rng.choice(rels + mats)
        k = rng.random()
        if k < 0.5:
            g.emit(["exec", r])
            g.emit(["sem", r])
            g.emit(["show", r])
        elif k < 0.7:
            g.emit(["attach", r])
            g.emit(["show", r])
        else:
            p = f"p{i}"
            g.emit(["process", p, r])
            g.emit(["exec", p])
            g.emit(["sqlexec", p])
            g.emit(["sem", r])
            g.emit(["show", r])
    return g


def prog_diag(seed: int, n_ops: int = 7) -> G:
    """Diagnostics over trees with doomed / identity leaves, trivially false predicates and
    zero-limit slices, in both engines, with and without a truthful executor (C16)."""
    g = G(seed, max_rows=3)
    rng = g.rng
    eng = rng.choice(["iter", "sql"])
    g.engine("e0", eng)
    for _ in range(2):
        g.leaf("e0", nrows=rng.choice([0, 0, 1, 2, 3]))
    if rng.random() < 0.5:
        g.doomed("e0")
    if rng.random() < 0.3:
        g.joinid("e0")
    observed = list(g.cols)
    for _ in range(n_ops):
        t = g.pick()
        k = rng.random()
        if k < 0.15:
            r = g.apply(t, ["sel", rng.choice([["plit", "F"], ["and", ["plit", "T"], ["plit", "F"]],
                                               ["not", ["plit", "T"]], ["or"]])], g.cols[t])
        elif k < 0.27:
            a = rng.choice([0, 1, 2])
            r = g.apply(t, ["slice", a, a, "-"], g.cols[t])
        elif k < 0.7:
            allow = ("calc", "dedup", "proj", "sel", "slice") + (("sort",) if eng == "iter" else ())
            op, nc = g.rand_op(g.cols[t], allow=allow)
            r = g.apply(t, op, nc)
        elif k < 0.85:
            cands = [u for u in g.cols if g.cols[u] == g.cols[t] and u not in g.has_chain]
            if t in g.has_chain or not cands:
                continue
            r = g.chain(t, rng.choice(cands))
        elif eng == "sql":
            u = g.pick(pred=lambda u: not ((g.cols[u] & g.cols[t]) & NONKEY) and
                       not (g.leaves_of.get(u, frozenset()) & g.leaves_of.get(t, frozenset())))
            if u is None:
                continue
            pred = rng.choice([None, ["plit", "F"], g.pred(g.cols[t] | g.cols[u], 1)])
            r = g.join(t, u, pred)
        else:
            r = g.mat(t)
        observed.append(r)
    for r in dict.fromkeys(observed):
        g.emit(["diag", r, "none"])
        g.emit(["diag", r, "truthful"])
        g.emit(["sem", r])
    return g


def prog_illformed(seed: int, n_ops: int = 5) -> G:
    """A well-typed multi-engine program with exactly one injected ill-formed request (C20)."""
    g = prog_multi(seed, n_ops, three=0.0)
    rng = g.rng
    # keep only the build commands
    g.lines = [ln for ln in g.lines if not ln.startswith(("(process", "(exec", "(sqlexec", "(sem"))]
    pool = list(g.cols)
    t = rng.choice(pool)
    cols = g.cols[t]
    missing = sorted(set(BASE_COLS + NEW_TAGS) - cols)
    kinds = ["slice-negative", "slice-reversed", "slice-step", "chain-columns", "engine-mismatch",
             "unsupported-expression"]
    if missing:
        kinds += ["missing-column"] * 4
    if cols:
        kinds += ["tag-exists"] * 2
    kind = rng.choice(kinds)
    engines = sorted(g.kind)
    anyopts = g.opts(rng.choice(["-"] + engines), rng.random() < 0.5, rng.random() < 0.5, rng.random() < 0.5)
    r = g.fresh()
    cmd = None
    if kind == "missing-column":
        m = rng.choice(missing)
        sub = rng.choice(["calc", "sel", "sort", "proj", "join", "joinon", "joinon", "joinb", "joinb"])
        jo = None
        if sub == "joinb":
            # the binary operation applied directly with explicit (resolved) common columns, its predicate over a
            # column neither operand has
            cands = [u for u in pool if g.eng[u] == g.eng[t] and not (g.cols[u] & cols & NONKEY)
                     and (set(BASE_COLS + NEW_TAGS) - cols - g.cols[u])]
            if cands:
                u = rng.choice(cands)
                miss = sorted(set(BASE_COLS + NEW_TAGS) - cols - g.cols[u])
                jo = ["joinb", r, t, u, sorted(c for c in g.cols[t] & g.cols[u] if KEY[c]),
                      ["pfn", "lt", "*", ["ref", rng.choice(miss)], ["lit", 1]]]
            else:
                sub = "sel"
        if sub == "joinon":
            # explicit common columns that the FIXED operand has and the target lacks
            cands = [(u, k) for u in pool for k in sorted(g.cols[u] - cols) if KEY[k]
                     and not (g.cols[u] & cols & NONKEY)]
            if cands:
                u, kcol = rng.choice(cands)
                common = sorted({kcol} | set(rng.sample(sorted(k2 for k2 in (g.cols[u] & cols) if KEY[k2]),
                                                        k=min(1, len([k2 for k2 in (g.cols[u] & cols) if KEY[k2]])))))
                jo = ["joinon", r, t, u, common, ["plit", "T"], rng.choice(["T", "F"]), rng.choice(["T", "F"])]
            else:
                sub = "sel"
        if jo is not None:
            cmd = jo
        elif sub == "calc":
            tag = rng.choice([x for x in NEW_TAGS + BASE_COLS if x not in cols and x != m] or ["z"])
            cmd = ["apply", r, t, ["calc", tag, ["fn", "add", "*", ["ref", m], ["lit", 1]]], anyopts]
        elif sub == "sel":
            cmd = ["apply", r, t, ["sel", ["pfn", "lt", "*", ["ref", m], ["lit", 1]]], anyopts]
        elif sub == "sort":
            cmd = ["apply", r, t, ["sort", ["term", ["ref", m], "asc"]], anyopts]
        elif sub == "proj":
            cmd = ["apply", r, t, ["proj", m, *sorted(cols)[:1]], anyopts]
        else:
            u = rng.choice(pool)
            both_missing = sorted(set(BASE_COLS + NEW_TAGS) - cols - g.cols[u])
            if not both_missing or (g.cols[u] & cols & NONKEY):
                cmd = ["apply", r, t, ["sel", ["pfn", "lt", "*", ["ref", m], ["lit", 1]]], anyopts]
            elif rng.random() < 0.3 and g.eng[u] == g.eng[t]:
                # the binary operation applied directly with explicit (resolved) common columns
                cmd = ["joinb", r, t, u, sorted(c for c in g.cols[t] & g.cols[u] if KEY[c]),
                       ["pfn", "lt", "*", ["ref", both_missing[0]], ["lit", 1]]]
            elif rng.random() < 0.6:
                # the same request through `apply` with an explicit preferred engine / every option
                cmd = ["joinp", r, t, u, ["pfn", "lt", "*", ["ref", both_missing[0]], ["lit", 1]], anyopts]
            else:
                cmd = ["join", r, t, u, ["pfn", "lt", "*", ["ref", both_missing[0]], ["lit", 1]],
                       rng.choice(["T", "F"]), rng.choice(["T", "F"])]
    elif kind == "tag-exists":
        tag = rng.choice(sorted(cols))
        cmd = ["apply", r, t, ["calc", tag, ["fn", "add", "*", ["ref", rng.choice(sorted(cols))], ["lit", 1]]], anyopts]
    elif kind == "chain-columns":
        others = [u for u in pool if g.cols[u] != cols and g.eng[u] == g.eng[t]]
        if not others:
            kind = "slice-negative"
        else:
            cmd = ["chain", r, t, rng.choice(others)]
    elif kind == "engine-mismatch":
        others = [u for u in pool if g.eng[u] != g.eng[t]]
        if not others:
            kind = "slice-negative"
        else:
            u = rng.choice(others)
            if rng.random() < 0.5 and g.cols[u] == cols:
                cmd = ["chain", r, t, u]
            elif not (g.cols[u] & cols & NONKEY):
                cmd = ["join", r, t, u, ["plit", "T"], "F", "F"]
            else:
                kind = "slice-negative"
    elif kind == "unsupported-expression":
        if not cols:
            kind = "slice-negative"
        else:
            other = "sql" if g.kind[g.eng[t]] == "iter" else "iter"
            e = ["fn", "o:special", other, ["ref", rng.choice(sorted(cols))]]
            opts = g.opts(rng.choice(["-", g.eng[t]]), rng.random() < 0.5, rng.random() < 0.5, rng.random() < 0.5)
            sub = rng.choice(["calc", "sel", "sort", "join", "join"])
            if rng.random() < 0.35:
                # the SAME-LOOKING expression without the engine restriction was applied (and accepted) in this
                # engine just before: support must be judged on the expression at hand, not on an equal-looking one
                c0 = rng.choice(sorted(cols))
                free = ["fn", "neg", "*", ["ref", c0]]
                e = ["fn", "neg", other, ["ref", c0]]
                sub = rng.choice(["sort", "sort", "sel", "calc"])
                tagc0 = [x for x in NEW_TAGS if x not in cols]
                if sub == "sort":
                    t = g.apply(t, ["sort", ["term", free, "asc"]], cols)
                    if rng.random() < 0.5:
                        t = g.apply(t, ["slice", "-", 2, "-"], cols)
                elif sub == "sel":
                    g.apply(t, ["sel", ["pfn", "lt", "*", free, ["lit", 1]]], cols)
                elif tagc0:
                    g.apply(t, ["calc", tagc0[-1], free], cols | {tagc0[-1]})
            e = nest_restricted(rng, e)
            tagc = [x for x in NEW_TAGS if x not in cols]
            # a join (inside ONE engine) whose predicate that engine does not support
            partners = [u for u in pool if g.eng[u] == g.eng[t] and not (g.cols[u] & cols & NONKEY)]
            if sub == "join" and partners:
                u = rng.choice(partners)
                cmd = ["join", r, t, u, ["pfn", "lt", "*", e, ["lit", 1]], rng.choice(["T", "F"]), rng.choice(["T", "F"])]
            elif sub == "join":
                cmd = ["apply", r, t, ["sel", ["pfn", "lt", "*", e, ["lit", 1]]], opts]
            elif sub == "calc" and tagc:
                cmd = ["apply", r, t, ["calc", tagc[0], e], opts]
            elif sub == "sel":
                cmd = ["apply", r, t, ["sel", ["pfn", "lt", "*", e, ["lit", 1]]], opts]
            else:
                cmd = ["apply", r, t, ["sort", ["term", e, "asc"]], opts]
    if kind == "slice-negative":
        cmd = ["apply", r, t, ["slice", -rng.randint(1, 3), rng.choice(["-", 2]), "-"], g.opts()]
    elif kind == "slice-reversed":
        a = rng.randint(1, 4)
        cmd = ["apply", r, t, ["slice", a, a - rng.randint(1, a), "-"], g.opts()]
    elif kind == "slice-step":
        cmd = ["apply", r, t, ["slice", rng.choice(["-", 0, 1]), rng.choice(["-", 3]), rng.choice([2, 3, -1, 0])], g.opts()]
    g.emit(["illformed", kind])
    g.emit(cmd)
    for p in pool:
        g.emit(["show", p])
    return g


def prog_range_edges() -> G:
    """Strided ranges whose start lies on either side of the stride and of zero, in both directions, against every
    member value -6..8 (C12, every run): the remainder / bound arithmetic of the SQL translation."""
    g = G(0)
    g.engine("e0", "iter")
    for start in range(-4, 6):
        for step in (2, 3, -2, -3):
            stop = start + 7 if step > 0 else start - 7
            for v in range(-6, 9):
                g.emit(["pred", ["in", ["ref", "a"], ["range", start, stop, step]], ["a", v], ["b", 0]])
    return g


def prog_range_enum(chunk: int, nchunks: int) -> G:
    """Every range with |start|,|stop| <= 4, 0 < |step| <= 3, against every member value -5..5 (C12)."""
    g = G(0)
    g.engine("e0", "iter")
    i = 0
    for start in range(-4, 5):
        for stop in range(-4, 5):
            for step in (-3, -2, -1, 1, 2, 3):
                i += 1
                if i % nchunks != chunk:
                    continue
                for v in range(-5, 6):
                    g.emit(["pred", ["in", ["ref", "a"], ["range", start, stop, step]], ["a", v], ["b", 0]])
    return g


def prog_conform(seed: int, n_ops: int = 7) -> G:
    """Raw SQL-engine trees assembled bottom-up WITHOUT the engine, then conformed; plus
    API-built trees conformed again (C17)."""
    g = G(seed, max_rows=4)
    rng = g.rng
    g.engine("e0", "sql")
    raws: list[str] = []
    for _ in range(rng.choice([2, 3])):
        leaf = g.leaf("e0", cols=sorted(rng.sample(BASE_COLS, rng.choice([1, 2, 3]))))
        r = g.fresh()
        g.emit(["unwrap", r, leaf])
        g.cols[r] = g.cols[leaf]
        g.eng[r] = "e0"
        g.leaves_of[r] = g.leaves_of[leaf]
        raws.append(r)
    api: list[str] = [x for x in g.cols if x not in raws]

    def raw_unary(op, t, nc):
        r = g.fresh()
        g.emit(["rawu", r, op, t])
        g.cols[r] = frozenset(nc)
        g.eng[r] = "e0"
        g.leaves_of[r] = g.leaves_of[t]
        if t in g.has_chain:
            g.has_chain.add(r)
        raws.append(r)
        return r

    if rng.random() < 0.2:
        # scenario: raw  proj(slice(sort(chain)))  where the projection drops a sort column
        cs = sorted(rng.sample(BASE_COLS, rng.choice([2, 3])))
        parts = []
        for _ in range(2):
            leaf = g.leaf("e0", cols=cs, nrows=rng.choice([2, 3, 4]))
            r = g.fresh()
            g.emit(["unwrap", r, leaf])
            g.cols[r] = g.cols[leaf]
            g.eng[r] = "e0"
            g.leaves_of[r] = g.leaves_of[leaf]
            raws.append(r)
            parts.append(r)
        ch = g.fresh()
        g.emit(["rawchain", ch, parts[0], parts[1]])
        g.cols[ch] = g.cols[parts[0]]
        g.eng[ch] = "e0"
        g.leaves_of[ch] = g.leaves_of[parts[0]] | g.leaves_of[parts[1]]
        g.has_chain.add(ch)
        raws.append(ch)
        key = rng.choice(cs)
        cur = raw_unary(["sort", ["term", ["ref", key], rng.choice(["asc", "desc"])]], ch, g.cols[ch])
        if rng.random() < 0.85:
            a = rng.choice([0, 0, 1, 2])
            cur = raw_unary(["slice", a, rng.choice([a + 1, a + 2, a + 3, "-"]), "-"], cur, g.cols[cur])
        keep = [c for c in cs if c != key]
        raw_unary(["proj", *keep], cur, keep)
    for _ in range(n_ops):
        k = rng.random()
        if k < 0.6:
            t = rng.choice(raws)
            op, nc = g.rand_op(g.cols[t], allow=("calc", "dedup", "proj", "sel", "slice", "sort"))
            if not op_valid_on(op, g.cols[t]):
                continue
            if op[0] == "slice":
                # raw construction takes the Slice constructor: keep it valid and non-trivial
                a = 0 if op[1] == "-" else op[1]
                op = ["slice", a, op[2], "-"]
            r = g.fresh()
            g.emit(["rawu", r, op, t])
            g.cols[r] = frozenset(nc)
            g.eng[r] = "e0"
            g.leaves_of[r] = g.leaves_of[t]
            if t in g.has_chain:
                g.has_chain.add(r)
            raws.append(r)
        elif k < 0.72:
            t = rng.choice(raws)
            cands = [u for u in raws if g.cols[u] == g.cols[t] and u not in g.has_chain]
            if t in g.has_chain or not cands:
                continue
            u = rng.choice(cands)
            r = g.fresh()
            g.emit(["rawchain", r, t, u])
            g.cols[r] = g.cols[t]
            g.eng[r] = "e0"
            g.leaves_of[r] = g.leaves_of[t] | g.leaves_of[u]
            g.has_chain.add(r)
            raws.append(r)
        elif k < 0.85:
            t = rng.choice(raws)
            if rng.random() < 0.35:
                # a zero-length or ordinary slice directly under the join
                a = rng.choice([0, 0, 1])
                r0 = g.fresh()
                g.emit(["rawu", r0, ["slice", a, rng.choice([a, a, a + 1, 0 if a == 0 else a]), "-"], t])
                g.cols[r0] = g.cols[t]
                g.eng[r0] = "e0"
                g.leaves_of[r0] = g.leaves_of[t]
                if t in g.has_chain:
                    g.has_chain.add(r0)
                raws.append(r0)
                t = r0
            cands = [u for u in raws if not (g.cols[u] & g.cols[t] & NONKEY) and not (g.leaves_of[u] & g.leaves_of[t])]
            if not cands:
                continue
            u = rng.choice(cands)
            r = g.fresh()
            pred = g.pred(g.cols[t] | g.cols[u], 1) if rng.random() < 0.4 and (g.cols[t] | g.cols[u]) else ["plit", "T"]
            g.emit(["rawjoin", r, t, u, pred])
            g.cols[r] = g.cols[t] | g.cols[u]
            g.eng[r] = "e0"
            g.leaves_of[r] = g.leaves_of[t] | g.leaves_of[u]
            if t in g.has_chain or u in g.has_chain:
                g.has_chain.add(r)
            raws.append(r)
        else:
            t = rng.choice(api)
            op, nc = g.rand_op(g.cols[t])
            api.append(g.apply(t, op, nc))
    for r in raws[-5:] + api[-3:]:
        c = "c" + r[1:]
        g.emit(["conform", c, r])
        g.emit(["sqlexec", c])
        g.emit(["sem", c])
        if rng.random() < 0.3:
            g.emit(["conform", "d" + r[1:], c])
    return g


def prog_values(seed: int, n_ops: int = 6) -> G:
    """The same operation sequence built twice from the same leaves (equality/hash of relations),
    interleaved with compilation, execution, processing and diagnostics over the shared pool, with a
    fingerprint snapshot of EVERY pool relation after each step (C09)."""
    g = G(seed, max_rows=4)
    rng = g.rng
    g.engine("e0", "sql")
    g.engine("e1", "iter")
    for e in ("e0", "e1"):
        g.leaf(e, cols=sorted(rng.sample(BASE_COLS, rng.choice([2, 3]))))
    twins: list[tuple[str, str]] = [(x, x) for x in list(g.cols)]
    # a second SQL table to join with (disjoint leaves), built twice as well
    side = g.leaf("e0", cols=sorted(set(rng.sample(BASE_COLS, 2)) | {"a"}))
    side_tw = [(side, side)]
    if rng.random() < 0.6 and len(g.cols[side]) > 1:
        keep = sorted(g.cols[side])[: rng.choice([1, 2])]
        side_tw.append((g.apply(side, ["proj", *keep], frozenset(keep)), g.apply(side, ["proj", *keep], frozenset(keep))))
    if rng.random() < 0.5:
        # a side operand that contributes WHERE terms of its own (the join's payload is then assembled
        # from an operand's payload plus extra terms: nothing of the operand's may be edited in place)
        c = rng.choice(sorted(g.cols[side]))
        sop = ["sel", ["pfn", "ge", "*", ["ref", c], ["lit", 0]]]
        side_tw.append((g.apply(side, sop, g.cols[side]), g.apply(side, sop, g.cols[side])))
    g.emit(["snap"])
    if rng.random() < 0.35 and len(side_tw) > 1:
        # scenario: (calculation over a SQL table) JOIN (projected SQL table), built twice, hashed
        base = next(x for x in g.cols if g.eng[x] == "e0" and x != side)
        if g.cols[base] and not (g.cols[side_tw[1][0]] & g.cols[base] & NONKEY) and \
                not (g.leaves_of.get(base, frozenset()) & g.leaves_of.get(side, frozenset())):
            tag = rng.choice([t for t in NEW_TAGS if t not in g.cols[base] and t not in g.cols[side]] or ["z"])
            if tag not in g.cols[base]:
                op = ["calc", tag, ["fn", "neg", "*", ["ref", sorted(g.cols[base])[0]]]]
                ca = g.apply(base, op, g.cols[base] | {tag})
                cb = g.apply(base, op, g.cols[base] | {tag})
                ja = g.join(ca, side_tw[1][0], None)
                jb = g.join(cb, side_tw[1][1], None)
                twins.append((ja, jb))
                g.emit(["hash", ja, jb])
                g.emit(["snap"])
    used_pnames: set[str] = set()
    for _ in range(n_ops):
        a, b = rng.choice(twins)
        k = rng.random()
        cols = g.cols[a]
        joinable = [(x, y) for x, y in side_tw
                    if g.eng[x] == g.eng[a] and not (g.cols[x] & cols & NONKEY)
                    and not (g.leaves_of.get(x, frozenset()) & g.leaves_of.get(a, frozenset()))]
        if k < 0.12 and joinable:
            # the same join built twice (a projected operand makes the SQL engine re-apply a projection)
            x, y = rng.choice(joinable)
            ra = g.join(a, x, None)
            rb = g.join(b, y, None)
        elif k < 0.7:
            op, nc = g.rand_op(cols, allow=("calc", "dedup", "proj", "sel", "sort", "sort", "slice"))
            if op[0] == "sel" and rng.random() < 0.4 and cols:
                c = rng.choice(sorted(cols))
                op = ["sel", ["in", ["ref", c], ["seq", ["lit", 0], ["ref", c], ["lit", 2]]]]
            opts = g.opts(rng.choice(["-", "-", "e0", "e1"]), rng.random() < 0.7, rng.random() < 0.3, False)
            ra = g.apply(a, op, nc, opts)
            rb = g.apply(b, op, nc, opts)
        elif k < 0.82:
            name = f"M{g.n}"
            ra = g.mat(a, name)
            rb = g.mat(b, name)
        elif k < 0.92:
            e = rng.choice(["e0", "e1"])
            ra = g.transfer(a, e)
            rb = g.transfer(b, e)
        else:
            ra = g.chain(a, a)
            rb = g.chain(b, b)
        twins.append((ra, rb))
        g.emit(["hash", ra, rb])
        g.emit(["snap"])
        ev = rng.random()
        r = rng.choice([ra, rb, rng.choice(twins)[0]])
        if ev < 0.25:
            g.emit(["exec", r])
            g.emit(["sqlexec", r])
        elif ev < 0.5:
            # a relation may be processed more than once: every result gets its OWN pool name (re-using one would
            # rebind it, and the snapshot comparison would report the old relation as "changed")
            pname = "p" + r[1:]
            while pname in used_pnames:
                pname += "b"
            used_pnames.add(pname)
            g.emit(["process", pname, r])
            g.emit(["exec", pname])
            g.emit(["sqlexec", pname])
        elif ev < 0.6:
            g.emit(["diag", r, "none"])
        elif ev < 0.7:
            g.emit(["sqlexec", r])
            g.emit(["sqlexec", r])
        g.emit(["snap"])
    # a bare SQL leaf joined with each side operand, compiled twice (leaf payloads are shared objects)
    base = next((x for x in g.cols if g.eng[x] == "e0" and x != side and x in g.leaf_rels), None)
    if base is not None:
        for x, _ in side_tw[1:]:
            if not (g.cols[x] & g.cols[base] & NONKEY) and \
                    not (g.leaves_of.get(x, frozenset()) & g.leaves_of.get(base, frozenset())):
                j = g.join(base, x, None)
                g.emit(["snap"])
                g.emit(["sqlexec", j])
                g.emit(["snap"])
                g.emit(["sqlexec", j])
                g.emit(["sqlexec", base])
                g.emit(["snap"])
    return g
