"""C19: generated relation names.  Real requests (sequential, threaded, and a forced race in which two
threads have both read the counter before either increments it) against the Lean model's name format."""
from __future__ import annotations

import random
import re
import sys
import threading

import run
from oracles import Stats, Violation

NAME_RE = re.compile(r"^(.*)_(\d{4,})_([0-9a-f]{32})$")


def collect(tier: str, seed: int):
    import lsst.daf.relation._engine as engmod
    from lsst.daf.relation import LeafRelation, iteration, sql

    from proto import Tag

    rng = random.Random(seed)
    n_seq = 300 if tier == "quick" else 5000
    n_threads, per_thread = (8, 150) if tier == "quick" else (16, 2000)
    prefixes = ["leaf", "materialization", "a_b", "x", "tmp_0001", "leaf_0000",
                # long prefixes: the whole name (prefix, counter AND uuid) must survive whatever its length
                "p" * 57, "q" * 61 + "_x", "long_prefix_" + "r" * 70,
                # prefixes that END in underscores: the name must still begin with exactly what was requested
                "tmp__", "scratch___", "a_", "__"]
    names: list[tuple[str, str, str]] = []  # (experiment, prefix, name)
    # several engines carry the SAME display name (default-constructed ones, and an explicit twin): names must be
    # distinct across engines too, whatever the engines are called
    engines = [iteration.Engine(name="it"), sql.Engine(name="sq"), iteration.Engine(name="it2"),
               iteration.Engine(), iteration.Engine(), sql.Engine(), sql.Engine(), iteration.Engine(name="it"),
               sql.Engine(name="sq")]
    a = Tag("a")
    # 1. sequential: direct, via leaf construction, via materialized()
    for i in range(n_seq):
        e = rng.choice(engines)
        p = rng.choice(prefixes)
        how = rng.choice(["direct", "leaf", "mat"])
        if how == "direct":
            names.append(("seq-direct", p, e.get_relation_name(p)))
        elif how == "leaf":
            if isinstance(e, sql.Engine):
                import sqlalchemy

                pay = sql.Payload(sqlalchemy.table("t", sqlalchemy.column("a")))
                leaf = e.make_leaf({a}, pay, name_prefix=p)
                names.append(("seq-leaf", p, leaf.skip_to.name))
            else:
                leaf = e.make_leaf({a}, iteration.RowSequence([]), name_prefix=p)
                names.append(("seq-leaf", p, leaf.name))
        elif isinstance(e, sql.Engine):
            # materialized() in the SQL engine goes through sql.Engine.materialize (its own override)
            import sqlalchemy
            from lsst.daf.relation import ColumnExpression

            pay = sql.Payload(sqlalchemy.table("t", sqlalchemy.column("a")))
            pay.columns_available = {a: pay.from_clause.columns["a"]}
            base = e.make_leaf({a}, pay, name="base").with_rows_satisfying(
                ColumnExpression.reference(a).lt(ColumnExpression.literal(5)))
            m = base.materialized(name_prefix=p)
            node = m
            while not hasattr(node, "name") or type(node).__name__ != "Materialization":
                node = node.skip_to if hasattr(node, "skip_to") else node.target
            names.append(("seq-mat-sql", p, node.name))
        else:
            it = e
            base = it.make_leaf({a}, iteration.RowSequence([{a: 1}]), name="base").with_rows_satisfying(
                __import__("lsst.daf.relation", fromlist=["ColumnExpression"]).ColumnExpression.reference(a).lt(
                    __import__("lsst.daf.relation", fromlist=["ColumnExpression"]).ColumnExpression.literal(5)))
            m = base.materialized(name_prefix=p)
            names.append(("seq-mat", p, m.name))
    # 2. real threads on shared engines
    old = sys.getswitchinterval()
    sys.setswitchinterval(1e-6)
    try:
        out: list[list] = [[] for _ in range(n_threads)]

        def work(i: int):
            r = random.Random(seed * 1000 + i)
            for _ in range(per_thread):
                e = engines[r.randrange(2) * 2 if r.random() < 0.5 else r.randrange(len(engines))]
                p = prefixes[r.randrange(len(prefixes))]
                out[i].append(("threads", p, e.get_relation_name(p)))

        ts = [threading.Thread(target=work, args=(i,)) for i in range(n_threads)]
        for t in ts:
            t.start()
        for t in ts:
            t.join()
        for o in out:
            names.extend(o)
    finally:
        sys.setswitchinterval(old)
    # 3. forced race: both threads have read the counter before either increments it
    races = 20 if tier == "quick" else 300
    real_uuid4 = engmod.uuid.uuid4
    race_pairs = []
    for k in range(races):
        e = iteration.Engine(name=f"race{k}")
        barrier = threading.Barrier(2, timeout=5)

        class _U:
            @staticmethod
            def uuid4():
                # called while the f-string is being built, i.e. after the counter was read
                u = real_uuid4()
                try:
                    barrier.wait()
                except threading.BrokenBarrierError:
                    pass
                return u

            def __getattr__(self, item):
                return getattr(__import__("uuid"), item)

        saved = engmod.uuid
        engmod.uuid = _U()
        try:
            res = [None, None]

            def req(i):
                res[i] = e.get_relation_name("leaf")

            t0, t1 = threading.Thread(target=req, args=(0,)), threading.Thread(target=req, args=(1,))
            t0.start(); t1.start(); t0.join(); t1.join()
        finally:
            engmod.uuid = saved
        names.append(("race", "leaf", res[0]))
        names.append(("race", "leaf", res[1]))
        race_pairs.append((res[0], res[1]))
    return names, race_pairs


def run_names(tier: str, seed: int):
    stats = Stats()
    viols: list[Violation] = []
    dis: list[run.Disagreement] = []
    names, race_pairs = collect(tier, seed)
    seen: dict[str, tuple] = {}
    fmt_lines = []
    parsed = []
    for exp, prefix, name in names:
        m = NAME_RE.match(name or "")
        stats.note(f"{exp}:{name}", True, "exp:" + exp)
        if name in seen:
            viols.append(Violation("C19", "duplicate-relation-name",
                                   f"{name!r} handed out twice ({seen[name][0]} and {exp})"))
        seen[name] = (exp, prefix)
        if not (name or "").startswith(prefix + "_"):
            viols.append(Violation("C19", "name-does-not-begin-with-prefix", f"prefix {prefix!r}, name {name!r}"))
        if m is None:
            parsed.append(None)
            fmt_lines.append(f"(fmt {prefix} 0 0)")
        else:
            parsed.append(m)
            fmt_lines.append(f"(fmt {prefix} {int(m.group(2))} {m.group(3)})")
    same_counter = 0
    for a, b in race_pairs:
        ma, mb = NAME_RE.match(a or ""), NAME_RE.match(b or "")
        if ma and mb and ma.group(2) == mb.group(2):
            same_counter += 1
    stats.hist["forced-races-with-equal-counter-fields"] = same_counter
    # correspondence with the model's format
    prog = "\n".join(fmt_lines) + "\n"
    model = run.run_side("model", [prog])[0]
    for i, ((exp, prefix, name), m, ml) in enumerate(zip(names, parsed, model)):
        if m is None or ml != "ok " + name:
            dis.append(run.Disagreement(0, i, fmt_lines[i], "ok " + str(name), ml))
            if len(dis) > 5:
                break
    program_text = "\n".join(f"# {exp} prefix={p} name={n}" for exp, p, n in names[:50]) + "\n"
    return viols, stats, dis, program_text
