"""Regenerate /verif/MANIFEST.json from the table below (run after adding or changing a check)."""
from __future__ import annotations

import json
import os

HERE = os.path.dirname(os.path.abspath(__file__))
VERIF = os.path.dirname(HERE)

PROOF_NOTE = (
    "Trusted: Lean 4.33 kernel; axioms propext, Classical.choice, Quot.sound only (audited by #print axioms each "
    "run; no sorry/admit/native_decide/bv_decide); the hand-written model (lean/DafRel/Model) is tied to /repo by "
    "the correspondence run (harness/impl.py vs compiled Lean driver on generated programs) and, for the "
    "integer/None kernel, by the translator harness/extract.py + bridge lemmas; generators bound what the "
    "correspondence sees. "
)

# id -> (level category, technique, level text, level note, design ref)
CHECKS: dict[str, tuple[str, str, str, str, str]] = {}

NOT_APPLICABLE: dict[str, str] = {}


def load_table() -> None:
    import claims

    CHECKS.update(claims.CHECKS)
    NOT_APPLICABLE.update(claims.NOT_APPLICABLE)


def main() -> None:
    load_table()
    props = [json.loads(ln)["id"] for ln in open(os.path.join(VERIF, "properties.jsonl"))]
    checks = []
    for pid in props:
        if pid not in CHECKS:
            continue
        cat, technique, text, note, ref = CHECKS[pid]
        checks.append({
            "property_id": pid,
            "quick_cmd": f"./check {pid} quick",
            "thorough_cmd": f"./check {pid} thorough",
            "evidence_file": f"evidence/{pid}.json",
            "replay_cmd_template": f"./check {pid} --replay {{path}}",
            "engine": "lean-model+correspondence",
            "level_claimed": {"category": cat, "text": text, "design_ref": ref},
            "level_note": (PROOF_NOTE if cat == "proof" else "") + note,
            "technique": technique,
        })
    na = [{"property_id": p, "reason": NOT_APPLICABLE[p]} for p in props if p not in CHECKS]
    manifest = {
        "version": 1,
        "setup_cmd": "cd lean && lake build driver DafRel",
        "hooks": {
            "guard": "LSST_DAF_RELATION_VERIF",
            "enable": "no source hooks are needed; the harness instruments from outside (counting payload classes, "
                      "a real Processor subclass, a uuid4 barrier); the variable is reserved and set by the harness",
            "baseline_off_cmd": "cd /repo && /venv/bin/python -m pytest -ra -q -p no:cacheprovider --timeout=900 "
                                "--continue-on-collection-errors",
            "source_commits": [],
            "add_only": True,
        },
        "engines": [
            {
                "name": "lean-model+correspondence",
                "path": "lean/ (model, proofs, driver) + harness/ (translator, generators, impl runner, oracles)",
                "serves_properties": [c["property_id"] for c in checks],
                "kind_free_text": "machine-checked proof in Lean 4 about a formal model; model tied to the code by a "
                                  "source translator (regenerated each run) and a differential correspondence check",
            }
        ],
        "checks": checks,
        "not_applicable": na,
        "notes": "See DESIGN.md. Exit 0 = held; exit 1 = VIOLATION line(s); exit 2 = infrastructure failure.",
    }
    with open(os.path.join(VERIF, "MANIFEST.json"), "w") as f:
        json.dump(manifest, f, indent=1)
    print(f"MANIFEST.json: {len(checks)} checks, {len(na)} not claimed")


if __name__ == "__main__":
    import sys

    sys.path.insert(0, HERE)
    main()
