"""Execute line-protocol programs against the REAL lsst.daf.relation (imported from /repo/python
as installed in /venv) and print one canonical observation per command -- the same text the
Lean driver prints for the model.  Usage:  impl.py < program.txt > observations.txt"""
from __future__ import annotations

import os
import sys
import traceback
from typing import Any

sys.path.insert(0, os.path.dirname(os.path.abspath(__file__)))

import sqlalchemy  # noqa: E402
from lsst.daf.relation import (  # noqa: E402
    Calculation,
    ColumnContainer,
    ColumnExpression,
    ColumnInContainer,
    Deduplication,
    Diagnostics,
    Identity,
    LeafRelation,
    LogicalAnd,
    LogicalNot,
    LogicalOr,
    Materialization,
    Predicate,
    Projection,
    Selection,
    Slice,
    Sort,
    SortTerm,
    Transfer,
    UnaryOperationRelation,
    flatten_logical_and,
    iteration,
    sql,
)
from lsst.daf.relation.sql import Select  # noqa: E402

import proto  # noqa: E402
from proto import Tag, show_bool, show_cols  # noqa: E402
from sqlproc import HarnessProcessor, SqlWorld  # noqa: E402


class CountingSequence(iteration.RowSequence):
    """Leaf payload that counts how many times iteration over it is started."""

    def __init__(self, rows, name: str, counters: dict[str, int]):
        super().__init__(rows)
        self._name = name
        self._counters = counters

    def __iter__(self):
        self._counters[self._name] = self._counters.get(self._name, 0) + 1
        return super().__iter__()


class NoSerialsNoMarks:
    def of(self, obj) -> str:
        return "?"


def exc_name(e: BaseException) -> str:
    n = type(e).__name__
    known = {
        "ColumnError", "EngineError", "RelationalAlgebraError", "ValueError", "TypeError", "KeyError",
        "NotImplementedError", "AssertionError", "AttributeError",
    }
    if n in known:
        return n
    if isinstance(e, sqlalchemy.exc.SQLAlchemyError):
        return "SQLError:" + n
    return "Other:" + n


class BadRef(Exception):
    pass


class Pool(dict):
    def __missing__(self, key):
        raise BadRef(key)


class World:
    def __init__(self) -> None:
        self.tags: dict[str, Tag] = {}
        self.engines: dict[str, Any] = {}
        self.engine_names: dict[int, str] = {}
        self.pool: dict[str, Any] = Pool()
        self.ser = proto.Serials()
        self.counters: dict[str, int] = {}
        self.leaf_rows: dict[str, list[dict]] = {}
        self.sqlw = SqlWorld()
        self.attach_count = 0

    # ------------------------------------------------------------------ decoding
    def sup(self, s: str):
        return {"*": None, "iter": (iteration.Engine,), "sql": (sql.Engine,)}[s]

    def register_fn(self, name: str, pred: bool, sup=None) -> None:
        # an engine-restricted function exists only in the engines of the supporting family: an engine that
        # accepts it anyway fails when it evaluates / compiles the expression, as a real one would
        for e in self.engines.values():
            if sup is not None and not isinstance(e, sup):
                continue
            if name not in e.functions:
                if pred:
                    e.functions[name] = (lambda x: x != 0)
                else:
                    e.functions[name] = (lambda x: x)

    def expr(self, x):
        match x:
            case ["lit", v]:
                return ColumnExpression.literal(int(v), dtype=int)
            case ["ref", t]:
                return ColumnExpression.reference(self.tags[t], dtype=int)
            case ["fn", f, sup, *args]:
                if f in proto.FN_PY:
                    name = proto.FN_PY[f]
                else:
                    name = f[2:]
                    self.register_fn(name, False, self.sup(sup))
                return ColumnExpression.function(
                    name, *[self.expr(a) for a in args], dtype=int, supporting_engine_types=self.sup(sup)
                )
        raise ValueError(f"bad expr {x}")

    def container(self, x):
        match x:
            case ["range", a, b, c]:
                return ColumnContainer.range_literal(range(int(a), int(b), int(c)))
            case ["seq", *items]:
                return ColumnContainer.sequence([self.expr(i) for i in items], dtype=int)
        raise ValueError(f"bad container {x}")

    def pred(self, x):
        match x:
            case ["plit", b]:
                return Predicate.literal(b == "T")
            case ["pref", t]:
                return Predicate.reference(self.tags[t])
            case ["pfn", f, sup, *args]:
                if f in proto.PFN_PY:
                    name = proto.PFN_PY[f]
                else:
                    name = f[2:]
                    self.register_fn(name, True, self.sup(sup))
                return ColumnExpression.predicate_function(
                    name, *[self.expr(a) for a in args], supporting_engine_types=self.sup(sup)
                )
            case ["not", p]:
                return LogicalNot(self.pred(p))
            case ["and", *ps]:
                return LogicalAnd(tuple(self.pred(p) for p in ps))
            case ["or", *ps]:
                return LogicalOr(tuple(self.pred(p) for p in ps))
            case ["in", item, c]:
                return ColumnInContainer(self.expr(item), self.container(c))
        raise ValueError(f"bad pred {x}")

    def cols(self, xs) -> frozenset:
        return frozenset(self.tags[t] for t in xs)

    @staticmethod
    def opt_int(s: str):
        return None if s == "-" else int(s)

    def uop(self, x):
        """Construct the operation object (raw constructor, as the factory methods do)."""
        match x:
            case ["calc", t, e]:
                return Calculation(self.tags[t], self.expr(e))
            case ["dedup"]:
                return Deduplication()
            case ["identity"]:
                return Identity()
            case ["proj", *cs]:
                return Projection(self.cols(cs))
            case ["sel", p]:
                return Selection(self.pred(p))
            case ["slice", a, b, c]:
                step = self.opt_int(c)
                if step not in (1, None):
                    raise TypeError("Slices with non-unit step are not supported.")
                start = self.opt_int(a)
                return Slice(start if start is not None else 0, self.opt_int(b))
            case ["sort", *ts]:
                return Sort(tuple(SortTerm(self.expr(e), d == "asc") for _, e, d in ts))
        raise ValueError(f"bad op {x}")

    # ------------------------------------------------------------------ printing
    def show(self, r) -> str:
        return proto.show_rel(r, self.ser, self.engine_names) + " | " + proto.show_meta(r, self.engine_names)

    def report(self, name: str, how: str, r) -> str:
        self.pool[name] = r
        return f"ok {how} {self.show(r)}"

    # ------------------------------------------------------------------ commands
    def step(self, cmd) -> str:
        match cmd:
            case ["tags", ts]:
                self.tags = {n: Tag(n, k == "k") for n, k in ts}
                return "ok"
            case ["engine", n, kind]:
                e = sql.Engine(name=n) if kind == "sql" else iteration.Engine(name=n)
                self.engines[n] = e
                self.engine_names[id(e)] = f"e{len(self.engines) - 1}"
                return f"ok {self.engine_names[id(e)]}"
            case ["leaf", n, en, cs, rows, mn, mx, name]:
                e = self.engines[en]
                cols = [self.tags[c] for c in cs]
                dict_rows = [{c: int(v) for c, v in zip(cols, r)} for r in rows]
                mx_ = self.opt_int(mx)
                self.leaf_rows[name] = dict_rows
                if isinstance(e, sql.Engine):
                    payload = self.sqlw.make_table(e, name, cols, dict_rows)
                    leaf = e.make_leaf(frozenset(cols), payload, min_rows=int(mn), max_rows=mx_, name=name)
                else:
                    payload = CountingSequence(dict_rows, name, self.counters)
                    leaf = LeafRelation(
                        e, frozenset(cols), payload, name=name, min_rows=int(mn), max_rows=mx_
                    )
                return self.report(n, "new", leaf)
            case ["doomed", n, en, cs, name]:
                e = self.engines[en]
                self.leaf_rows[name] = []
                return self.report(n, "new", e.make_doomed_relation(self.cols(cs), messages=[], name=name))
            case ["joinid", n, en, name]:
                e = self.engines[en]
                self.leaf_rows[name] = [{}]
                return self.report(n, "new", e.make_join_identity_relation(name=name))
            case ["apply", n, tn, opx, ["opts", pref, bt, tr, req]]:
                t = self.pool[tn]
                if opx[0] == "slice" and not (pref != "-" and opx[3] == "-"):
                    a, b, c = (self.opt_int(v) for v in opx[1:])
                    res = t[a:b:c]
                elif opx[0] == "slice":
                    # a slice with a preferred engine: `Slice(a, b).apply(relation, options)`
                    from lsst.daf.relation import Slice

                    a, b, _ = (self.opt_int(v) for v in opx[1:])
                    res = Slice(start=0 if a is None else a, stop=b).apply(
                        t,
                        preferred_engine=self.engines[pref],
                        backtrack=bt == "T",
                        transfer=tr == "T",
                        require_preferred_engine=req == "T",
                    )
                else:
                    op = self.uop(opx)
                    res = op.apply(
                        t,
                        preferred_engine=None if pref == "-" else self.engines[pref],
                        backtrack=bt == "T",
                        transfer=tr == "T",
                        require_preferred_engine=req == "T",
                    )
                return self.report(n, "same" if res is t else "new", res)
            case ["join", n, ln, rn, px, bt, tr]:
                lhs, rhs = self.pool[ln], self.pool[rn]
                res = lhs.join(rhs, self.pred(px), backtrack=bt == "T", transfer=tr == "T")
                return self.report(n, "same" if res is lhs else "new", res)
            case ["joinp", n, ln, rn, px, ["opts", pref, bt, tr, req]]:
                # a join with every option of `apply`: Join(pred).partial(rhs).apply(lhs, ...)
                from lsst.daf.relation import Join
                lhs, rhs = self.pool[ln], self.pool[rn]
                res = Join(self.pred(px)).partial(rhs).apply(
                    lhs,
                    preferred_engine=None if pref == "-" else self.engines[pref],
                    backtrack=bt == "T",
                    transfer=tr == "T",
                    require_preferred_engine=req == "T",
                )
                return self.report(n, "same" if res is lhs else "new", res)
            case ["joinpl", n, tn, fn, px, ["opts", pref, bt, tr, req]]:
                # the fixed relation as the LEFT operand: Join(pred).partial(fixed, is_lhs=True).apply(target, ...)
                from lsst.daf.relation import Join
                target, fixed = self.pool[tn], self.pool[fn]
                res = Join(self.pred(px)).partial(fixed, is_lhs=True).apply(
                    target,
                    preferred_engine=None if pref == "-" else self.engines[pref],
                    backtrack=bt == "T",
                    transfer=tr == "T",
                    require_preferred_engine=req == "T",
                )
                return self.report(n, "same" if res is target else "new", res)
            case ["joinmax", n, ln, rn, cols, px, ["opts", pref, bt, tr, req]]:
                # automatic common columns capped by max_columns
                from lsst.daf.relation import Join
                lhs, rhs = self.pool[ln], self.pool[rn]
                res = Join(self.pred(px), max_columns=self.cols(cols)).partial(rhs).apply(
                    lhs,
                    preferred_engine=None if pref == "-" else self.engines[pref],
                    backtrack=bt == "T",
                    transfer=tr == "T",
                    require_preferred_engine=req == "T",
                )
                return self.report(n, "same" if res is lhs else "new", res)
            case ["joinon", n, ln, rn, cols, px, bt, tr]:
                # explicit common columns: Join(pred, min_columns=S, max_columns=S).partial(rhs).apply(lhs, ...)
                from lsst.daf.relation import Join
                lhs, rhs = self.pool[ln], self.pool[rn]
                common = self.cols(cols)
                res = Join(self.pred(px), min_columns=common, max_columns=common).partial(rhs).apply(
                    lhs, backtrack=bt == "T", transfer=tr == "T"
                )
                return self.report(n, "same" if res is lhs else "new", res)
            case ["joinb", n, ln, rn, cols, px]:
                # the binary operation itself: Join(pred, min_columns=S, max_columns=S).apply(lhs, rhs)
                from lsst.daf.relation import Join
                lhs, rhs = self.pool[ln], self.pool[rn]
                common = self.cols(cols)
                res = Join(self.pred(px), min_columns=common, max_columns=common).apply(lhs, rhs)
                return self.report(n, "new", res)
            case ["predjoin", px, ln, rn]:
                # use a predicate OBJECT in a join, then look at what it declares afterwards
                p = self.pred(px)
                before = show_cols(p.columns_required)
                try:
                    self.pool[ln].join(self.pool[rn], p)
                    used = "joined"
                except Exception as e:  # noqa: BLE001
                    used = "err:" + type(e).__name__
                after = show_cols(p.columns_required)
                fresh = show_cols(self.pred(px).columns_required)
                return f"ok before={before} after={after} fresh={fresh} used={used}"
            case ["chain", n, ln, rn]:
                res = self.pool[ln].chain(self.pool[rn])
                return self.report(n, "new", res)
            case ["mat", n, tn, name]:
                t = self.pool[tn]
                res = t.materialized(name=name)
                return self.report(n, "same" if res is t else "new", res)
            case ["transfer", n, tn, en]:
                t = self.pool[tn]
                res = t.transferred_to(self.engines[en])
                return self.report(n, "same" if res is t else "new", res)
            case ["transferp", n, tn, en]:
                # Engine.transfer with an explicit payload (an iteration engine): the rows of the target
                t = self.pool[tn]
                e = self.engines[en]
                try:
                    rows = self.rows_of(t)
                except Exception:  # noqa: BLE001
                    rows = []      # a target the harness cannot evaluate (e.g. a join inside an iteration engine): the
                    #                payload's CONTENT is never observed, only where it ends up
                payload = iteration.RowSequence(rows)
                res = e.transfer(t, payload)
                return self.report(n, "same" if res is t else "new", res)
            case ["snap"]:
                return "ok changed=[" + ",".join(self.snapshot_changes()) + "]"
            case ["hash", an, bn]:
                a, b = self.pool[an], self.pool[bn]
                try:
                    ha, hb = hash(a), hash(b)
                    hashable = True
                except TypeError:
                    ha = hb = None
                    hashable = False
                return (
                    f"ok hashable={show_bool(hashable)} equal={show_bool(a == b)} "
                    f"samehash={show_bool(hashable and ha == hb)}"
                )
            case ["unwrap", n, tn]:
                t = self.pool[tn]
                if not isinstance(t, Select):
                    raise AttributeError("not a Select")
                return self.report(n, "new", t.skip_to)
            case ["rawu", n, opx, tn]:
                t = self.pool[tn]
                op = self.uop(opx)
                return self.report(
                    n, "new", UnaryOperationRelation(operation=op, target=t, columns=op.applied_columns(t))
                )
            case ["rawchain", n, ln, rn]:
                from lsst.daf.relation import BinaryOperationRelation, Chain

                lhs, rhs = self.pool[ln], self.pool[rn]
                op = Chain()
                return self.report(
                    n, "new", BinaryOperationRelation(operation=op, lhs=lhs, rhs=rhs, columns=op.applied_columns(lhs, rhs))
                )
            case ["rawjoin", n, ln, rn, px]:
                from lsst.daf.relation import BinaryOperationRelation, Join

                lhs, rhs = self.pool[ln], self.pool[rn]
                common = frozenset(t for t in lhs.columns & rhs.columns if t.is_key)
                op = Join(self.pred(px), min_columns=common, max_columns=common)
                return self.report(
                    n, "new", BinaryOperationRelation(operation=op, lhs=lhs, rhs=rhs, columns=op.applied_columns(lhs, rhs))
                )
            case ["conform", n, tn]:
                t = self.pool[tn]
                res = t.engine.conform(t)
                return self.report(n, "same" if res is t else "new", res)
            case ["exec", n]:
                r = self.pool[n]
                if not isinstance(r.engine, iteration.Engine):
                    return "bad-exec"
                before = dict(self.counters)
                try:
                    it = r.engine.execute(r)
                except Exception as e:  # noqa: BLE001
                    # report what was iterated before the exception (C18 speaks about it)
                    return f"err {exc_name(e)} pulls_exec={self.pulls(before)}"
                pe = self.pulls(before)
                # markers whose cached payload IS a leaf's row container (the processor attached the leaf's
                # own payload object): reading that cache counts as an iteration of the leaf
                shared = self.markers_holding_leaf_payloads(r)
                try:
                    before = dict(self.counters)
                    rows1 = list(it)
                    p1 = self.pulls(before)
                    before = dict(self.counters)
                    rows2 = list(it)
                    p2 = self.pulls(before)
                except Exception as e:  # noqa: BLE001
                    return "ok exec err " + exc_name(e)
                s1, s2 = proto.show_rows(rows1), proto.show_rows(rows2)
                return (
                    f"ok rows={s1} again={'same' if s1 == s2 else 'diff'} pulls_exec={pe} "
                    f"pulls_iter1={p1} pulls_iter2={p2} shared=[{','.join(shared)}]"
                )
            case ["sem", n]:
                self.pool[n]
                return "ok model-only"
            case ["show", n]:
                return "ok " + self.show(self.pool[n])
            case ["commute", nx, cx, tn]:
                t = self.pool[tn]
                new, cur = self.uop(nx), self.uop(cx)
                current = UnaryOperationRelation(operation=cur, target=t, columns=cur.applied_columns(t))
                c = new.commute(current)
                first = "-" if c.first is None else proto.show_uop(c.first)
                return (
                    f"ok first={first} second={proto.show_uop(c.second)} done={show_bool(c.done)} "
                    f"cur={proto.show_uop(cur)}"
                )
            case ["commutej", fn, commons, px, cx, tn]:
                # a PartialJoin (explicit common columns, fixed operand fn) commuted past `cur` applied to tn
                from lsst.daf.relation import Join
                t, fixed = self.pool[tn], self.pool[fn]
                cur = self.uop(cx)
                common = self.cols(commons)
                pj = Join(self.pred(px), min_columns=common, max_columns=common).partial(fixed)
                current = UnaryOperationRelation(operation=cur, target=t, columns=cur.applied_columns(t))
                c = pj.commute(current)
                if c.first is None:
                    return f"ok first=- second={proto.show_uop(c.second)} done={show_bool(c.done)} cur={proto.show_uop(cur)}"
                # both reported operations must be well-formed where they would be applied
                wf_first = c.first.columns_required <= t.columns and common <= t.columns
                after_first = frozenset(t.columns | fixed.columns)
                wf_second = c.second.columns_required <= after_first and not (
                    isinstance(c.second, Calculation) and c.second.tag in after_first)
                same = "T" if c.first is pj or c.first == pj else "F"
                sem = ""
                if wf_first and wf_second and isinstance(t.engine, iteration.Engine) and c.done:
                    # the PROPERTY on the implementation: evaluate "existing operation, then the join" and "the join,
                    # then the reported second operation" with a nested-loop reference join (rows of the right operand
                    # win a name clash, as in `{**lhs, **rhs}`), for the fixed relation on either side
                    try:
                        predfn = t.engine.convert_predicate(self.pred(px))
                        frows = [dict(r) for r in t.engine.execute(fixed)]

                        def pyjoin(lrows, rrows):
                            out = []
                            for lr in lrows:
                                for rr in rrows:
                                    if all(lr[k] == rr[k] for k in common):
                                        m = {**lr, **rr}
                                        if predfn(m):
                                            out.append(m)
                            return out

                        def through(op, rows, cols):
                            leaf = LeafRelation(t.engine, frozenset(cols), iteration.RowSequence(rows), name="J",
                                                min_rows=0, max_rows=None)
                            if isinstance(op, Identity):
                                return rows
                            rel = UnaryOperationRelation(operation=op, target=leaf, columns=op.applied_columns(leaf))
                            return [dict(r) for r in t.engine.execute(rel)]

                        trows = [dict(r) for r in t.engine.execute(t)]
                        crows = [dict(r) for r in t.engine.execute(current)]
                        ra = proto.show_rows(sorted(pyjoin(crows, frows), key=proto.show_row))
                        rb = proto.show_rows(sorted(through(c.second, pyjoin(trows, frows), after_first),
                                                    key=proto.show_row))
                        la = proto.show_rows(sorted(pyjoin(frows, crows), key=proto.show_row))
                        lb = proto.show_rows(sorted(through(c.second, pyjoin(frows, trows), after_first),
                                                    key=proto.show_row))
                        sem = f" ja={ra} jb={rb} la={la} lb={lb}"
                    except Exception as exc:  # noqa: BLE001 - reported, judged by the oracle
                        sem = f" ja=[!{type(exc).__name__}] jb=[] la=[] lb=[]"
                return (f"ok first=join:{same} second={proto.show_uop(c.second)} done={show_bool(c.done)} "
                        f"cur={proto.show_uop(cur)} wf={show_bool(wf_first and wf_second)}{sem}")
            case ["commutesem", nx, cx, tn]:
                t = self.pool[tn]
                new, cur = self.uop(nx), self.uop(cx)

                def mk(op, target):
                    if isinstance(op, Identity):
                        return target
                    return UnaryOperationRelation(operation=op, target=target, columns=op.applied_columns(target))

                def wf(op, target):
                    if not op.columns_required <= target.columns:
                        return False
                    if isinstance(op, Calculation) and op.tag in target.columns:
                        return False
                    return True

                current = mk(cur, t)
                c = new.commute(current)
                if c.first is None:
                    return "ok none"
                a_rel = mk(new, current)
                first_rel = mk(c.first, t)
                second_rel = mk(c.second, first_rel)
                b_rel = second_rel if c.done else mk(new, second_rel)
                ok = wf(c.first, t) and wf(c.second, first_rel) and (c.done or wf(new, second_rel))
                a = proto.show_rows(list(t.engine.execute(a_rel)))
                b = proto.show_rows(list(t.engine.execute(b_rel))) if ok else "[?]"
                return f"ok a={a} b={b} wf={show_bool(ok)} kd=?"
            case ["seqsem", tn, fx, sx]:
                self.pool[tn]
                self.uop(fx)
                self.uop(sx)
                return "ok model-only"
            case ["simplify", nx, ux]:
                new, up = self.uop(nx), self.uop(ux)
                s = new.simplify(up)
                if s is None:
                    return "ok none"
                if s is up:
                    return "ok upstream"
                return "ok " + proto.show_uop(s)
            case ["pred", px, *binds]:
                p = self.pred(px)
                row = {self.tags[t]: int(v) for t, v in binds}
                triv = p.as_trivial()
                flat = flatten_logical_and(p)
                flat_s = "F" if flat is False else "(" + " ".join(proto.show_pred(q) for q in flat) + ")"
                norm = proto.show_pred(Selection(p).predicate)
                eng = iteration.Engine(name="tmp")
                eng.functions.update(next(iter(self.engines.values())).functions if self.engines else {})

                def ev(r):
                    # the engine converts a predicate ONCE and applies the callable to every row: apply the
                    # same callable several times; a callable whose answers differ is not a function of the row
                    # The callable is first applied to OTHER rows (as when a relation is iterated): its answer on
                    # `r` must not depend on the rows it saw before.
                    try:
                        f = eng.convert_predicate(p)
                        for primer in ({k: v + 1 for k, v in r.items()}, {k: -v - 2 for k, v in r.items()}):
                            try:
                                f(primer)
                            except Exception:  # noqa: BLE001
                                pass
                        vals = [show_bool(bool(f(r))) for _ in range(3)]
                    except Exception:  # noqa: BLE001
                        return "err"
                    return vals[0] if len(set(vals)) == 1 else "unstable:" + "".join(vals)

                restricted = {k: v for k, v in row.items() if k in p.columns_required}
                sqle = sql.Engine(name="tmpsql")
                sqle.functions.update(eng.functions)
                sqlv = self.sqlw.eval_on_row(sqle, row, predicate=p)
                if flat is False:
                    flatval = "-"
                else:
                    try:
                        flatval = show_bool(all(bool(eng.convert_predicate(q)(row)) for q in flat))
                    except Exception:  # noqa: BLE001
                        flatval = "err"
                try:
                    normval = show_bool(bool(eng.convert_predicate(Selection(p).predicate)(row)))
                except Exception:  # noqa: BLE001
                    normval = "err"
                return (
                    f"ok triv={'-' if triv is None else show_bool(triv)} flat={flat_s} norm={norm} "
                    f"flatval={flatval} normval={normval} "
                    f"cols={show_cols(p.columns_required)} iter={ev(row)} restricted={ev(restricted)} "
                    f"spec=? sup_iter={show_bool(p.is_supported_by(eng))} sup_sql={show_bool(p.is_supported_by(sqle))} "
                    f"sql={sqlv}"
                )
            case ["expr", ex, *binds]:
                e = self.expr(ex)
                row = {self.tags[t]: int(v) for t, v in binds}
                eng = iteration.Engine(name="tmp")
                eng.functions.update(next(iter(self.engines.values())).functions if self.engines else {})

                def ev(r):
                    try:
                        f = eng.convert_column_expression(e)
                        for primer in ({k: v + 1 for k, v in r.items()}, {k: -v - 2 for k, v in r.items()}):
                            try:
                                f(primer)      # rows seen before must not influence the value on `r`
                            except Exception:  # noqa: BLE001
                                pass
                        return str(int(f(r)))
                    except Exception:  # noqa: BLE001
                        return "err"

                restricted = {k: v for k, v in row.items() if k in e.columns_required}
                sqle = sql.Engine(name="tmpsql")
                sqle.functions.update(eng.functions)
                sqlv = self.sqlw.eval_on_row(sqle, row, expression=e)
                return (
                    f"ok cols={show_cols(e.columns_required)} iter={ev(row)} restricted={ev(restricted)} spec=? "
                    f"sql={sqlv}"
                )
            case ["diag", n, mode]:
                r = self.pool[n]
                ex = None
                if mode == "truthful":
                    ex = self.truthful_executor
                res = Diagnostics.run(r, ex)
                return f"ok doomed={show_bool(res.is_doomed)} messages={len(res.messages)}"
            case ["attach", n]:
                r = self.pool[n]
                self.attach_count += 1
                from lsst.daf.relation import MarkerRelation

                if not isinstance(r, MarkerRelation) or r.payload is not None:
                    r.attach_payload(object())  # must raise TypeError; nothing is evaluated
                    return "ok attached-although-not-an-empty-marker"
                rows = self.rows_of(r)
                if isinstance(r.engine, sql.Engine):
                    cols = sorted(r.columns, key=str)
                    payload = self.sqlw.make_table(r.engine, self.sqlw.fresh_name("att"), cols, rows)
                else:
                    payload = iteration.RowSequence(rows)
                r.attach_payload(payload)
                return "ok attached"
            case ["process", n, tn]:
                t = self.pool[tn]
                proc = HarnessProcessor(self)
                res = proc.process(t)
                line = self.report(n, "same" if res is t else "new", res)
                inp = proto.show_rel(t, self.ser, self.engine_names)
                return line + " || input=" + inp + " || hooks=" + " ".join(proc.log) + " det=?"
            case ["sqlexec", n]:
                r = self.pool[n]
                return self.sqlw.run(self, r)
        return "bad-command"

    def fingerprint(self, r) -> str:
        """Everything C09 says must never change for a relation already handed out
        (payload marks of marker relations are excluded: attaching a payload is allowed)."""
        tree = proto.show_rel(r, NoSerialsNoMarks(), self.engine_names)
        # a payload on a Select marker IS part of the fingerprint: nothing in these programs may attach one (the
        # Processor attaches to Materialization / new Transfer nodes, never to the Select around them), and a Select that
        # gains a payload compiles to different SQL afterwards
        n_select_payloads = tree.count("(select+")
        tree = tree.replace("(select+", "(select")
        try:
            h = str(hash(r))
        except TypeError:
            h = "unhashable"
        parts = [tree, proto.show_meta(r, self.engine_names), str(r), h, f"select-payloads:{n_select_payloads}"]
        # leaf payload contents
        def leaves(x):
            from lsst.daf.relation import BinaryOperationRelation, MarkerRelation

            if isinstance(x, LeafRelation):
                yield x
            elif isinstance(x, UnaryOperationRelation):
                yield from leaves(x.target)
            elif isinstance(x, BinaryOperationRelation):
                yield from leaves(x.lhs)
                yield from leaves(x.rhs)
            elif isinstance(x, MarkerRelation):
                yield from leaves(x.target)

        for leaf in leaves(r):
            p = leaf.payload
            if isinstance(p, sql.Payload):
                n = self.sqlw.count_rows(p.from_clause)
                parts.append(f"{leaf.name}:sql:{len(p.where)}:{sorted(map(str, p.columns_available))}:{n}")
            elif hasattr(p, "rows"):
                parts.append(f"{leaf.name}:iter:{proto.show_rows(p.rows if isinstance(p.rows, list) else list(p.rows.values()))}")
        return "|".join(parts)

    def snapshot_changes(self) -> list[str]:
        old = getattr(self, "_snap", {})
        new = {}
        changed = []
        for name in sorted(self.pool):
            fp = self.fingerprint(self.pool[name])
            new[name] = fp
            if name in old and old[name] != fp:
                changed.append(name)
        self._snap = new
        return changed


    @staticmethod
    def markers_holding_leaf_payloads(r) -> list[str]:
        """Leaf names, one per marker of the tree (not below another cached marker) whose payload object is
        a leaf's `CountingSequence`."""
        from lsst.daf.relation import BinaryOperationRelation, MarkerRelation, UnaryOperationRelation

        out: list[str] = []
        stack = [r]
        while stack:
            x = stack.pop()
            if isinstance(x, MarkerRelation):
                if x.payload is not None:
                    if isinstance(x.payload, CountingSequence):
                        out.append(x.payload._name)
                    continue
                stack.append(x.target)
            elif isinstance(x, UnaryOperationRelation):
                stack.append(x.target)
            elif isinstance(x, BinaryOperationRelation):
                stack.append(x.lhs)
                stack.append(x.rhs)
        return sorted(out)

    def pulls(self, before: dict[str, int]) -> str:
        out = []
        for k in sorted(self.counters):
            out.extend([k] * (self.counters[k] - before.get(k, 0)))
        return "[" + ",".join(out) + "]"

    # ------------------------------------------------------------------ helpers for executors
    def rows_of(self, r) -> list[dict]:
        """Rows of a relation, evaluated by the real engines (processor for multi-engine trees).
        Payloads that evaluation caches on marker relations are removed again afterwards, so that
        asking for the rows (truthful executor, attach) is not itself an observable operation."""
        markers = []

        def walk(x):
            from lsst.daf.relation import BinaryOperationRelation, MarkerRelation

            if isinstance(x, MarkerRelation):
                markers.append((x, x.payload))
                if isinstance(x, Select):
                    walk(x.skip_to)
                walk(x.target)
            elif isinstance(x, UnaryOperationRelation):
                walk(x.target)
            elif isinstance(x, BinaryOperationRelation):
                walk(x.lhs)
                walk(x.rhs)

        walk(r)
        counters = dict(self.counters)
        try:
            proc = HarnessProcessor(self, quiet=True)
            processed = proc.process(r)
            if isinstance(processed.engine, iteration.Engine):
                return [dict(x) for x in processed.engine.execute(processed)]
            return self.sqlw.fetch(processed.engine, processed)
        finally:
            for node, old in markers:
                object.__setattr__(node, "payload", old)
            self.counters.clear()
            self.counters.update(counters)

    def truthful_executor(self, r) -> bool:
        return len(self.rows_of(r)) > 0


def main() -> None:
    w = World()
    out = sys.stdout
    for line in sys.stdin:
        line = line.strip()
        if not line:
            continue
        if line == "(reset)":
            w.sqlw.close()
            w = World()
            out.write("ok reset\n")
            continue
        try:
            cmd = proto.parse_line(line)[0]
        except Exception:  # noqa: BLE001
            out.write("bad-syntax\n")
            continue
        try:
            res = w.step(cmd)
        except BadRef:
            res = "bad-ref"
        except Exception as e:  # noqa: BLE001
            if os.environ.get("VERIF_TRACE"):
                traceback.print_exc()
            res = "err " + exc_name(e)
        out.write(res + "\n")
    out.flush()


if __name__ == "__main__":
    main()
