"""Known findings: genuine defects of lsst/daf_relation that are recorded rather than repaired.
The file /verif/known_findings.jsonl is committed and never written at run time.  A violation
is suppressed (printed as KNOWN-FINDING) only if it matches an *open* entry exactly: same
property, same violation kind and the entry's regular expression matches the violation detail.
`fixed:` entries suppress nothing."""
from __future__ import annotations

import json
import os
import re

PATH = os.path.join(os.path.dirname(os.path.dirname(os.path.abspath(__file__))), "known_findings.jsonl")


def load() -> list[dict]:
    out = []
    if os.path.exists(PATH):
        for ln in open(PATH):
            ln = ln.strip()
            if ln and not ln.startswith("#"):
                out.append(json.loads(ln))
    return out


def match(known: list[dict], v) -> dict | None:
    for f in known:
        if f.get("status") != "open":
            continue
        if f["property"] != v.prop or f["kind"] != v.kind:
            continue
        if "match" in f and not re.search(f["match"], v.detail):
            continue
        return f
    return None
